#!/bin/bash
# confirm_seed.sh <seed-dir containing patch.diff demo.cpp> : confirms in a scratch worktree (outside /repo and /verif) that
#  - the demo passes on the unchanged tree and fails with the patch
#  - the unedited test suite builds and passes with the patch
# writes <seed-dir>/confirm.log ; removes the worktree afterwards
set -u
D=$(readlink -f "$1"); WT=/tmp/wt/confirm_$$; LOG=$D/confirm.log
: > $LOG
git -C /repo worktree add -q --detach $WT HEAD >>$LOG 2>&1 || exit 2
cleanup(){ git -C /repo worktree remove --force $WT >/dev/null 2>&1; rm -rf $WT; }
trap cleanup EXIT
STD=${SEED_STD:-gnu++20}
LIBS=""; grep -q "boost/serialization\|boost/archive" $D/demo.cpp && LIBS="-lboost_serialization"
g++ -std=$STD -I$WT/include $D/demo.cpp -o $WT/demo_clean $LIBS >>$LOG 2>&1 && (cd $WT && timeout 120 ./demo_clean >>$LOG 2>&1; echo "DEMO_CLEAN_RC=$?" >>$LOG)
git -C $WT apply $D/patch.diff >>$LOG 2>&1 || { echo "PATCH_APPLY_FAILED" >>$LOG; exit 1; }
g++ -std=$STD -I$WT/include $D/demo.cpp -o $WT/demo_mut $LIBS >>$LOG 2>&1 && (cd $WT && timeout 120 ./demo_mut >>$LOG 2>&1; echo "DEMO_MUT_RC=$?" >>$LOG)
if [ "${SKIP_SUITE:-0}" != 1 ]; then
cmake -G Ninja -S $WT -B $WT/_build -DCMAKE_BUILD_TYPE=Release -DCMAKE_CXX_FLAGS="-Wno-error -O0" -DBUILD_TESTING=ON >/dev/null 2>>$LOG
cmake --build $WT/_build --target tests -j${JOBS:-10} >$WT/build.log 2>&1; echo "BUILD_RC=$?" >>$LOG
tail -3 $WT/build.log >>$LOG
ctest --test-dir $WT/_build -j4 --timeout 900 2>&1 | tail -8 >>$LOG
fi
echo DONE >>$LOG
