#!/usr/bin/env python3
"""regenerates MANIFEST.json from checks/props.py (claimed properties) and checks/manifest_text.py"""
import json, os, sys
V = os.path.dirname(os.path.dirname(os.path.abspath(__file__)))
sys.path.insert(0, os.path.join(V, 'checks'))
import props, manifest_text as T
ids = [json.loads(l)['id'] for l in open(os.path.join(V, 'properties.jsonl'))]
checks = []
for pid in ids:
    if pid not in props.PROPS: continue
    t = T.TEXT[pid]
    checks.append({
        'property_id': pid,
        'quick_cmd': './check %s --tier quick' % pid,
        'thorough_cmd': './check %s --tier thorough' % pid,
        'evidence_file': '/verif/evidence/%s.json' % pid,
        'replay_cmd_template': './check --replay {path}',
        'engine': 'msm-static',
        'level_claimed': {'category': props.PROPS[pid].get('level', 'other'), 'text': t['level'], 'design_ref': t.get('ref', 'DESIGN.md section 5')},
        'level_note': t['note'],
        'technique': t['technique'],
    })
na = [{'property_id': pid, 'reason': T.NA[pid]} for pid in ids if pid not in props.PROPS]
m = {
 'version': 1,
 'setup_cmd': 'make -C /verif/tools',
 'hooks': {'guard': 'BOOST_MSM_VERIF', 'enable': 'no hook is needed: the static extractor reads private members of the unmodified headers',
           'baseline_off_cmd': 'cmake --build /repo/_build --target tests -j16 && ctest --test-dir /repo/_build -j8 --timeout 900',
           'source_commits': [], 'add_only': True},
 'engines': [{'name': 'msm-static', 'path': '/verif/check', 'serves_properties': [c['property_id'] for c in checks],
              'kind_free_text': 'clang-14 libTooling fact extractor (tools/msm-facts.cc: CFG + resolved calls of every instantiated Boost.MSM function, records, typedefs) + Python rule engine (checks/): path, effect-summary, definite-assignment, ownership and table-agreement rules; nothing is executed'}],
 'checks': checks,
 'notes': T.NOTES,
 'not_applicable': na,
}
json.dump(m, open(os.path.join(V, 'MANIFEST.json'), 'w'), indent=1)
print('claimed', [c['property_id'] for c in checks], 'n/a', [x['property_id'] for x in na])
