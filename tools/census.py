#!/usr/bin/env python3
"""census.py (not a registered check): function definitions under /repo/include/boost/msm (outside euml / puml / mpl_graph) that no TU of the
thorough corpus instantiates.  Used to decide which witnesses to write: an [I] / [P] rule only sees instantiated code."""
import sys, re, os, json, glob
sys.path.insert(0,'/verif/checks')
import corpus, facts
from concurrent.futures import ProcessPoolExecutor
def names(tu):
    try:
        p,_,_=facts.extract_one(tu)
    except Exception as e:
        return set()
    F=facts.Facts(p,tu)
    out=set()
    for f in F.funcs:
        if f.file.startswith('boost/msm/') and f.blocks: out.add((f.file, f.n, f.loc.split(':')[1] if ':' in f.loc else ''))
    return out
if __name__=='__main__':
    tus=corpus.corpus('thorough')
    seen=set()
    with ProcessPoolExecutor(12) as ex:
        for s in ex.map(names, tus): seen|=s
    byfile={}
    for fl,n,ln in seen: byfile.setdefault(fl,set()).add(n)
    lines={}
    for fl,n,ln in seen: lines.setdefault(fl,set()).add(int(ln) if ln.isdigit() else 0)
    root='/repo/include/'
    rx=re.compile(r'^\s*(?:template\s*<[^>]*>\s*)?(?:static\s+|inline\s+|constexpr\s+|virtual\s+|explicit\s+)*[\w:<>,\s\*&~]*?\b(~?\w+|operator\s*\S+)\s*\(([^;{}]*)\)\s*(?:const)?\s*(?:noexcept(?:\([^)]*\))?)?\s*(?::[^;{]*)?\{?\s*$')
    for fl in sorted(glob.glob(root+'boost/msm/**/*.hpp', recursive=True)):
        rel=fl[len(root):]
        if '/euml/' in rel or '/puml/' in rel or 'mpl_graph' in rel: continue
        src=open(fl).read().split('\n')
        cand=[]
        for i,l in enumerate(src):
            if l.strip().startswith(('//','#','typedef','using','return','if','while','for','else','BOOST_')): continue
            m=rx.match(l)
            if m and m.group(1) not in ('if','while','for','switch','return','sizeof','defined','static_assert','catch','BOOST_STATIC_ASSERT','BOOST_MPL_ASSERT','BOOST_ASSERT'):
                # body follows?
                nxt=' '.join(src[i:i+3])
                if '{' in nxt: cand.append((i+1,m.group(1)))
        miss=[(ln,n) for ln,n in cand if n not in byfile.get(rel,set()) and not any(abs(ln-x)<=2 for x in lines.get(rel,()))]
        if miss: print(rel, len(cand), 'defs;', 'never instantiated:', miss[:40])
