#!/usr/bin/env python3
"""rewrites the seeded-changes table of DESIGN.md from seeded/*/meta.json"""
import glob, json, os, re
V = os.path.dirname(os.path.dirname(os.path.abspath(__file__)))
rows = ['| seeded change | property | what it needs to manifest | reported by (property: rules) | when it arrived |', '|---|---|---|---|---|']
n = hit = 0
arr = {'caught': 0, 'missed': 0, 'other': 0}
for d in sorted(glob.glob(os.path.join(V, 'seeded', '*'))):
    m = json.load(open(d + '/meta.json'))
    det = m.get('detected_by') or []
    own = [x for x in det if x['property'] == m['property']]
    n += 1; hit += 1 if own else 0
    oa = (m.get('on_arrival') or '').lower()
    arr['caught' if (oa.startswith('caught') or oa.startswith('reported on arrival')) else 'missed' if oa.startswith('missed') else 'other'] += 1
    rep = '; '.join('%s: %s' % (x['property'], ', '.join(x['rules'])) for x in det) or '**not reported**'
    rows.append('| `%s` | %s | %s | %s | %s |' % (m['id'], m['property'], m['needs_to_manifest'].replace('|', '/'), rep, m.get('on_arrival', '')))
rows.append('')
rows.append('%d of %d seeded changes are reported by the check of the property they were written against (most by several checks).  When they arrived: %d were reported by that check as it stood, %d by no check at all (each led to a new rule, witness or oracle - last column), %d only by the checks of other properties or with exit 2 (rule sharing / engine precedence was then corrected).' % (hit, n, arr['caught'], arr['missed'], arr['other']))
s = open(os.path.join(V, 'DESIGN.md')).read()
s = re.sub(r'<!-- SEEDTABLE -->.*?<!-- /SEEDTABLE -->', '<!-- SEEDTABLE -->\n' + '\n'.join(rows) + '\n<!-- /SEEDTABLE -->', s, flags=re.S)
open(os.path.join(V, 'DESIGN.md'), 'w').write(s)
print(hit, n)
