// msm-facts: libTooling fact extractor for the static verification of Boost.MSM.
//
// For one translation unit it writes one JSON file with
//   * every *instantiated* (non-dependent) function whose body lies under
//     boost/msm/ (or in user code, when --user is given): identity, pattern location,
//     enclosing class chain with template arguments, parameters, and the CFG with a
//     linearised expression DAG (each CFG element is a node that refers to its
//     operands by id), try/catch structure, member initialisers and implicit dtors;
//   * records (classes) under boost/msm/ and in user code: bases, fields, typedefs,
//     integral constants, template arguments;
// Nothing is executed; the TU is only parsed and type-checked.
//
// usage: msm-facts <out.json> <file.cpp> -- <compiler flags>
#include "clang/AST/ASTConsumer.h"
#include "clang/AST/DeclTemplate.h"
#include "clang/AST/ExprCXX.h"
#include "clang/AST/RecursiveASTVisitor.h"
#include "clang/AST/StmtCXX.h"
#include "clang/Analysis/CFG.h"
#include "clang/Frontend/CompilerInstance.h"
#include "clang/Frontend/FrontendAction.h"
#include "clang/Tooling/CompilationDatabase.h"
#include "clang/Tooling/Tooling.h"
#include "llvm/Support/raw_ostream.h"
#include <map>
#include <set>
#include <string>
#include <unordered_map>
#include <vector>

using namespace clang;
using namespace clang::tooling;

static std::string gOut;
static bool gUser = true;      // also emit bodies of functions defined in user code
static bool gEuml = false;     // emit bodies under front/euml and mpl_graph

// ---------------------------------------------------------------- JSON helpers
static void jstr(llvm::raw_ostream &O, llvm::StringRef S) {
  O << '"';
  for (unsigned char c : S) {
    switch (c) {
    case '"': O << "\\\""; break;
    case '\\': O << "\\\\"; break;
    case '\n': O << "\\n"; break;
    case '\t': O << "\\t"; break;
    case '\r': O << "\\r"; break;
    default:
      if (c < 0x20) { char b[8]; snprintf(b, sizeof b, "\\u%04x", c); O << b; }
      else O << (char)c;
    }
  }
  O << '"';
}

struct Interner {
  std::unordered_map<std::string, unsigned> ix;
  std::vector<std::string> v;
  unsigned get(const std::string &s) {
    auto it = ix.find(s);
    if (it != ix.end()) return it->second;
    unsigned n = v.size();
    ix.emplace(s, n);
    v.push_back(s);
    return n;
  }
};

// ---------------------------------------------------------------- extractor
struct Extractor {
  ASTContext &C;
  SourceManager &SM;
  PrintingPolicy PP;
  Interner S;
  std::string funcs, records;    // accumulated JSON text
  llvm::raw_string_ostream FO{funcs}, RO{records};
  unsigned nfun = 0, nrec = 0;
  std::unordered_map<const Decl *, unsigned> fkey;
  std::unordered_map<const Decl *, unsigned> ckey;   // closure classes: type strings of lambdas are not unique per instantiation
  unsigned classKey(const CXXRecordDecl *R) {
    const Decl *K = R->getCanonicalDecl();
    auto it = ckey.find(K);
    if (it != ckey.end()) return it->second;
    unsigned n = ckey.size() + 1;
    ckey.emplace(K, n);
    return n;
  }
  std::set<const Decl *> seenRec;
  std::set<const FunctionDecl *> seenFun;

  Extractor(ASTContext &c) : C(c), SM(c.getSourceManager()), PP(c.getLangOpts()) {
    PP.SuppressTagKeyword = true;
    PP.FullyQualifiedName = true;
    PP.PrintCanonicalTypes = true;
    PP.SuppressUnwrittenScope = false;
    PP.Bool = true;
    PP.AnonymousTagLocations = true;
    PP.SuppressDefaultTemplateArgs = false;
  }

  unsigned keyOf(const FunctionDecl *F) {
    const Decl *K = F->getCanonicalDecl();
    auto it = fkey.find(K);
    if (it != fkey.end()) return it->second;
    unsigned n = fkey.size() + 1;
    fkey.emplace(K, n);
    return n;
  }

  std::string fileOf(SourceLocation L) {
    if (L.isInvalid()) return "";
    auto P = SM.getPresumedLoc(SM.getExpansionLoc(L));
    if (P.isInvalid()) return "";
    return P.getFilename();
  }
  std::string locStr(SourceLocation L) {
    if (L.isInvalid()) return "?";
    auto P = SM.getPresumedLoc(SM.getExpansionLoc(L));
    if (P.isInvalid()) return "?";
    std::string f = P.getFilename();
    auto p = f.find("/boost/msm/");
    if (p != std::string::npos) f = f.substr(p + 1);
    return f + ":" + std::to_string(P.getLine());
  }
  unsigned lineOf(SourceLocation L) {
    if (L.isInvalid()) return 0;
    auto P = SM.getPresumedLoc(SM.getExpansionLoc(L));
    return P.isInvalid() ? 0 : P.getLine();
  }
  // 0 = foreign (std, other boost), 1 = boost/msm, 2 = user code
  int origin(SourceLocation L) {
    std::string f = fileOf(L);
    if (f.empty()) return 0;
    if (f.find("/boost/msm/") != std::string::npos) return 1;
    if (f.rfind("/usr/", 0) == 0) return 0;
    if (SM.isInSystemHeader(SM.getExpansionLoc(L))) return 0;
    return 2;
  }

  std::string typeStr(QualType T) {
    if (T.isNull()) return "?";
    return T.getCanonicalType().getAsString(PP);
  }
  unsigned ty(QualType T) { return S.get(typeStr(T)); }

  void targList(llvm::raw_ostream &O, llvm::ArrayRef<TemplateArgument> A) {
    O << '[';
    bool first = true;
    std::function<void(const TemplateArgument &)> one = [&](const TemplateArgument &a) {
      switch (a.getKind()) {
      case TemplateArgument::Type:
        if (!first) O << ','; first = false;
        O << "{\"t\":" << ty(a.getAsType()) << '}';
        break;
      case TemplateArgument::Integral:
        if (!first) O << ','; first = false;
        O << "{\"i\":" << a.getAsIntegral().getExtValue() << '}';
        break;
      case TemplateArgument::Pack:
        for (auto &p : a.pack_elements()) one(p);
        break;
      case TemplateArgument::Declaration: {
        if (!first) O << ','; first = false;
        std::string n;
        llvm::raw_string_ostream s(n);
        a.getAsDecl()->printQualifiedName(s, PP);
        O << "{\"d\":" << S.get(s.str());
        // a function template specialisation used as a non-type argument: its own template arguments
        if (auto *FD = dyn_cast<FunctionDecl>(a.getAsDecl()))
          if (auto *TA = FD->getTemplateSpecializationArgs()) { O << ",\"da\":"; targList(O, TA->asArray()); }
        O << '}';
        break;
      }
      case TemplateArgument::Template:
      case TemplateArgument::TemplateExpansion: {
        if (!first) O << ','; first = false;
        std::string n;
        llvm::raw_string_ostream s(n);
        if (TemplateDecl *TD = a.getAsTemplateOrTemplatePattern().getAsTemplateDecl()) TD->printQualifiedName(s, PP);
        else a.getAsTemplateOrTemplatePattern().print(s, PP);
        O << "{\"tt\":" << S.get(s.str()) << '}';
        break;
      }
      default:
        if (!first) O << ','; first = false;
        O << "{\"x\":1}";
      }
    };
    for (auto &a : A) one(a);
    O << ']';
  }

  // class chain of a decl context, outermost first
  void ctxChain(llvm::raw_ostream &O, const DeclContext *DC) {
    std::vector<const DeclContext *> chain;
    for (; DC && !DC->isTranslationUnit(); DC = DC->getParent())
      if (isa<CXXRecordDecl>(DC) || isa<NamespaceDecl>(DC) || isa<FunctionDecl>(DC)) chain.push_back(DC);
    O << '[';
    bool first = true;
    for (auto it = chain.rbegin(); it != chain.rend(); ++it) {
      if (!first) O << ','; first = false;
      if (auto *N = dyn_cast<NamespaceDecl>(*it)) {
        O << "{\"ns\":"; jstr(O, N->isAnonymousNamespace() ? "(anonymous)" : N->getName()); O << '}';
      } else if (auto *R = dyn_cast<CXXRecordDecl>(*it)) {
        O << "{\"c\":"; jstr(O, R->isLambda() ? "(lambda)" : R->getNameAsString());
        if (auto *Sp = dyn_cast<ClassTemplateSpecializationDecl>(R)) {
          O << ",\"a\":"; targList(O, Sp->getTemplateArgs().asArray());
        }
        O << ",\"t\":" << ty(C.getRecordType(R));
        if (R->isLambda()) O << ",\"lck\":" << classKey(R);
        O << '}';
      } else if (auto *F = dyn_cast<FunctionDecl>(*it)) {
        O << "{\"f\":"; jstr(O, F->getNameAsString()); O << ",\"k\":" << keyOf(F) << '}';
      }
    }
    O << ']';
  }
  std::string plainQual(const NamedDecl *D) {
    std::vector<std::string> parts;
    parts.push_back(D->getDeclName().isIdentifier() ? D->getName().str() : D->getNameAsString());
    for (const DeclContext *DC = D->getDeclContext(); DC && !DC->isTranslationUnit(); DC = DC->getParent()) {
      if (auto *N = dyn_cast<NamespaceDecl>(DC)) parts.push_back(N->isAnonymousNamespace() ? "(anonymous)" : N->getName().str());
      else if (auto *R = dyn_cast<CXXRecordDecl>(DC)) parts.push_back(R->isLambda() ? "(lambda)" : R->getNameAsString());
      else if (auto *F = dyn_cast<FunctionDecl>(DC)) parts.push_back(F->getNameAsString() + "()");
    }
    std::string r;
    for (auto it = parts.rbegin(); it != parts.rend(); ++it) { if (!r.empty()) r += "::"; r += *it; }
    return r;
  }

  const FunctionDecl *patternOf(const FunctionDecl *F) {
    if (const FunctionDecl *P = F->getTemplateInstantiationPattern()) return P;
    return F;
  }

  // ------------------------------------------------------------ expressions
  static const Stmt *strip(const Stmt *St) {
    while (St) {
      if (auto *E = dyn_cast<ParenExpr>(St)) St = E->getSubExpr();
      else if (auto *E = dyn_cast<ImplicitCastExpr>(St)) {
        switch (E->getCastKind()) {
        case CK_DerivedToBase: case CK_UncheckedDerivedToBase: case CK_BaseToDerived:
        case CK_BitCast: case CK_ConstructorConversion: case CK_UserDefinedConversion:
          return St;
        default: St = E->getSubExpr();
        }
      }
      else if (auto *E = dyn_cast<FullExpr>(St)) St = E->getSubExpr();   // ExprWithCleanups, ConstantExpr
      else if (auto *E = dyn_cast<MaterializeTemporaryExpr>(St)) St = E->getSubExpr();
      else if (auto *E = dyn_cast<CXXBindTemporaryExpr>(St)) St = E->getSubExpr();
      else if (auto *E = dyn_cast<SubstNonTypeTemplateParmExpr>(St)) St = E->getReplacement();
      else break;
    }
    return St;
  }

  struct FnCtx {
    std::unordered_map<const Stmt *, unsigned> id;   // stripped stmt -> node id
    std::vector<std::string> nodes;                  // node JSON by id
    std::vector<int> nodeBlock;
    std::vector<std::vector<unsigned>> blockElems;   // by block id
    std::set<const Stmt *> written;
    std::set<const Stmt *> rvalued;                  // operands of an lvalue-to-rvalue conversion (= reads)
    int curBlock = -1;
  };

  unsigned need(FnCtx &X, const Stmt *raw) {
    const Stmt *St = strip(raw);
    if (!St) return 0;
    auto it = X.id.find(St);
    if (it != X.id.end()) {
      if (!X.written.count(St) && X.nodes[it->second].empty()) {
        // a CFG element of a later block referenced early (e.g. across && / ?:): leave it, it
        // will be written when its block is processed
      }
      return it->second;
    }
    // not a CFG element: create on demand, placed in the current block before the parent
    unsigned n = X.nodes.size();
    X.nodes.emplace_back();
    X.nodeBlock.push_back(X.curBlock);
    X.id.emplace(St, n);
    writeNode(X, St, n);
    if (X.curBlock >= 0) X.blockElems[X.curBlock].push_back(n);
    return n;
  }

  void refDecl(llvm::raw_ostream &O, const ValueDecl *D) {
    O << ",\"n\":"; jstr(O, D->getDeclName().isIdentifier() ? D->getName() : llvm::StringRef(D->getNameAsString()));
    const char *dk = "other";
    if (isa<ParmVarDecl>(D)) dk = "param";
    else if (auto *V = dyn_cast<VarDecl>(D)) dk = V->isLocalVarDecl() ? "local" : (V->isStaticDataMember() ? "smember" : "var");
    else if (isa<EnumConstantDecl>(D)) dk = "enum";
    else if (isa<CXXMethodDecl>(D)) dk = "method";
    else if (isa<FunctionDecl>(D)) dk = "func";
    else if (isa<FieldDecl>(D)) dk = "field";
    else if (isa<BindingDecl>(D)) dk = "binding";
    O << ",\"dk\":\"" << dk << '"';
    if (auto *F = dyn_cast<FunctionDecl>(D)) {
      O << ",\"fk\":" << keyOf(F) << ",\"q\":"; jstr(O, plainQual(F));
      O << ",\"fq\":" << S.get(fullName(F));
    } else if (auto *EC = dyn_cast<EnumConstantDecl>(D)) {
      O << ",\"v\":" << EC->getInitVal().getExtValue();
      // the class an enumerator is nested in (e.g. get_state_id<stt, State>::value)
      if (auto *ED = dyn_cast<EnumDecl>(EC->getDeclContext()))
        if (auto *RD = dyn_cast<CXXRecordDecl>(ED->getDeclContext()))
          if (!RD->isDependentType()) O << ",\"ect\":" << ty(C.getRecordType(RD));
    } else if (auto *V = dyn_cast<VarDecl>(D)) {
      if (!V->isLocalVarDecl() && !isa<ParmVarDecl>(V)) { O << ",\"q\":"; jstr(O, plainQual(V)); }
      if (auto *VS = dyn_cast<VarTemplateSpecializationDecl>(V)) { O << ",\"ta\":"; targList(O, VS->getTemplateArgs().asArray()); }
      // value of constant integral variables (static const members, constexpr locals)
      if (V->getType().isConstQualified() && V->getType()->isIntegralOrEnumerationType() && !isa<ParmVarDecl>(V)) {
        const Expr *I = V->getAnyInitializer();
        Expr::EvalResult Rr;
        if (I && !I->isValueDependent() && I->EvaluateAsInt(Rr, C)) O << ",\"v\":" << Rr.Val.getInt().getExtValue();
      }
    }
  }
  std::string fullName(const NamedDecl *D) {
    std::string n;
    llvm::raw_string_ostream s(n);
    D->printQualifiedName(s, PP);
    if (auto *F = dyn_cast<FunctionDecl>(D))
      if (auto *TA = F->getTemplateSpecializationArgs()) {
        s << '<';
        bool first = true;
        for (auto &a : TA->asArray()) { if (!first) s << ','; first = false; a.print(PP, s, true); }
        s << '>';
      }
    return s.str();
  }

  void calleeInfo(llvm::raw_ostream &O, const FunctionDecl *D) {
    O << ",\"fk\":" << keyOf(D);
    O << ",\"n\":"; jstr(O, D->getDeclName().isIdentifier() ? D->getName() : llvm::StringRef(D->getNameAsString()));
    O << ",\"q\":"; jstr(O, plainQual(D));
    O << ",\"fq\":" << S.get(fullName(D));
    const FunctionDecl *P = patternOf(D);
    O << ",\"org\":" << origin(P->getLocation());
    O << ",\"cl\":"; jstr(O, locStr(P->getLocation()));
    if (auto *M = dyn_cast<CXXMethodDecl>(D)) {
      O << ",\"pc\":"; jstr(O, M->getParent()->isLambda() ? "(lambda)" : M->getParent()->getNameAsString());
      O << ",\"pt\":" << ty(C.getRecordType(M->getParent()));
      if (M->isStatic()) O << ",\"st\":1";
      if (M->isVirtual()) O << ",\"virt\":1";
    }
    if (auto *TA = D->getTemplateSpecializationArgs()) { O << ",\"ta\":"; targList(O, TA->asArray()); }
  }

  void writeNode(FnCtx &X, const Stmt *St, unsigned n) {
    X.written.insert(St);
    std::string buf;
    llvm::raw_string_ostream O(buf);
    auto ids = [&](llvm::ArrayRef<const Stmt *> v) {
      O << '[';
      bool first = true;
      for (auto *c : v) { if (!first) O << ','; first = false; O << need(X, c); }
      O << ']';
    };
    // operands first (so that on-demand children precede this node in the block)
    std::vector<unsigned> kid;
    auto K = [&](const Stmt *c) -> unsigned { return c ? need(X, c) : 0; };

    O << "{\"l\":" << lineOf(St->getBeginLoc());
    if (auto *E = dyn_cast<Expr>(St)) O << ",\"t\":" << ty(E->getType());
    if (X.rvalued.count(St)) O << ",\"rv\":1";

    if (auto *E = dyn_cast<DeclRefExpr>(St)) {
      O << ",\"k\":\"ref\""; refDecl(O, E->getDecl());
    } else if (auto *E = dyn_cast<MemberExpr>(St)) {
      unsigned b = K(E->getBase());
      O << ",\"k\":\"mem\",\"b\":" << b << ",\"arrow\":" << (E->isArrow() ? 1 : 0);
      refDecl(O, E->getMemberDecl());
      if (auto *FD = dyn_cast<FieldDecl>(E->getMemberDecl())) { O << ",\"oc\":"; jstr(O, FD->getParent()->getNameAsString()); }
    } else if (isa<CXXThisExpr>(St)) {
      O << ",\"k\":\"this\"";
    } else if (auto *E = dyn_cast<CXXOperatorCallExpr>(St)) {
      std::vector<unsigned> a;
      for (auto *arg : E->arguments()) a.push_back(K(arg));
      O << ",\"k\":\"call\",\"op\":"; jstr(O, getOperatorSpelling(E->getOperator()));
      if (auto *D = E->getDirectCallee()) calleeInfo(O, D);
      else O << ",\"fn\":" << K(E->getCallee());
      bool member = E->getDirectCallee() && isa<CXXMethodDecl>(E->getDirectCallee()) && !cast<CXXMethodDecl>(E->getDirectCallee())->isStatic();
      if (member && !a.empty()) { O << ",\"obj\":" << a[0]; a.erase(a.begin()); }
      O << ",\"args\":["; for (size_t i = 0; i < a.size(); i++) { if (i) O << ','; O << a[i]; } O << ']';
    } else if (auto *E = dyn_cast<CXXMemberCallExpr>(St)) {
      unsigned obj = K(E->getImplicitObjectArgument());
      std::vector<unsigned> a;
      for (auto *arg : E->arguments()) a.push_back(K(arg));
      O << ",\"k\":\"call\"";
      if (auto *D = E->getDirectCallee()) calleeInfo(O, D);
      else O << ",\"fn\":" << K(E->getCallee());
      O << ",\"obj\":" << obj;
      O << ",\"args\":["; for (size_t i = 0; i < a.size(); i++) { if (i) O << ','; O << a[i]; } O << ']';
    } else if (auto *E = dyn_cast<CallExpr>(St)) {
      unsigned fn = 0;
      const FunctionDecl *D = E->getDirectCallee();
      if (!D) fn = K(E->getCallee());
      std::vector<unsigned> a;
      for (auto *arg : E->arguments()) a.push_back(K(arg));
      O << ",\"k\":\"call\"";
      if (D) calleeInfo(O, D); else O << ",\"fn\":" << fn;
      O << ",\"args\":["; for (size_t i = 0; i < a.size(); i++) { if (i) O << ','; O << a[i]; } O << ']';
    } else if (auto *E = dyn_cast<CXXConstructExpr>(St)) {
      std::vector<unsigned> a;
      for (auto *arg : E->arguments()) a.push_back(K(arg));
      O << ",\"k\":\"ctor\"";
      calleeInfo(O, E->getConstructor());
      if (E->getConstructor()->isCopyConstructor()) O << ",\"copy\":1";
      if (E->getConstructor()->isMoveConstructor()) O << ",\"move\":1";
      if (E->isElidable()) O << ",\"elide\":1";
      O << ",\"args\":["; for (size_t i = 0; i < a.size(); i++) { if (i) O << ','; O << a[i]; } O << ']';
    } else if (auto *E = dyn_cast<BinaryOperator>(St)) {
      unsigned l = K(E->getLHS()), r = K(E->getRHS());
      O << ",\"k\":\"" << (E->isAssignmentOp() ? "asg" : "bin") << "\",\"op\":"; jstr(O, E->getOpcodeStr());
      O << ",\"lhs\":" << l << ",\"rhs\":" << r;
      O << ",\"lt\":" << ty(E->getLHS()->IgnoreParenImpCasts()->getType()) << ",\"rt\":" << ty(E->getRHS()->IgnoreParenImpCasts()->getType());
    } else if (auto *E = dyn_cast<UnaryOperator>(St)) {
      unsigned e = K(E->getSubExpr());
      O << ",\"k\":\"un\",\"op\":"; jstr(O, UnaryOperator::getOpcodeStr(E->getOpcode()));
      O << ",\"e\":" << e << ",\"post\":" << (E->isPostfix() ? 1 : 0);
    } else if (auto *E = dyn_cast<ArraySubscriptExpr>(St)) {
      unsigned b = K(E->getBase()), i = K(E->getIdx());
      O << ",\"k\":\"sub\",\"b\":" << b << ",\"i\":" << i;
    } else if (auto *E = dyn_cast<ConditionalOperator>(St)) {
      unsigned c = K(E->getCond()), t = K(E->getTrueExpr()), f = K(E->getFalseExpr());
      O << ",\"k\":\"cond\",\"c\":" << c << ",\"a\":" << t << ",\"b\":" << f;
    } else if (auto *E = dyn_cast<IntegerLiteral>(St)) {
      O << ",\"k\":\"lit\",\"v\":" << E->getValue().getLimitedValue();
    } else if (auto *E = dyn_cast<CXXBoolLiteralExpr>(St)) {
      O << ",\"k\":\"lit\",\"v\":" << (E->getValue() ? "true" : "false");
    } else if (isa<CXXNullPtrLiteralExpr>(St) || isa<GNUNullExpr>(St)) {
      O << ",\"k\":\"lit\",\"v\":null";
    } else if (auto *E = dyn_cast<StringLiteral>(St)) {
      O << ",\"k\":\"lit\",\"s\":"; jstr(O, E->isAscii() ? E->getString() : llvm::StringRef("?"));
    } else if (auto *E = dyn_cast<ExplicitCastExpr>(St)) {
      unsigned e = K(E->getSubExpr());
      O << ",\"k\":\"cast\",\"cc\":\"" << E->getStmtClassName() << "\",\"ck\":\"" << E->getCastKindName() << "\",\"e\":" << e;
      O << ",\"from\":" << ty(E->getSubExpr()->IgnoreParenImpCasts()->getType()) << ",\"to\":" << ty(E->getTypeAsWritten());
    } else if (auto *E = dyn_cast<ImplicitCastExpr>(St)) {
      unsigned e = K(E->getSubExpr());
      O << ",\"k\":\"icast\",\"ck\":\"" << E->getCastKindName() << "\",\"e\":" << e;
      O << ",\"from\":" << ty(E->getSubExpr()->IgnoreParenImpCasts()->getType());
    } else if (auto *E = dyn_cast<ReturnStmt>(St)) {
      unsigned e = E->getRetValue() ? K(E->getRetValue()) : 0;
      O << ",\"k\":\"ret\",\"e\":" << e;
    } else if (auto *E = dyn_cast<DeclStmt>(St)) {
      O << ",\"k\":\"decl\",\"vars\":[";
      bool first = true;
      for (auto *D : E->decls()) {
        auto *V = dyn_cast<VarDecl>(D);
        if (!V) continue;
        unsigned init = V->getInit() ? K(V->getInit()) : 0;
        if (!first) O << ','; first = false;
        O << "{\"n\":"; jstr(O, V->getName());
        O << ",\"t\":" << ty(V->getType()) << ",\"init\":" << init << ",\"hasinit\":" << (V->getInit() ? 1 : 0);
        O << ",\"ref\":" << (V->getType()->isReferenceType() ? 1 : 0);
        O << ",\"scalar\":" << (V->getType()->isScalarType() ? 1 : 0);
        O << ",\"static\":" << (V->isStaticLocal() ? 1 : 0) << '}';
      }
      O << ']';
    } else if (auto *E = dyn_cast<LambdaExpr>(St)) {
      O << ",\"k\":\"lambda\",\"fk\":" << keyOf(E->getCallOperator()) << ",\"lt\":" << ty(C.getRecordType(E->getLambdaClass())) << ",\"lck\":" << classKey(E->getLambdaClass()) << ",\"caps\":[";
      bool first = true;
      auto ci = E->capture_init_begin();
      for (auto &cap : E->captures()) {
        if (!first) O << ','; first = false;
        if (cap.capturesThis()) O << "\"this\"";
        else if (cap.capturesVariable()) { std::string s = (cap.getCaptureKind() == LCK_ByRef ? "&" : "=") + cap.getCapturedVar()->getNameAsString(); jstr(O, s); }
        else O << "\"?\"";
        ++ci;
      }
      O << ']';
    } else if (auto *E = dyn_cast<CXXThrowExpr>(St)) {
      unsigned e = E->getSubExpr() ? K(E->getSubExpr()) : 0;
      O << ",\"k\":\"throw\",\"e\":" << e;
    } else if (auto *E = dyn_cast<CXXNewExpr>(St)) {
      std::vector<unsigned> a;
      for (auto *arg : E->placement_arguments()) a.push_back(K(arg));
      unsigned init = E->getInitializer() ? K(E->getInitializer()) : 0;
      O << ",\"k\":\"new\",\"ty\":" << ty(E->getAllocatedType()) << ",\"init\":" << init << ",\"place\":[";
      for (size_t i = 0; i < a.size(); i++) { if (i) O << ','; O << a[i]; }
      O << ']';
    } else if (auto *E = dyn_cast<CXXDeleteExpr>(St)) {
      unsigned e = K(E->getArgument());
      O << ",\"k\":\"delete\",\"e\":" << e;
    } else if (auto *E = dyn_cast<CXXPseudoDestructorExpr>(St)) {
      unsigned e = K(E->getBase());
      O << ",\"k\":\"pdtor\",\"e\":" << e;
    } else if (auto *E = dyn_cast<CXXTypeidExpr>(St)) {
      O << ",\"k\":\"typeid\"";
      if (E->isTypeOperand() && !E->getTypeOperandSourceInfo()->getType()->isDependentType()) O << ",\"ty\":" << ty(E->getTypeOperandSourceInfo()->getType());
    } else if (auto *E = dyn_cast<CXXDefaultArgExpr>(St)) {
      O << ",\"k\":\"defarg\"";
      (void)E;
    } else if (auto *E = dyn_cast<UnaryExprOrTypeTraitExpr>(St)) {
      O << ",\"k\":\"sizeof\",\"tk\":" << (int)E->getKind();
      if (!E->getTypeOfArgument().isNull() && !E->getTypeOfArgument()->isDependentType()) O << ",\"ty\":" << ty(E->getTypeOfArgument());
      Expr::EvalResult R;
      if (!E->isValueDependent() && E->EvaluateAsInt(R, C)) O << ",\"v\":" << R.Val.getInt().getExtValue();
    } else {
      std::vector<unsigned> a;
      for (auto *c : St->children()) if (c) a.push_back(K(c));
      O << ",\"k\":\"" << St->getStmtClassName() << "\",\"ch\":[";
      for (size_t i = 0; i < a.size(); i++) { if (i) O << ','; O << a[i]; }
      O << ']';
    }
    // constant value of integral/bool expressions, when the front end can fold them
    if (auto *E = dyn_cast<Expr>(St)) {
      if (!isa<IntegerLiteral>(E) && !isa<CXXBoolLiteralExpr>(E) && !E->isValueDependent() &&
          (E->getType()->isIntegralOrEnumerationType()) && !isa<DeclRefExpr>(E) ) {
        Expr::EvalResult R;
        if (E->isPRValue() && E->EvaluateAsInt(R, C, Expr::SE_NoSideEffects)) O << ",\"cv\":" << R.Val.getInt().getExtValue();
      }
    }
    O << '}';
    (void)ids;
    X.nodes[n] = O.str();
  }

  static bool bodyContains(const Stmt *root, const Stmt *x) {
    if (root == x) return true;
    for (auto *c : root->children()) if (c && bodyContains(c, x)) return true;
    return false;
  }

  void collect(const Stmt *root, std::set<const Stmt *> &out) {
    if (!root) return;
    out.insert(root);
    if (isa<LambdaExpr>(root)) return;
    for (auto *c : root->children()) collect(c, out);
  }

  void emitFunction(const FunctionDecl *F) {
    if (!F->doesThisDeclarationHaveABody() || F->isDependentContext()) return;
    if (!seenFun.insert(F).second) return;
    const FunctionDecl *P = patternOf(F);
    int org = origin(P->getLocation());
    if (org == 0) return;
    if (org == 2 && !gUser) return;
    std::string pf = fileOf(P->getLocation());
    if (!gEuml && (pf.find("/front/euml/") != std::string::npos || pf.find("/mpl_graph/") != std::string::npos ||
                   pf.find("/front/puml/") != std::string::npos))
      return;
    const Stmt *Body = F->getBody();
    if (!Body) return;

    CFG::BuildOptions BO;
    BO.setAllAlwaysAdd();
    BO.PruneTriviallyFalseEdges = false;
    BO.AddInitializers = true;
    BO.AddImplicitDtors = true;
    BO.AddTemporaryDtors = false;
    std::unique_ptr<CFG> cfg = CFG::buildCFG(F, const_cast<Stmt *>(Body), &C, BO);

    llvm::raw_ostream &O = FO;
    if (nfun++) O << ",\n";
    O << "{\"k\":" << keyOf(F);
    O << ",\"n\":"; jstr(O, F->getDeclName().isIdentifier() ? F->getName() : llvm::StringRef(F->getNameAsString()));
    O << ",\"q\":"; jstr(O, plainQual(F));
    O << ",\"fq\":" << S.get(fullName(F));
    O << ",\"loc\":"; jstr(O, locStr(P->getLocation()));
    O << ",\"end\":" << lineOf(P->getEndLoc());
    O << ",\"org\":" << org;
    O << ",\"inst\":" << (F->isTemplateInstantiation() || P != F ? 1 : 0);
    O << ",\"ctx\":"; ctxChain(O, F->getDeclContext());
    if (auto *TA = F->getTemplateSpecializationArgs()) { O << ",\"ta\":"; targList(O, TA->asArray()); }
    O << ",\"ret\":" << ty(F->getReturnType());
    O << ",\"params\":[";
    for (unsigned i = 0; i < F->getNumParams(); i++) {
      if (i) O << ',';
      O << "{\"n\":"; jstr(O, F->getParamDecl(i)->getName()); O << ",\"t\":" << ty(F->getParamDecl(i)->getType()) << '}';
    }
    O << ']';
    if (auto *M = dyn_cast<CXXMethodDecl>(F)) {
      O << ",\"static\":" << (M->isStatic() ? 1 : 0) << ",\"const\":" << (M->isConst() ? 1 : 0);
      if (M->isCopyAssignmentOperator()) O << ",\"sp\":\"copy_assign\"";
      else if (M->isMoveAssignmentOperator()) O << ",\"sp\":\"move_assign\"";
      else if (auto *CD = dyn_cast<CXXConstructorDecl>(M)) {
        if (CD->isCopyConstructor()) O << ",\"sp\":\"copy_ctor\"";
        else if (CD->isMoveConstructor()) O << ",\"sp\":\"move_ctor\"";
        else if (CD->isDefaultConstructor()) O << ",\"sp\":\"default_ctor\"";
        else O << ",\"sp\":\"ctor\"";
        if (CD->isDelegatingConstructor()) O << ",\"delegating\":1";
      } else if (isa<CXXDestructorDecl>(M)) O << ",\"sp\":\"dtor\"";
    }
    if (F->isDefaulted()) O << ",\"defaulted\":1";
    if (F->isImplicit()) O << ",\"implicit\":1";

    if (!cfg) { O << ",\"cfg\":null}"; return; }

    FnCtx X;
    {
      std::function<void(const Stmt *)> walk = [&](const Stmt *s) {
        if (!s) return;
        if (auto *IC = dyn_cast<ImplicitCastExpr>(s))
          if (IC->getCastKind() == CK_LValueToRValue) X.rvalued.insert(strip(IC->getSubExpr()));
        for (auto *c : s->children()) walk(c);
      };
      walk(Body);
      if (auto *CD = dyn_cast<CXXConstructorDecl>(F))
        for (auto *I : CD->inits()) if (I->getInit()) walk(I->getInit());
    }
    X.blockElems.resize(cfg->getNumBlockIDs());
    X.nodes.emplace_back("null");   // id 0 = none
    X.nodeBlock.push_back(-1);
    // pass 1: ids for all CFG statement elements
    for (const CFGBlock *B : *cfg)
      for (const CFGElement &E : *B)
        if (auto CS = E.getAs<CFGStmt>()) {
          const Stmt *St = strip(CS->getStmt());
          if (St != CS->getStmt() && X.id.count(St)) continue;
          if (X.id.count(St)) continue;
          if (St != CS->getStmt()) continue;       // transparent wrapper: its operand is its own element
          X.id.emplace(St, X.nodes.size());
          X.nodes.emplace_back();
          X.nodeBlock.push_back(B->getBlockID());
        }
    // pass 2: write nodes block by block
    std::string extra;   // initialisers / dtors
    llvm::raw_string_ostream EO(extra);
    for (const CFGBlock *B : *cfg) {
      X.curBlock = B->getBlockID();
      for (const CFGElement &E : *B) {
        if (auto CS = E.getAs<CFGStmt>()) {
          const Stmt *St = CS->getStmt();
          if (strip(St) != St) continue;
          auto it = X.id.find(St);
          if (it == X.id.end() || X.written.count(St)) continue;
          if (X.nodeBlock[it->second] != (int)B->getBlockID()) continue;
          writeNode(X, St, it->second);
          X.blockElems[B->getBlockID()].push_back(it->second);
        } else if (auto CI = E.getAs<CFGInitializer>()) {
          const CXXCtorInitializer *I = CI->getInitializer();
          unsigned init = I->getInit() ? need(X, I->getInit()) : 0;
          unsigned n = X.nodes.size();
          std::string b;
          llvm::raw_string_ostream NO(b);
          NO << "{\"k\":\"init\",\"l\":" << lineOf(I->getSourceLocation()) << ",\"e\":" << init;
          if (I->isMemberInitializer()) { NO << ",\"member\":"; jstr(NO, I->getMember()->getName()); }
          else if (I->isBaseInitializer()) { NO << ",\"base\":" << ty(QualType(I->getBaseClass(), 0)); }
          else if (I->isDelegatingInitializer()) NO << ",\"delegating\":1";
          NO << ",\"written\":" << (I->isWritten() ? 1 : 0) << '}';
          X.nodes.push_back(NO.str());
          X.nodeBlock.push_back(B->getBlockID());
          X.blockElems[B->getBlockID()].push_back(n);
        } else if (auto CD = E.getAs<CFGImplicitDtor>()) {
          unsigned n = X.nodes.size();
          std::string b;
          llvm::raw_string_ostream NO(b);
          NO << "{\"k\":\"dtor\",\"l\":0";
          if (auto AD = E.getAs<CFGAutomaticObjDtor>()) {
            NO << ",\"var\":"; jstr(NO, AD->getVarDecl()->getName());
            NO << ",\"t\":" << ty(AD->getVarDecl()->getType());
          }
          if (const CXXDestructorDecl *DD = CD->getDestructorDecl(C)) { NO << ",\"fk\":" << keyOf(DD) << ",\"q\":"; jstr(NO, plainQual(DD)); }
          NO << '}';
          X.nodes.push_back(NO.str());
          X.nodeBlock.push_back(B->getBlockID());
          X.blockElems[B->getBlockID()].push_back(n);
        }
      }
      // terminator condition might not be an element (it always is with setAllAlwaysAdd), make sure it has an id
      if (const Stmt *TC = B->getTerminatorCondition()) need(X, TC);
    }
    // any node created by pass 1 but never written (should not happen)
    for (auto &p : X.id) if (X.nodes[p.second].empty()) { X.curBlock = X.nodeBlock[p.second]; writeNode(X, p.first, p.second); if (X.curBlock >= 0) X.blockElems[X.curBlock].push_back(p.second); }

    O << ",\"entry\":" << cfg->getEntry().getBlockID() << ",\"exit\":" << cfg->getExit().getBlockID();
    O << ",\"nodes\":[";
    for (size_t i = 0; i < X.nodes.size(); i++) { if (i) O << ','; O << X.nodes[i]; }
    O << "],\"blocks\":[";
    bool firstB = true;
    std::vector<const CXXTryStmt *> tries;
    for (const CFGBlock *B : *cfg) {
      if (!firstB) O << ','; firstB = false;
      O << "{\"id\":" << B->getBlockID() << ",\"e\":[";
      auto &el = X.blockElems[B->getBlockID()];
      for (size_t i = 0; i < el.size(); i++) { if (i) O << ','; O << el[i]; }
      O << "],\"s\":[";
      bool f2 = true;
      for (auto Sx : B->succs()) {
        if (!f2) O << ','; f2 = false;
        const CFGBlock *T = Sx.getReachableBlock();
        if (!T) T = Sx.getPossiblyUnreachableBlock();
        O << (T ? (int)T->getBlockID() : -1);
      }
      O << ']';
      if (const Stmt *T = B->getTerminatorStmt()) {
        O << ",\"tk\":\"" << T->getStmtClassName() << '"';
        if (const Stmt *TC = B->getTerminatorCondition()) {
          auto it = X.id.find(strip(TC)); O << ",\"tc\":" << (it != X.id.end() ? it->second : 0);
          if (auto *CE = dyn_cast<Expr>(TC)) {
            bool val;
            if (!CE->isValueDependent() && CE->getType()->isScalarType() && CE->EvaluateAsBooleanCondition(val, C)) O << ",\"tcv\":" << (val ? 1 : 0);
          }
        }
        if (auto *IS = dyn_cast<IfStmt>(T)) if (IS->isConstexpr()) O << ",\"cx\":1";
        if (auto *TS = dyn_cast<CXXTryStmt>(T)) tries.push_back(TS);
      }
      if (const Stmt *L = B->getLabel()) {
        O << ",\"lab\":\"" << L->getStmtClassName() << '"';
        if (auto *CS = dyn_cast<CXXCatchStmt>(L)) O << ",\"catch\":" << (CS->getCaughtType().isNull() ? S.get("...") : ty(CS->getCaughtType()));
      }
      O << '}';
    }
    O << ']';
    // try statements: which nodes are lexically inside the try body, which blocks are handlers
    {
      // find all CXXTryStmt in body
      std::vector<const CXXTryStmt *> all;
      std::function<void(const Stmt *)> walk = [&](const Stmt *s) {
        if (!s || isa<LambdaExpr>(s)) return;
        if (auto *T = dyn_cast<CXXTryStmt>(s)) all.push_back(T);
        for (auto *c : s->children()) walk(c);
      };
      walk(Body);
      if (!all.empty()) {
        O << ",\"tries\":[";
        bool ft = true;
        for (auto *T : all) {
          if (!ft) O << ','; ft = false;
          std::set<const Stmt *> in;
          collect(T->getTryBlock(), in);
          O << "{\"l\":" << lineOf(T->getBeginLoc()) << ",\"nodes\":[";
          bool f3 = true;
          for (auto &p : X.id) if (in.count(p.first)) { if (!f3) O << ','; f3 = false; O << p.second; }
          O << "],\"handlers\":[";
          f3 = true;
          for (unsigned i = 0; i < T->getNumHandlers(); i++) {
            const CXXCatchStmt *H = T->getHandler(i);
            int hb = -1;
            for (const CFGBlock *B : *cfg) if (B->getLabel() == H) hb = B->getBlockID();
            if (!f3) O << ','; f3 = false;
            O << "{\"b\":" << hb << ",\"t\":" << (H->getCaughtType().isNull() ? S.get("...") : ty(H->getCaughtType())) << '}';
          }
          O << "]}";
        }
        O << ']';
      }
    }
    O << '}';
  }

  // ------------------------------------------------------------ records
  void emitRecord(const CXXRecordDecl *R) {
    if (!R->isCompleteDefinition() || R->isDependentContext() || R->isLambda()) return;
    if (R->isInjectedClassName()) return;
    int org = origin(R->getLocation());
    if (org == 0) return;
    std::string pf = fileOf(R->getLocation());
    if (!gEuml && (pf.find("/front/euml/") != std::string::npos || pf.find("/mpl_graph/") != std::string::npos)) return;
    if (!seenRec.insert(R->getCanonicalDecl()).second) return;
    llvm::raw_ostream &O = RO;
    if (nrec++) O << ",\n";
    O << "{\"n\":"; jstr(O, R->getNameAsString());
    O << ",\"q\":"; jstr(O, plainQual(R));
    O << ",\"t\":" << ty(C.getRecordType(R));
    O << ",\"loc\":"; jstr(O, locStr(R->getLocation()));
    O << ",\"org\":" << org;
    if (auto *Sp = dyn_cast<ClassTemplateSpecializationDecl>(R)) { O << ",\"a\":"; targList(O, Sp->getTemplateArgs().asArray()); }
    O << ",\"bases\":[";
    bool first = true;
    for (auto &B : R->bases()) { if (!first) O << ','; first = false; O << "{\"t\":" << ty(B.getType()) << ",\"acc\":" << (int)B.getAccessSpecifier() << ",\"virt\":" << (B.isVirtual() ? 1 : 0) << '}'; }
    O << "],\"fields\":[";
    first = true;
    for (auto *Fd : R->fields()) {
      if (!first) O << ','; first = false;
      O << "{\"n\":"; jstr(O, Fd->getName()); O << ",\"t\":" << ty(Fd->getType()) << ",\"init\":" << (Fd->hasInClassInitializer() ? 1 : 0);
      O << ",\"mut\":" << (Fd->isMutable() ? 1 : 0);
      if (Fd->hasInClassInitializer() && Fd->getInClassInitializer()) {
        // declarations referenced by the default member initialiser (name + template arguments), literal initialisers
        O << ",\"irefs\":[";
        bool f1 = true;
        std::function<void(const Stmt *)> walk = [&](const Stmt *st) {
          if (!st) return;
          if (auto *DR = dyn_cast<DeclRefExpr>(st)) {
            if (!f1) O << ','; f1 = false;
            O << "{\"n\":"; jstr(O, DR->getDecl()->getNameAsString());
            if (auto *VS = dyn_cast<VarTemplateSpecializationDecl>(DR->getDecl())) { O << ",\"ta\":"; targList(O, VS->getTemplateArgs().asArray()); }
            O << '}';
          }
          for (auto *c : st->children()) walk(c);
        };
        walk(Fd->getInClassInitializer());
        O << ']';
        const Expr *IE = Fd->getInClassInitializer()->IgnoreParenImpCasts();
        if (auto *IL = dyn_cast<InitListExpr>(IE)) O << ",\"ilist\":" << IL->getNumInits();
        Expr::EvalResult Rr;
        if (!IE->isValueDependent() && IE->getType()->isScalarType() && IE->EvaluateAsInt(Rr, C)) O << ",\"iv\":" << Rr.Val.getInt().getExtValue();
      }
      O << '}';
    }
    O << "],\"tds\":{";
    first = true;
    std::set<std::string> seen;
    for (auto *D : R->decls()) {
      if (auto *TD = dyn_cast<TypedefNameDecl>(D)) {
        std::string nm = TD->getNameAsString();
        if (!seen.insert(nm).second) continue;
        QualType U = TD->getUnderlyingType();
        if (U->isDependentType()) continue;
        if (!first) O << ','; first = false;
        jstr(O, nm); O << ':' << ty(U);
      }
    }
    O << "},\"consts\":{";
    first = true;
    seen.clear();
    for (auto *D : R->decls()) {
      if (auto *ED = dyn_cast<EnumDecl>(D)) {
        for (auto *EC : ED->enumerators()) {
          if (!seen.insert(EC->getNameAsString()).second) continue;
          if (!first) O << ','; first = false;
          jstr(O, EC->getName()); O << ':' << EC->getInitVal().getExtValue();
        }
      } else if (auto *V = dyn_cast<VarDecl>(D)) {
        if (!V->isStaticDataMember() || !V->getType().isConstQualified() || !V->getType()->isIntegralOrEnumerationType()) continue;
        if (V->isTemplated() ) continue;
        const Expr *I = V->getAnyInitializer();
        if (!I || I->isValueDependent()) continue;
        Expr::EvalResult Rr;
        if (I->EvaluateAsInt(Rr, C)) {
          if (!seen.insert(V->getNameAsString()).second) continue;
          if (!first) O << ','; first = false;
          jstr(O, V->getName()); O << ':' << Rr.Val.getInt().getExtValue();
        }
      }
    }
    // static data members initialised by a braced list: element values (constants, null, sizeof(type))
    O << "},\"sinit\":{";
    first = true;
    seen.clear();
    for (auto *D : R->decls()) {
      auto *V = dyn_cast<VarDecl>(D);
      if (!V || !V->isStaticDataMember() || V->isTemplated()) continue;
      const Expr *I = V->getAnyInitializer();
      if (!I) continue;
      I = I->IgnoreImplicit();
      auto *IL = dyn_cast<InitListExpr>(I);
      if (!IL) continue;
      if (!seen.insert(V->getNameAsString()).second) continue;
      if (!first) O << ','; first = false;
      jstr(O, V->getName()); O << ":[";
      for (unsigned k = 0; k < IL->getNumInits(); k++) {
        if (k) O << ',';
        const Expr *X = IL->getInit(k)->IgnoreParenImpCasts();
        Expr::EvalResult Rr;
        if (auto *SZ = dyn_cast<UnaryExprOrTypeTraitExpr>(X)) {
          O << "{\"sizeof\":" << (SZ->getTypeOfArgument().isNull() ? 0 : ty(SZ->getTypeOfArgument())) << ",\"tk\":" << (int)SZ->getKind() << "}";
        } else if (isa<CXXNullPtrLiteralExpr>(X) || isa<GNUNullExpr>(X)) O << "\"null\"";
        else if (!X->isValueDependent() && X->EvaluateAsInt(Rr, C)) O << Rr.Val.getInt().getExtValue();
        else O << "\"?\"";
      }
      O << ']';
    }
    // constexpr static data members holding a table of function pointers: the evaluated cells
    O << "},\"ptabs\":{";
    first = true;
    seen.clear();
    for (auto *D : R->decls()) {
      auto *V = dyn_cast<VarDecl>(D);
      if (!V || !V->isStaticDataMember() || V->isTemplated() || !V->isConstexpr() || !V->getAnyInitializer()) continue;
      if (V->getAnyInitializer()->isValueDependent()) continue;
      const APValue *AV = V->evaluateValue();
      if (!AV) continue;
      const APValue *Arr = nullptr;
      if (AV->isArray()) Arr = AV;
      else if (AV->isStruct() && AV->getStructNumFields() >= 1 && AV->getStructField(0).isArray()) Arr = &AV->getStructField(0);
      if (!Arr) continue;
      bool anyfn = false;
      std::string buf; llvm::raw_string_ostream B(buf);
      unsigned n = Arr->getArraySize(), ni = Arr->getArrayInitializedElts();
      for (unsigned k = 0; k < n; k++) {
        if (k) B << ',';
        const APValue &E = k < ni ? Arr->getArrayInitializedElt(k) : Arr->getArrayFiller();
        if (E.isLValue() && E.getLValueBase() && E.getLValueBase().dyn_cast<const ValueDecl *>()) {
          const ValueDecl *VD = E.getLValueBase().dyn_cast<const ValueDecl *>();
          if (auto *FD = dyn_cast<FunctionDecl>(VD)) {
            anyfn = true;
            B << "{\"n\":"; jstr(B, FD->getDeclName().isIdentifier() ? FD->getName() : llvm::StringRef(FD->getNameAsString()));
            B << ",\"fq\":" << S.get(fullName(FD));
            if (auto *M = dyn_cast<CXXMethodDecl>(FD)) B << ",\"pt\":" << ty(C.getRecordType(M->getParent()));
            if (auto *TA = FD->getTemplateSpecializationArgs()) {
              B << ",\"ta\":[";
              bool f2 = true;
              for (auto &a : TA->asArray()) { if (a.getKind() != TemplateArgument::Type) continue; if (!f2) B << ','; f2 = false; B << ty(a.getAsType()); }
              B << ']';
            }
            B << '}';
          } else B << "\"?\"";
        } else if (E.isLValue() && E.isNullPointer()) B << "null";
        else if (E.isLValue() && !E.getLValueBase()) B << "null";
        else B << "\"?\"";
      }
      if (!anyfn) continue;
      if (!seen.insert(V->getNameAsString()).second) continue;
      if (!first) O << ','; first = false;
      jstr(O, V->getName()); O << ":[" << B.str() << ']';
    }
    O << "},\"methods\":[";
    first = true;
    seen.clear();
    for (auto *D : R->decls()) {
      const NamedDecl *ND = dyn_cast<NamedDecl>(D);
      if (!ND) continue;
      if (auto *FT = dyn_cast<FunctionTemplateDecl>(ND)) ND = FT->getTemplatedDecl();
      if (auto *M = dyn_cast<CXXMethodDecl>(ND)) {
        if (M->isImplicit()) continue;
        std::string nm = M->getNameAsString();
        if (!seen.insert(nm).second) continue;
        if (!first) O << ','; first = false;
        jstr(O, nm);
      }
    }
    O << "]}";
  }
};

struct Visitor : RecursiveASTVisitor<Visitor> {
  Extractor &X;
  Visitor(Extractor &x) : X(x) {}
  bool shouldVisitTemplateInstantiations() const { return true; }
  bool shouldVisitImplicitCode() const { return true; }
  bool shouldVisitLambdaBody() const { return true; }
  bool VisitFunctionDecl(FunctionDecl *F) { X.emitFunction(F); return true; }
  bool VisitCXXRecordDecl(CXXRecordDecl *R) { X.emitRecord(R); return true; }
};

struct Consumer : ASTConsumer {
  void HandleTranslationUnit(ASTContext &C) override {
    if (C.getDiagnostics().hasErrorOccurred()) { llvm::errs() << "msm-facts: TU has errors, no facts written\n"; return; }
    Extractor X(C);
    Visitor V(X);
    V.TraverseDecl(C.getTranslationUnitDecl());
    std::error_code EC;
    llvm::raw_fd_ostream O(gOut, EC);
    if (EC) { llvm::errs() << "cannot write " << gOut << "\n"; return; }
    X.FO.flush(); X.RO.flush();
    O << "{\"version\":1,\"nfuncs\":" << X.nfun << ",\"nrecords\":" << X.nrec << ",\n\"funcs\":[\n" << X.funcs << "\n],\n\"records\":[\n" << X.records << "\n],\n\"strs\":[";
    for (size_t i = 0; i < X.S.v.size(); i++) { if (i) O << ",\n"; jstr(O, X.S.v[i]); }
    O << "]}\n";
  }
};
struct Action : ASTFrontendAction {
  std::unique_ptr<ASTConsumer> CreateASTConsumer(CompilerInstance &, StringRef) override { return std::make_unique<Consumer>(); }
};

int main(int argc, const char **argv) {
  if (argc < 4) { llvm::errs() << "usage: msm-facts <out.json> <file.cpp> -- <flags>\n"; return 2; }
  gOut = argv[1];
  std::string file = argv[2];
  int i = 3;
  for (; i < argc && std::string(argv[i]) != "--"; i++) {
    std::string a = argv[i];
    if (a == "--no-user") gUser = false;
    if (a == "--euml") gEuml = true;
  }
  std::vector<std::string> flags;
  for (i++; i < argc; i++) flags.push_back(argv[i]);
  FixedCompilationDatabase DB(".", flags);
  ClangTool T(DB, {file});
  int rc = T.run(newFrontendActionFactory<Action>().get());
  return rc;
}
