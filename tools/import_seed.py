#!/usr/bin/env python3
"""import_seed.py <seed dir> <id> <property> "<needs>" : copy a confirmed seeded change into /verif/seeded/<id>/ with meta.json"""
import json, os, re, shutil, sys
src, sid, prop, needs = sys.argv[1:5]
log = open(os.path.join(src, 'confirm.log')).read()
def g(p):
    m = re.search(p, log); return m.group(1) if m else None
meta = {
 'id': sid, 'property': prop, 'needs_to_manifest': needs,
 'origin': 'independent sub-agent given only the property text and a scratch worktree of /repo (HEAD with the fix: commits)',
 'confirmed_by': 'tools/confirm_seed.sh in a scratch worktree outside /repo and /verif',
 'confirmation': {'demo_on_unchanged_tree_rc': g(r'DEMO_CLEAN_RC=(\d+)'), 'demo_with_change_rc': g(r'DEMO_MUT_RC=(\d+)'),
                  'suite_build_rc': g(r'BUILD_RC=(\d+)'), 'suite_result': g(r'(\d+% tests passed, \d+ tests failed out of \d+)'),
                  'suite_build_flags': '-O0, unedited tests, cmake --build --target tests; ctest'},
 'commands': ['g++ -std=gnu++20 -I<tree>/include demo.cpp && ./a.out   (rc 0 = property holds)', 'python3 selftest/try_patch.py seeded/%s/patch.diff <props>' % sid],
 'detected_by': [], 'notes': ''
}
ok = meta['confirmation']['demo_on_unchanged_tree_rc'] == '0' and meta['confirmation']['demo_with_change_rc'] not in (None, '0') and meta['confirmation']['suite_build_rc'] == '0' and (meta['confirmation']['suite_result'] or '').startswith('100%')
if not ok:
    print('NOT CONFIRMED', meta['confirmation']); sys.exit(1)
dst = os.path.join('/verif/seeded', sid); os.makedirs(dst, exist_ok=True)
for f in ('patch.diff', 'demo.cpp', 'README.txt'):
    if os.path.exists(os.path.join(src, f)): shutil.copy(os.path.join(src, f), dst)
json.dump(meta, open(os.path.join(dst, 'meta.json'), 'w'), indent=1)
print('imported', sid)
