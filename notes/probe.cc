#include "clang/AST/ASTConsumer.h"
#include "clang/AST/RecursiveASTVisitor.h"
#include "clang/Analysis/CFG.h"
#include "clang/Frontend/CompilerInstance.h"
#include "clang/Frontend/FrontendAction.h"
#include "clang/Tooling/CommonOptionsParser.h"
#include "clang/Tooling/Tooling.h"
#include "llvm/Support/CommandLine.h"
using namespace clang;
using namespace clang::tooling;
static llvm::cl::OptionCategory Cat("probe");
struct V : RecursiveASTVisitor<V> {
  ASTContext &C; SourceManager &SM;
  unsigned nfun=0, ninst=0, ncmp=0, ncfg=0;
  V(ASTContext &c):C(c),SM(c.getSourceManager()){}
  bool shouldVisitTemplateInstantiations() const { return true; }
  bool inMsm(SourceLocation L){ auto F=SM.getFilename(SM.getSpellingLoc(L)); return F.contains("/boost/msm/"); }
  bool VisitFunctionDecl(FunctionDecl *F){
    if(!F->doesThisDeclarationHaveABody()) return true;
    if(!inMsm(F->getLocation())) return true;
    nfun++;
    if(F->isTemplateInstantiation()) ninst++;
    if(F->isDependentContext()) return true;
    std::string n=F->getQualifiedNameAsString();
    if(n.find("row_<")!=std::string::npos && (F->getDeclName().isIdentifier() && F->getName()=="execute")){
      CFG::BuildOptions BO; BO.setAllAlwaysAdd();
      auto cfg=CFG::buildCFG(F,F->getBody(),&C,BO);
      if(cfg){ ncfg++; if(ncfg<=2){ llvm::outs()<<"CFG for "<<n<<" blocks="<<cfg->size()<<"\n"; 
        for(auto *B:*cfg) for(auto &E:*B) if(auto S=E.getAs<CFGStmt>()) if(auto *CE=dyn_cast<CallExpr>(S->getStmt())) if(auto *D=CE->getDirectCallee()) llvm::outs()<<"  B"<<B->getBlockID()<<" call "<<D->getQualifiedNameAsString().substr(0,150)<<"\n"; } }
    }
    return true;
  }
  bool VisitBinaryOperator(BinaryOperator *B){
    if(!B->isEqualityOp()) return true;
    if(!inMsm(B->getOperatorLoc())) return true;
    for(Expr *E:{B->getLHS(),B->getRHS()}){
      if(auto *D=dyn_cast<DeclRefExpr>(E->IgnoreParenImpCasts()))
        if(auto *EC=dyn_cast<EnumConstantDecl>(D->getDecl()))
          if(EC->getName()=="HANDLED_TRUE"){ ncmp++; llvm::outs()<<"EQ HANDLED_TRUE at "<<B->getOperatorLoc().printToString(SM)<<"\n"; }
    }
    return true;
  }
};
struct Cn : ASTConsumer { void HandleTranslationUnit(ASTContext &C) override { V v(C); v.TraverseDecl(C.getTranslationUnitDecl()); llvm::outs()<<"funs="<<v.nfun<<" inst="<<v.ninst<<" cmp="<<v.ncmp<<" cfg="<<v.ncfg<<"\n"; } };
struct A : ASTFrontendAction { std::unique_ptr<ASTConsumer> CreateASTConsumer(CompilerInstance&,StringRef) override { return std::make_unique<Cn>(); } };
int main(int argc,const char**argv){ auto P=CommonOptionsParser::create(argc,argv,Cat); if(!P){llvm::errs()<<P.takeError();return 1;} ClangTool T(P->getCompilations(),P->getSourcePathList()); return T.run(newFrontendActionFactory<A>().get()); }
