// g++ -std=gnu++20 -I/repo/include obs3_guard_precedence_before_parens.cpp
#include <iostream>
#include <boost/msm/front/puml/puml.hpp>
using namespace boost::msm::front; using namespace boost::msm::front::puml;
static unsigned V=0;
namespace boost::msm::front::puml {
#define DEFG(n,i) template<> struct Guard<by_name(n)>{ template<class E,class F,class S,class T> bool operator()(E const&,F&,S&,T&){ return (V>>i)&1; } };
DEFG("G0",0) DEFG("G1",1) DEFG("G2",2) DEFG("G3",3)
}
#define G0 ((v>>0)&1)
#define G1 ((v>>1)&1)
#define G2 ((v>>2)&1)
#define G3 ((v>>3)&1)
#define CHECK(str, expr) { auto g = boost::msm::front::puml::detail::parse_guard([](){ return std::string_view(str); }); int bad=0; unsigned first=0; \
   for(unsigned v=0; v<16; ++v){ V=v; int e=0,f=0,s=0,t=0; bool got = g(e,f,s,t); bool want = (expr); if(got!=want){ if(!bad) first=v; ++bad; } } \
   std::cout << (bad? "MISMATCH ":"ok       ") << str; if(bad) std::cout << "   (" << bad << "/16 valuations differ, e.g. G0..G3=" << (first&1)<<((first>>1)&1)<<((first>>2)&1)<<((first>>3)&1) << ")"; std::cout << "\n"; total+=bad?1:0; }
int main(){
    int total=0;
    // UNCHANGED library: an operator of lower precedence written BEFORE a parenthesised group is bound too tightly when
    // an operator follows the group: "G0 || (G1 && G2) && G3" is built as And_<Or_<G0, And_<G1,G2>>, G3>,
    // i.e. (G0 || (G1 && G2)) && G3, while C++ reads G0 || ((G1 && G2) && G3). Differs e.g. for G0=1, G3=0.
    CHECK("G0 || (G1 && G2) && G3", G0 || (G1 && G2) && G3)
    CHECK("G0 || (G1 || G2) && G3", G0 || (G1 || G2) && G3)
    // for comparison, these are fine
    CHECK("G0 && (G1 || G2) || G3", G0 && (G1 || G2) || G3)
    CHECK("G3 || G0 && (G1 || G2)", G3 || G0 && (G1 || G2))
    // (not run here: "(G0 || G1) && (G2 || G3)" - two groups - does not compile: a token "G1) && (G2" is hashed)
    return total?1:0;
}
