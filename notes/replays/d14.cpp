// D14 replay (back11): an event submitted as a CONST LVALUE is looked up in the per-event tables under the key `const E`:
//  - a state's deferred_events list does not contain `const E`  => the event is not deferred but reported through no_transition
//  - the machine-level internal table's event set does not contain `const E` => the internal row is skipped
// expected (and what `back` does): identical behaviour for rvalue, lvalue and const lvalue submissions.
#include <boost/msm/back/state_machine.hpp>
#include <boost/msm/back11/state_machine.hpp>
#include <boost/msm/front/state_machine_def.hpp>
#include <boost/msm/front/functor_row.hpp>
#include <iostream>
#include <string>
namespace msm = boost::msm; namespace mpl = boost::mpl;
using namespace msm::front;
static std::string logs;
struct E1{}; struct E2{}; struct E3{};
struct F_ : state_machine_def<F_> {
  struct A : state<> { typedef mpl::vector<E1> deferred_events; };
  struct B : state<> {};
  struct C : state<> {};
  typedef A initial_state;
  struct act { template<class E,class F,class S,class T> void operator()(E const&,F&,S&,T&){ logs += "a;"; } };
  struct iact { template<class E,class F,class S,class T> void operator()(E const&,F&,S&,T&){ logs += "i;"; } };
  struct transition_table : mpl::vector<
    Row<A,E2,B,act,none>,
    Row<B,E1,C,act,none>
  >{};
  template<class F,class E> void no_transition(E const&,F&,int s){ logs += "NT" + std::to_string(s)+";"; }
};
template<class SM> std::string run(int mode){
  logs.clear(); SM sm; sm.start();
  E1 e1; const E1 ce1{};
  if(mode==0) sm.process_event(E1()); else if (mode==1) sm.process_event(e1); else sm.process_event(ce1);
  sm.process_event(E2());
  logs += "S" + std::to_string(sm.current_state()[0]);
  return logs;
}
int main(){
  int bad = 0;
  for(int m=0;m<3;m++){
    std::string a = run<msm::back::state_machine<F_>>(m), b = run<msm::back11::state_machine<F_>>(m);
    std::cout << "mode " << m << " back: " << a << "   back11: " << b << (b == "a;a;S2" ? "" : "   <-- deferred event lost") << "\n";
    if (b != "a;a;S2") ++bad;
  }
  return bad ? 1 : 0;
}
