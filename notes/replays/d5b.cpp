#include <iostream>
#include <boost/msm/back/state_machine.hpp>
#include <boost/msm/front/state_machine_def.hpp>
#include <boost/msm/front/functor_row.hpp>
namespace msm=boost::msm; namespace mpl=boost::mpl; using namespace msm::front;
struct e{}; struct d{}; struct unlock{};
struct Fe_:state_machine_def<Fe_>{
  int id=0;
  struct Act{ template<class E,class F,class S,class T> void operator()(E const&,F& f,S&,T&){ std::cout<<" [action on machine id="<<f.id<<"]"; } };
  struct S1:state<>{ typedef mpl::vector<d> deferred_events; }; struct S2:state<>{}; struct S3:state<>{};
  typedef S1 initial_state;
  struct transition_table:mpl::vector<
    Row<S1,e,S2,Act,none>, Row<S1,unlock,S2,none,none>, Row<S2,d,S3,Act,none> >{};
  template<class F,class E> void no_transition(E const&,F&,int){ std::cout<<" no_transition"; }
};
typedef msm::back::state_machine<Fe_> B;
int main(){
  { B a; a.id=1; a.start(); a.enqueue_event(e()); const B& ca=a; B b(ca); b.id=2; std::cout<<"queued: a="<<a.current_state()[0]<<" b="<<b.current_state()[0]<<" b.q="<<b.get_message_queue_size();
    b.execute_queued_events(); std::cout<<" after draining b: a="<<a.current_state()[0]<<" b="<<b.current_state()[0]<<" a.q="<<a.get_message_queue_size()<<"\n"; }
  { B a; a.id=1; a.start(); a.process_event(d()); const B& ca=a; B b(ca); b.id=2; std::cout<<"deferred: a="<<a.current_state()[0]<<" b="<<b.current_state()[0];
    b.process_event(unlock()); std::cout<<" after unlock b: a="<<a.current_state()[0]<<" b="<<b.current_state()[0]<<" a.dq="<<a.get_deferred_queue().size()<<" b.dq="<<b.get_deferred_queue().size()<<"\n"; }
}
