// replay D26 (from a seeding sub-agent's observation): an event the machine's own on_entry submits during start() was wiped by the
// pool reset of the history policy, which ran after that on_entry (backmp11).  rc 0 = dispatched in all back-ends.
// probe (unchanged library, backmp11): events submitted from the state machine's OWN on_entry during
// start(), or enqueued before start(), are silently dropped: history_impl<no_history>::on_entry clears
// the event pool after the front-end's on_entry has run.  back / back11 dispatch them after start().
#include <iostream>
#include <string>
#include <vector>
#include <boost/msm/back/state_machine.hpp>
#include <boost/msm/back11/state_machine.hpp>
#include <boost/msm/backmp11/state_machine.hpp>
#include <boost/msm/front/state_machine_def.hpp>
#include <boost/msm/front/functor_row.hpp>
namespace msm = boost::msm; namespace mpl = boost::mpl; using namespace boost::msm::front;
std::vector<std::string> g_log;
struct kick { int v; };
template <bool RaiseInOwnEntry>
struct root_ : public msm::front::state_machine_def<root_<RaiseInOwnEntry>>
{
    struct A : public msm::front::state<> { template <class E, class F> void on_entry(E const&, F&) { g_log.push_back("A.entry"); } };
    struct B : public msm::front::state<> { template <class E, class F> void on_entry(E const&, F&) { g_log.push_back("B.entry"); } };
    typedef A initial_state;
    template <class E, class F> void on_entry(E const&, F& fsm)
    {
        g_log.push_back("root.entry");
        if (RaiseInOwnEntry) fsm.process_event(kick{7});
    }
    struct act { template <class E, class F, class S, class T> void operator()(E const& e, F&, S&, T&) { g_log.push_back("kick(" + std::to_string(e.v) + ")"); } };
    struct transition_table : mpl::vector< Row<A, kick, B, act, none> > {};
    template <class F, class E> void no_transition(E const&, F&, int) { g_log.push_back("no_transition"); }
};
int bad = 0;
template <class M> void run(const char* name, bool enqueue_before)
{
    g_log.clear();
    M m;
    if (enqueue_before) m.enqueue_event(kick{5});
    m.start();
    std::string r; for (auto& s : g_log) r += s + " ";
    bool ok = r.find("kick(") != std::string::npos && r.find("B.entry") != std::string::npos;
    std::cout << (ok ? "ok   " : "LOST ") << name << (enqueue_before ? " [enqueue_event before start]" : " [process_event in own on_entry]") << ": " << r << "\n";
    if (!ok) ++bad;
}
int main()
{
    run<msm::back::state_machine<root_<true>>>("back", false);
    run<msm::back11::state_machine<root_<true>>>("back11", false);
    run<msm::backmp11::state_machine<root_<true>>>("backmp11", false);
    // (events enqueued BEFORE start() are dropped by backmp11's pool reset on entry: outside C04, see DESIGN section 9)
    return bad ? 1 : 0;
}
