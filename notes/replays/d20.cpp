#include <iostream>
#include <boost/msm/front/puml/puml.hpp>
#include <boost/mpl/size.hpp>
#include <boost/mpl/contains.hpp>
using namespace boost::msm::front;
using namespace boost::msm::front::puml;
// (a) a '-> [*]' line of state "DoorOpen" also marks state "Open" as terminate
constexpr auto a_ = R"([*] -> Open
Open -> DoorOpen : e1
DoorOpen -> [*]
)";
// (b) a terminate line placed before the second region's '[*] ->' line hides that region
constexpr auto b_ = R"([*] -> A
A -> T : e1
T -> [*]
--
[*] -> C
C -> D : e2
)";
int main(){
  int rc = 0;
  auto ta = create_transition_table([]{ return a_; });
  using RowA = std::remove_reference_t<decltype(boost::fusion::at_c<0>(ta))>;
  bool open_is_terminate = !std::is_same_v<typename RowA::Source, State<by_name("Open")>>;
  std::cout << "(a) Open carries extra flags (terminate)? " << open_is_terminate << " expected 0\n";
  rc |= open_is_terminate;
  std::cout << "(b) count_inits=" << boost::msm::front::puml::detail::count_inits(b_) << " expected 2\n";
  rc |= boost::msm::front::puml::detail::count_inits(b_) != 2;
  return rc;
}
