// Pre-existing (UNCHANGED library, back and back11): on an explicit entry (Sub::direct<S2>) the submachine's OWN on_entry
// receives the internal wrapper back::direct_entry_event<...> instead of the triggering event; the substates get the real event.
// g++ -std=gnu++20 -I/repo/include preexisting_wrapper_event.cpp && ./a.out   -> prints "Sub.entry:OTHER", exit code 1
// explicit entry: which event type does the submachine's own on_entry see?
#include <boost/msm/back/state_machine.hpp>
#include <boost/msm/front/state_machine_def.hpp>
#include <iostream>
#include <typeinfo>
#include <string>
#include <vector>
namespace msm = boost::msm; namespace mpl = boost::mpl;
std::vector<std::string> logv;
struct go {};
struct A : msm::front::state<> {};
struct Sub_ : msm::front::state_machine_def<Sub_> {
  template <class E, class F> void on_entry(E const&, F&) { logv.push_back(std::string("Sub.entry:") + (std::is_same<E,go>::value ? "go" : "OTHER")); }
  template <class E, class F> void on_exit(E const&, F&) {}
  struct S1 : msm::front::state<> {};
  struct S2 : msm::front::state<>, msm::front::explicit_entry<0> {
    template <class E, class F> void on_entry(E const&, F&) { logv.push_back(std::string("S2.entry:") + (std::is_same<E,go>::value ? "go" : "OTHER")); }
  };
  typedef S1 initial_state; typedef mpl::vector<S2> explicit_creation;
  struct transition_table : mpl::vector<> {};
};
typedef msm::back::state_machine<Sub_> Sub;
struct Top_ : msm::front::state_machine_def<Top_> {
  typedef A initial_state;
  struct transition_table : mpl::vector<
    _row<A, go, Sub::direct<Sub_::S2> >
  > {};
};
typedef msm::back::state_machine<Top_> Top;
int main() {
  Top t; t.start(); t.process_event(go());
  int rc = 0;
  for (auto& s : logv) { std::cout << s << "\n"; if (s.find("OTHER") != std::string::npos) rc = 1; }
  return rc;
}
