// D6: process_event from an initial state's on_entry during start(): back processes immediately?
#include <iostream>
#include <boost/msm/back/state_machine.hpp>
#include <boost/msm/back11/state_machine.hpp>
#include <boost/msm/backmp11/state_machine.hpp>
#include <boost/msm/front/state_machine_def.hpp>
#include <boost/msm/front/functor_row.hpp>
namespace msm=boost::msm; namespace mpl=boost::mpl; using namespace msm::front;
struct e{};
struct Fe_:state_machine_def<Fe_>{
  struct A1:state<>{ template<class E,class F> void on_entry(E const&,F& f){ std::cout<<" A1.entry{"; f.process_event(e()); std::cout<<"}"; } };
  struct B1:state<>{ template<class E,class F> void on_entry(E const&,F& f){ std::cout<<" B1.entry"; } template<class E,class F> void on_exit(E const&,F& f){ std::cout<<" B1.exit"; } };
  struct B2:state<>{ template<class E,class F> void on_entry(E const&,F& f){ std::cout<<" B2.entry"; } };
  typedef mpl::vector<A1,B1> initial_state;
  struct transition_table:mpl::vector< Row<B1,e,B2,none,none> >{};
  template<class F,class E> void no_transition(E const&,F&,int){ std::cout<<" no_transition"; }
};
int main(){
  { msm::back::state_machine<Fe_> m; std::cout<<"back:"; m.start(); std::cout<<" -> ["<<m.current_state()[0]<<","<<m.current_state()[1]<<"]\n"; }
  { msm::back11::state_machine<Fe_> m; std::cout<<"back11:"; m.start(); std::cout<<" -> ["<<m.current_state()[0]<<","<<m.current_state()[1]<<"]\n"; }
  { msm::backmp11::state_machine<Fe_> m; std::cout<<"mp11:"; m.start(); std::cout<<" -> ["<<m.get_active_state_ids()[0]<<","<<m.get_active_state_ids()[1]<<"]\n"; }
}
