// replay D25: backmp11 favor_compile_time treats an end-interrupt event that has no row in the machine's own
// transition_table (only in a state's internal_transition_table / in a submachine) as an ordinary event and swallows it
#include <iostream>
#include <string>
#include <boost/msm/backmp11/state_machine.hpp>
#include <boost/msm/backmp11/favor_compile_time.hpp>
#include "Backmp11Adapter.hpp"
#include <boost/msm/front/state_machine_def.hpp>
#include <boost/msm/front/functor_row.hpp>
namespace msm = boost::msm; namespace mpl = boost::mpl; using namespace msm::front;
struct err {}; struct end_err {}; struct ping {}; struct other {};
static std::string g_log;
struct ping_action { template <class E,class F,class S,class T> void operator()(E const&,F&,S&,T&){ g_log+="ping_action;"; } };
struct other_action { template <class E,class F,class S,class T> void operator()(E const&,F&,S&,T&){ g_log+="other_action;"; } };
struct m_ : state_machine_def<m_>
{
    struct Ok : state<> {};
    struct Err : interrupt_state<mpl::vector<end_err, ping>>
    {
        struct internal_transition_table : mpl::vector<
            Internal<ping, ping_action, none>,
            Internal<other, other_action, none>
        > {};
    };
    typedef Ok initial_state;
    struct transition_table : mpl::vector<
        Row<Ok, err, Err, none, none>,
        Row<Err, end_err, Ok, none, none>
    > {};
    template <class F,class E> void no_transition(E const&,F&,int){ g_log+="no_transition;"; }
};
template <class P> int run(const char* n)
{
    P p; p.start(); g_log.clear();
    p.process_event(err());
    p.process_event(other());      // not an end-interrupt event: swallowed
    p.process_event(ping());       // declared end-interrupt event: processed normally -> ping_action
    std::cout << n << ": [" << g_log << "]\n";
    return g_log == "ping_action;" ? 0 : 1;
}
int main()
{
    int rc = 0;
    rc |= run<msm::backmp11::state_machine_adapter<m_>>("backmp11");
    rc |= run<msm::backmp11::state_machine_adapter<m_, msm::backmp11::favor_compile_time>>("backmp11_fct");
    return rc;
}
