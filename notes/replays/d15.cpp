// D15 replay (back11): events handled ONLY by internal transitions below the receiving machine.
//  (a) a state-local internal_transition_table of a substate of a submachine
//  (b) the submachine's own machine-level internal_transition_table
// back forwards both to the submachine; back11 (unfixed) builds no forwarding row (it reads the always-empty
// internal_transition_table11 instead of the front-end's internal_transition_table) and reports no_transition at the top.
// exit code 0 = both back-ends agree with the expected traces.
#include <boost/msm/back/state_machine.hpp>
#include <boost/msm/back11/state_machine.hpp>
#include <boost/msm/front/state_machine_def.hpp>
#include <boost/msm/front/functor_row.hpp>
#include <iostream>
#include <string>
namespace msm = boost::msm; namespace mpl = boost::mpl;
using namespace msm::front;
static std::string logs;
struct Local{}; struct MachineLevel{}; struct Go{};
struct lact { template<class E,class F,class S,class T> void operator()(E const&,F&,S&,T&){ logs += "state-local;"; } };
struct mact { template<class E,class F,class S,class T> void operator()(E const&,F&,S&,T&){ logs += "machine-level;"; } };
template <template <class...> class Back>
struct W {
struct Sub_ : state_machine_def<Sub_> {
  struct A : state<> { struct internal_transition_table : mpl::vector< Internal<Local, lact, none> > {}; };
  typedef A initial_state;
  struct transition_table : mpl::vector<> {};
  struct internal_transition_table : mpl::vector< Internal<MachineLevel, mact, none> > {};
  template<class F,class E> void no_transition(E const&,F&,int){ logs += "NT-sub;"; }
};
typedef Back<Sub_> Sub;
struct Top_ : state_machine_def<Top_> {
  struct Idle : state<> {};
  typedef Idle initial_state;
  struct transition_table : mpl::vector< Row<Idle, Go, Sub, none, none> > {};
  template<class F,class E> void no_transition(E const&,F&,int){ logs += "NT-top;"; }
};
typedef Back<Top_> Top;
};
template<class T> std::string run(){ logs.clear(); T sm; sm.start(); sm.process_event(Go()); sm.process_event(Local()); sm.process_event(MachineLevel()); return logs; }
int main(){
  std::string a = run<W<msm::back::state_machine>::Top>();
  std::string b = run<W<msm::back11::state_machine>::Top>();
  std::cout << "back:   " << a << "\nback11: " << b << "\n";
  return (a == "state-local;machine-level;" && b == a) ? 0 : 1;
}
