// probe: Kleene row + completion event
#include <iostream>
#include <string>
#include <boost/any.hpp>
#include <boost/msm/back/state_machine.hpp>
#include <boost/msm/back11/state_machine.hpp>
#include <boost/msm/front/state_machine_def.hpp>
#include <boost/msm/front/functor_row.hpp>
#include <boost/msm/kleene_event.hpp>
namespace msm = boost::msm; namespace mpl = boost::mpl; using namespace msm::front;
static std::string logs;
struct e1 {};
struct M_ : state_machine_def<M_> {
  struct A : state<> {}; struct B : state<> {}; struct C : state<> {}; struct D: state<>{};
  typedef A initial_state;
  struct act { template<class E,class F,class S,class T> void operator()(E const&,F&,S&,T&){ logs += "K;"; } };
  struct transition_table : mpl::vector<
    Row<A, e1, B>,
    Row<B, boost::any, C, act>,
    Row<D, none, A>
  >{};
  template<class F,class E> void no_transition(E const&,F&,int){ logs += "NT;"; }
};
template<class SM> int run(const char* n){
  logs.clear(); SM m; m.start(); m.process_event(e1());
  std::cout << n << ": state=" << m.current_state()[0] << " log=" << logs << "\n";
  return m.current_state()[0]==1 ? 0 : 1;
}
int main(){ int r=0; r|=run<msm::back::state_machine<M_>>("back"); r|=run<msm::back11::state_machine<M_>>("back11"); return r; }
