// D13: back11 dispatch_table::push_to_map_of_vec rebuilds the (source -> rows) map with ONE pair: when a second row for a source
// state is folded in, the rows already collected for all other sources (those declared later in the table) are dropped.
#include <iostream>
#include <boost/msm/back/state_machine.hpp>
#include <boost/msm/back11/state_machine.hpp>
#include <boost/msm/front/state_machine_def.hpp>
#include <boost/msm/front/functor_row.hpp>
namespace msm=boost::msm; namespace mpl=boost::mpl; using namespace msm::front;
struct e{}; struct go{};
struct gf{ template<class E,class F,class S,class T> bool operator()(E const&,F&,S&,T&){ return false; } };
struct Fe_:state_machine_def<Fe_>{
  struct A:state<>{}; struct B:state<>{}; struct X:state<>{}; struct Y:state<>{};
  typedef A initial_state;
  struct transition_table:mpl::vector<
    Row<A,e,B,none,gf>, Row<A,e,X,none,gf>,        // two conflicting rows on (A,e)
    Row<A,go,X,none,none>,
    Row<X,e,Y,none,none> >{};                      // declared AFTER the conflict
  int nt=0;
  template<class F,class E> void no_transition(E const&,F&,int s){ ++nt; std::cout<<" no_transition(state "<<s<<")"; }
};
template<class M> int run(const char*n){ M m; m.start(); m.process_event(go()); std::cout<<n<<": in X="<<m.current_state()[0]; m.process_event(e()); std::cout<<" after e: state="<<m.current_state()[0]<<" nt="<<m.nt<<"\n"; return m.nt; }
int main(){ int a=run<msm::back::state_machine<Fe_>>("back"); int b=run<msm::back11::state_machine<Fe_>>("back11"); return (a||b)?1:0; }
