// replay D28 (known finding, from a seeding sub-agent): the active states of two regions both defer D; D is stored once per region and
// dispatched twice after Go (back, back11).  rc 1 = dispatched twice.
// probe: 2 regions both deferring same event (state deferred_events) -> exactly once?
#include <iostream>
#include <string>
#include <vector>
#include <boost/msm/back/state_machine.hpp>
#include <boost/msm/back11/state_machine.hpp>
#include <boost/msm/front/state_machine_def.hpp>
#include <boost/msm/front/functor_row.hpp>
namespace msm = boost::msm; namespace mpl = boost::mpl; using namespace msm::front;

struct D { int v; };
struct Go {};
struct Go2 {};
std::vector<std::string> logv;
struct M_ : state_machine_def<M_>
{
    struct A1 : state<> { typedef mpl::vector<D> deferred_events; };
    struct A2 : state<> {};
    struct B1 : state<> { typedef mpl::vector<D> deferred_events; };
    struct B2 : state<> {};
    typedef mpl::vector<A1,B1> initial_state;
    struct act { template<class E,class F,class S,class T> void operator()(E const& e,F&,S&,T&){ logv.push_back("D"+std::to_string(e.v)); } };
    struct transition_table : mpl::vector<
        Row<A1,Go,A2>,
        Row<A2,D,none,act>,
        Row<B1,Go,B2>
    >{};
    template<class F,class E> void no_transition(E const&,F&,int s){ logv.push_back(std::string("NT@")+std::to_string(s)); }
};
template<class M> int run(const char* n)
{
    logv.clear();
    M m; m.start();
    m.process_event(D{1});
    m.process_event(Go());
    std::cout<<n<<": ";
    for(auto&s:logv) std::cout<<s<<" ";
    std::cout<<"\n";
    return logv.size() == 1 ? 0 : 1;
}
int main(){
    int rc = run<msm::back::state_machine<M_>>("back");
    rc |= run<msm::back11::state_machine<M_>>("back11");
    return rc;
}
