// D1: inner region A takes, sibling region B guard rejects -> outer row fires too?
#include <iostream>
#include <boost/msm/back/state_machine.hpp>
#include <boost/msm/back11/state_machine.hpp>
#include <boost/msm/back/favor_compile_time.hpp>
#include <boost/msm/backmp11/state_machine.hpp>
#include <boost/msm/backmp11/favor_compile_time.hpp>
#include <boost/msm/front/state_machine_def.hpp>
#include <boost/msm/front/functor_row.hpp>
namespace msm=boost::msm; namespace mpl=boost::mpl; using namespace msm::front;
struct e{}; 
struct Log{ template<class E,class F,class S,class T> void operator()(E const&,F&,S&,T&){ std::cout<<" act:"<<typeid(S).name()<<"->"<<typeid(T).name(); } };
struct False_{ template<class E,class F,class S,class T> bool operator()(E const&,F&,S&,T&){ std::cout<<" guardF"; return false; } };
struct A1:state<>{}; struct A2:state<>{}; struct B1:state<>{}; struct B2:state<>{}; struct Other:state<>{};
template<template<class...> class Back, class... P>
struct M {
  struct Sub_:state_machine_def<Sub_>{
    typedef mpl::vector<A1,B1> initial_state;
    struct transition_table:mpl::vector<
      Row<A1,e,A2,Log,none>,
      Row<B1,e,B2,Log,False_> >{};
    template<class F,class E> void no_transition(E const&,F&,int){ std::cout<<" SUB-no_transition"; }
  };
  typedef Back<Sub_,P...> Sub;
  struct Top_:state_machine_def<Top_>{
    typedef Sub initial_state;
    struct transition_table:mpl::vector<
      Row<Sub,e,Other,Log,none> >{};
    template<class F,class E> void no_transition(E const&,F&,int){ std::cout<<" TOP-no_transition"; }
  };
  typedef Back<Top_,P...> Top;
};
template<class T> void run(const char*n){ T t; t.start(); std::cout<<n<<":"; auto r=t.process_event(e()); std::cout<<" ret="<<(int)r<<"\n"; }
struct fct: msm::backmp11::state_machine_config{ using compile_policy=msm::backmp11::favor_compile_time; };
template<class F> using mp11d = msm::backmp11::state_machine<F>;
template<class F> using mp11c = msm::backmp11::state_machine<F,fct>;
int main(){
  run<M<msm::back::state_machine>::Top>("back");
  run<M<msm::back11::state_machine>::Top>("back11");
  run<M<mp11d>::Top>("mp11");
  run<M<mp11c>::Top>("mp11fct");
}
