// D18 replay: a Defer action row whose trigger is a BASE class of the submitted event.  The row's action receives the event as the
// trigger type; Defer stores a copy of what it receives, i.e. the base part only.  When the deferring state is left the re-offered
// event is a plain base event: the row on the derived type never fires and the derived payload is gone.
// Property C05: "Deferred events ... carry their original payload" and are "treated exactly once like a freshly submitted event".
// exit code 0 = every back-end re-offers the original (derived) event.
#include <boost/msm/back/state_machine.hpp>
#include <boost/msm/back11/state_machine.hpp>
#include <boost/msm/backmp11/state_machine.hpp>
#include <boost/msm/front/state_machine_def.hpp>
#include <boost/msm/front/functor_row.hpp>
#include <iostream>
#include <string>
namespace msm = boost::msm; namespace mpl = boost::mpl; using namespace msm::front;
static std::string logs;
struct base_job { int id = 0; };
struct urgent_job : base_job { int prio = 0; urgent_job(int i = 0, int p = 0) { id = i; prio = p; } };
struct ready {};
struct handle_urgent { template <class E,class F,class S,class T> void operator()(E const& e,F&,S&,T&){ logs += "urgent(" + std::to_string(e.id) + "," + std::to_string(e.prio) + ");"; } };
struct handle_base { template <class E,class F,class S,class T> void operator()(E const& e,F&,S&,T&){ logs += "base(" + std::to_string(e.id) + ");"; } };
struct Fe_ : state_machine_def<Fe_> {
    typedef int activate_deferred_events;
    struct Waiting : state<> {}; struct Working : state<> {};
    typedef Waiting initial_state;
    struct transition_table : mpl::vector<
        Row<Waiting, base_job, none, Defer, none>,
        Row<Waiting, ready, Working, none, none>,
        Row<Working, base_job, none, handle_base, none>,
        Row<Working, urgent_job, none, handle_urgent, none>      // declared last: highest priority for an urgent_job
    > {};
    template <class F,class E> void no_transition(E const&,F&,int){ logs += "NT;"; }
};
template <class M> int run(const char* name) {
    logs.clear(); M m; m.start();
    m.process_event(urgent_job(7, 3));   // deferred through the base-class Defer row
    m.process_event(ready());            // Waiting -> Working: the deferred event is re-offered
    std::cout << name << ": " << logs << (logs == "urgent(7,3);" ? "" : "   <-- expected urgent(7,3);") << "\n";
    return logs == "urgent(7,3);" ? 0 : 1;
}
struct Mp : msm::backmp11::state_machine<Fe_, msm::backmp11::state_machine_config, Mp> {};
int main() {
    int r = 0;
    r += run<msm::back::state_machine<Fe_>>("back");
    r += run<msm::back11::state_machine<Fe_>>("back11");
    r += run<Mp>("backmp11");
    return r;
}
