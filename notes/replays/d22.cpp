// D22 replay (backmp11): a transition whose action is a deferring action OTHER than the plain front::Defer functor - an ActionSequence_
// containing Defer, or a user functor marked deferring_action - reports HANDLED_TRUE instead of HANDLED_DEFERRED: the handled result starts a
// new sequence, the deferred event is re-offered at once, deferred again, ... without end while the deferring state stays active.
// back handles both (front::get_functor_return_value).  The program exits 1 after 50 re-dispatches.
#include <iostream>
#include <cstdlib>
#include <boost/msm/backmp11/state_machine.hpp>
#include <boost/msm/back/state_machine.hpp>
#include <boost/msm/front/state_machine_def.hpp>
#include <boost/msm/front/functor_row.hpp>
#include <boost/mpl/vector.hpp>
namespace msm = boost::msm; namespace mpl = boost::mpl;
using namespace msm::front;
struct e {}; struct go {}; struct other {};
static int calls = 0;
struct MyDefer { typedef int deferring_action;
  template<class E,class F,class S,class T> void operator()(E const& ev,F& f,S&,T&){ if(++calls>50){ std::cout<<"MyDefer called >50 times: endless re-dispatch\n"; std::exit(1);} f.defer_event(ev);} };
struct Handle2 { template<class E,class F,class S,class T> void operator()(E const&,F&,S&,T&){ if(++calls>50){ std::cout<<"sequence called >50 times: endless re-dispatch\n"; std::exit(1);} } };
struct Handle { template<class E,class F,class S,class T> void operator()(E const&,F& f,S&,T&){ ++f.handled; } };
template<class DeferAction>
struct m_ : state_machine_def<m_<DeferAction>> {
  struct A : state<> {}; struct B : state<> {};
  typedef A initial_state; typedef int activate_deferred_events;
  int handled = 0; int others = 0;
  struct Cnt { template<class E,class F,class S,class T> void operator()(E const&,F& f,S&,T&){ ++f.others; } };
  struct transition_table : mpl::vector<
    Row<A, e,  none, DeferAction>,
    Row<A, other, none, Cnt>,
    Row<A, go, B>,
    Row<B, e,  none, Handle>
  > {};
  template <class FSM,class Ev> void no_transition(Ev const&, FSM&, int){}
};
template<class M> void run(const char* n){
  calls = 0; M m; m.start(); m.process_event(e{}); m.process_event(other{}); m.process_event(other{}); m.process_event(go{});
  std::cout << n << ": handled=" << m.handled << " others=" << m.others << " defer-action calls=" << calls << "\n";
}
int main(){
  run<msm::back::state_machine<m_<Defer>>>("back   Defer  ");
  run<msm::back::state_machine<m_<MyDefer>>>("back   MyDefer");
  run<msm::backmp11::state_machine<m_<Defer>>>("mp11   Defer  ");
  run<msm::backmp11::state_machine<m_<ActionSequence_<mpl::vector<Defer, Handle2>>>>>("mp11   Seq(Defer,X)"); run<msm::back::state_machine<m_<ActionSequence_<mpl::vector<Defer, Handle2>>>>>("back   Seq(Defer,X)");
}
