// Observation (d) of DESIGN section 9 (NOT a claimed defect: C15 quantifies over copies from a const reference):
// back / back11 `M b(a);` with a non-const lvalue (or an rvalue) a selects the argument-forwarding constructor template:
// b is a freshly constructed machine (initial configuration, empty history and queues) instead of a copy of a.
// exit 0 = every variant yields a copy; on the pinned tree this program exits 1 (lvalue / rvalue variants), the const& variant copies.
#include <boost/msm/back/state_machine.hpp>
#include <boost/msm/back11/state_machine.hpp>
#include <boost/msm/front/state_machine_def.hpp>
#include <iostream>
namespace msm = boost::msm; namespace mpl = boost::mpl;
struct go {};
struct M_ : msm::front::state_machine_def<M_>
{
    struct A : msm::front::state<> {}; struct B : msm::front::state<> {};
    typedef A initial_state;
    struct transition_table : mpl::vector< _row<A, go, B> > {};
    template <class F, class E> void no_transition(E const&, F&, int) {}
};
template <class M> int probe(const char* name)
{
    M a; a.start(); a.process_event(go());
    M b(a);                 // non-const lvalue
    M c(static_cast<M const&>(a));
    M d(std::move(a));      // rvalue
    std::cout << name << ": original " << a.current_state()[0] << " copy(lvalue) " << b.current_state()[0]
              << " copy(const&) " << c.current_state()[0] << " copy(rvalue) " << d.current_state()[0] << "\n";
    return (b.current_state()[0] == 1 && c.current_state()[0] == 1 && d.current_state()[0] == 1) ? 0 : 1;
}
int main()
{
    int rc = probe<msm::back::state_machine<M_>>("back");
    rc |= probe<msm::back11::state_machine<M_>>("back11");
    return rc;
}
