// replay D29 (from a seeding sub-agent): ordering comparison of 8-bit sequence stamps at the wrap (127 -> -128) reorders deferred events;
// shown here through a machine that handled 126 events vs. a freshly loaded copy.  rc 0 = same order (also with -DOBS_BACK11).
// Observation on the UNCHANGED library (back and back11): the deferred-event sequence counter
// (deferred_msg_queue_helper::m_cur_seq, a char) is not part of the archive and wraps at 127.
// A machine which has handled 126 events and a freshly loaded copy of it (counter == 0) react
// differently to the same continuation [e1,e2,e3,go]: in the original the stable_sort in
// do_handle_deferred compares 127 with char(128) == -128 and flips the order of the deferred events.
//
//   g++ -std=gnu++20 -I/repo/include observation_deferred_seq_wrap.cpp -o obs && ./obs
//   exit code 0 = original and loaded machine agree, 1 = they differ
#include <iostream>
#include <sstream>
#include <string>
#include <type_traits>
#ifndef OBS_BACK11
#include <boost/msm/back/state_machine.hpp>
#define OBS_MACHINE(front) boost::msm::back::state_machine<front>
#else
#include <boost/msm/back11/state_machine.hpp>
#define OBS_MACHINE(front) boost::msm::back11::state_machine<front>
#endif
#include <boost/msm/front/state_machine_def.hpp>
#include <boost/msm/front/functor_row.hpp>

namespace msm = boost::msm;
namespace mpl = boost::mpl;
using namespace msm::front;

// header-only text archive (avoids linking libboost_serialization)
template <class Derived, bool Saving>
struct mini_archive_base
{
    typedef mpl::bool_<Saving>  is_saving;
    typedef mpl::bool_<!Saving> is_loading;
    Derived& self() { return *static_cast<Derived*>(this); }
    template <class T>
    typename std::enable_if<std::is_arithmetic<T>::value, Derived&>::type
    operator&(T& t) { self().primitive(t); return self(); }
    template <class T, std::size_t N>
    Derived& operator&(T (&a)[N]) { for (std::size_t i = 0; i < N; ++i) self() & a[i]; return self(); }
    template <class T>
    typename std::enable_if<std::is_class<T>::value, Derived&>::type
    operator&(T& t) { t.serialize(self(), 0u); return self(); }
    template <class T> Derived& operator<<(T& t) { return self() & t; }
    template <class T> Derived& operator>>(T& t) { return self() & t; }
};
struct oarchive : mini_archive_base<oarchive, true>
{
    std::ostream& os; explicit oarchive(std::ostream& o) : os(o) {}
    template <class T> void primitive(T& t) { os << static_cast<long long>(t) << ' '; }
};
struct iarchive : mini_archive_base<iarchive, false>
{
    std::istream& is; explicit iarchive(std::istream& i) : is(i) {}
    template <class T> void primitive(T& t) { long long v = 0; is >> v; t = static_cast<T>(v); }
};

struct ping {}; struct e1 {}; struct e2 {}; struct e3 {}; struct go {};

struct M_ : state_machine_def<M_>
{
    typedef int activate_deferred_events;
    struct A : state<> {};
    struct B : state<> {};
    struct C : state<> {};
    struct D1 : state<> {};
    struct D3 : state<> {};
    typedef A initial_state;
    struct transition_table : mpl::vector<
        Row< A, ping, none, none,  none >,   // handled, bumps the sequence counter
        Row< A, e1,   none, Defer, none >,
        Row< A, e2,   none, Defer, none >,
        Row< A, e3,   none, Defer, none >,
        Row< A, go,   B,    none,  none >,
        Row< B, e1,   none, Defer, none >,   // e1 is deferred again in B
        Row< B, e2,   C,    none,  none >,   // e2 is handled in B
        Row< B, e3,   none, Defer, none >,
        Row< C, e1,   D1,   none,  none >,   // whichever of e1/e3 comes first decides
        Row< C, e3,   D3,   none,  none >
    > {};
    template <class F, class E> void no_transition(E const&, F&, int) {}
};
typedef OBS_MACHINE(M_) M;

static void continuation(M& m)
{
    m.process_event(e1()); m.process_event(e2()); m.process_event(e3()); m.process_event(go());
}

int main()
{
    int differing = 0;
    for (int pings = 120; pings <= 130; ++pings)
    {
        M original;
        original.start();
        for (int i = 0; i < pings; ++i) original.process_event(ping());
        // quiescent: both queues are empty
        if (original.get_message_queue_size() != 0 || original.get_deferred_queue().size() != 0) return 2;

        std::stringstream ss;
        { oarchive oa(ss); oa << original; }
        M loaded;
        { iarchive ia(ss); ia >> loaded; }

        continuation(original);
        continuation(loaded);
        int o = original.current_state()[0], l = loaded.current_state()[0];
        std::cout << "saved after " << pings << " handled events: original ends in state " << o
                  << ", loaded machine ends in state " << l << (o == l ? "" : "   <-- DIFFERENT") << "\n";
        if (o != l) ++differing;
    }
    std::cout << (differing ? "loaded machine does not behave like the original (expected: D1 == state 3 for both)\n"
                            : "original and loaded machine agree\n");
    return differing ? 1 : 0;
}
