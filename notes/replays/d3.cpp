// D3: exit point event sent from outside while exit point not active
#include <iostream>
#include <boost/msm/back/state_machine.hpp>
#include <boost/msm/back11/state_machine.hpp>
#include <boost/msm/backmp11/state_machine.hpp>
#include <boost/msm/backmp11/favor_compile_time.hpp>
#include <boost/msm/front/state_machine_def.hpp>
#include <boost/msm/front/functor_row.hpp>
namespace msm=boost::msm; namespace mpl=boost::mpl; using namespace msm::front;
struct leave{}; struct x{ x(){} template<class E> x(E const&){} };
struct Log{ template<class E,class F,class S,class T> void operator()(E const&,F&,S&,T&){ std::cout<<" OUTER-ACTION"; } };
struct A1:state<>{}; struct Other:state<>{};
template<template<class...> class Back, class... P>
struct M {
  struct Sub_:state_machine_def<Sub_>{
    struct Exit1: exit_pseudo_state<x>{};
    typedef A1 initial_state;
    struct transition_table:mpl::vector<
      Row<A1,leave,Exit1,none,none> >{};
    template<class F,class E> void no_transition(E const&,F&,int){ std::cout<<" SUB-no_transition"; }
  };
  typedef Back<Sub_,P...> Sub;
  struct Top_:state_machine_def<Top_>{
    typedef Sub initial_state;
    struct transition_table:mpl::vector<
      Row<typename Sub::template exit_pt<typename Sub_::Exit1>,x,Other,Log,none> >{};
    template<class F,class E> void no_transition(E const&,F&,int){ std::cout<<" TOP-no_transition"; }
  };
  typedef Back<Top_,P...> Top;
};
template<class T> void run(const char*n){ T t; t.start(); std::cout<<n<<": send x directly:"; auto r=t.process_event(x()); std::cout<<" ret="<<(int)r<<" state="<<(int)t.template get_state<typename T::initial_state&>().is_contained()<<"\n"; }
struct fct: msm::backmp11::state_machine_config{ using compile_policy=msm::backmp11::favor_compile_time; };
template<class F> using mp11d = msm::backmp11::state_machine<F>;
template<class F> using mp11c = msm::backmp11::state_machine<F,fct>;
int main(){
  run<M<msm::back::state_machine>::Top>("back");
  run<M<msm::back11::state_machine>::Top>("back11");
  run<M<mp11d>::Top>("mp11");
  run<M<mp11c>::Top>("mp11fct");
}
