// initial state that has an entry line: does the machine start in the state that owns the transitions?
#include <iostream>
#include <boost/msm/back/state_machine.hpp>
#include <boost/msm/front/state_machine_def.hpp>
#include <boost/msm/front/puml/puml.hpp>
using namespace boost::msm::front;
using namespace boost::msm::front::puml;
namespace msm = boost::msm;
static int entries = 0;
namespace boost::msm::front::puml {
template<> struct Action<by_name("hello")> {
  template <class E,class F,class S,class T> void operator()(E const&,F&,S&,T&){ ++entries; }
};
template<> struct Event<by_name("go")> {};
}
struct m_ : state_machine_def<m_> {
  BOOST_MSM_PUML_DECLARE_TABLE(R"(
    @startuml
    [*] -> A
    A -> B : go
    A : entry hello
    B : flag X
    @enduml
  )")
  int nt = 0;
  template <class FSM,class Ev> void no_transition(Ev const&, FSM&, int){ ++nt; }
};
int main(){
  msm::back::state_machine<m_> m; m.start();
  m.process_event(Event<by_name("go")>{});
  std::cout << "entries=" << entries << " no_transition=" << m.nt << " state=" << m.current_state()[0] << "\n";
  return (entries==1 && m.nt==0) ? 0 : 1;
}
