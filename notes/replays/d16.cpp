// D16 replay: rows of a machine's OWN internal_transition_table whose trigger is a base class of the event (or a Kleene type) are
// never candidates: process_fsm_internal_table gates on mpl::has_key<processable_events_internal_table, Event> (exact type only),
// although the dispatch cell it guards does contain those rows.  Table rows and state-local internal rows with the same triggers work.
// exit code 0 = expected behaviour.
#include <iostream>
#include <boost/any.hpp>
#include <boost/msm/back/state_machine.hpp>
#include <boost/msm/back11/state_machine.hpp>
#include <boost/msm/front/state_machine_def.hpp>
#include <boost/msm/front/functor_row.hpp>
namespace msm = boost::msm; namespace mpl = boost::mpl; using namespace msm::front;
struct base_ev {}; struct derived_ev : base_ev {}; struct other_ev {};
int g_base = 0, g_any = 0, g_none = 0;
struct A_base { template <class E,class F,class S,class T> void operator()(E const&,F&,S&,T&){ ++g_base; } };
struct A_any  { template <class E,class F,class S,class T> void operator()(E const&,F&,S&,T&){ ++g_any; } };
struct G_other { template <class E,class F,class S,class T> bool operator()(E const& e,F&,S&,T&){ return boost::any_cast<other_ev>(&e)!=0; } };
struct fsm_ : state_machine_def<fsm_> {
    struct S : state<> {};
    typedef S initial_state;
    struct transition_table : mpl::vector<> {};
    struct internal_transition_table : mpl::vector<
        Internal<base_ev, A_base, none>
#ifndef NO_KLEENE
        , Internal<boost::any, A_any, G_other>
#endif
    > {};
    template <class F,class E> void no_transition(E const&,F&,int){ ++g_none; }
};
template <class M> int run(const char* name, bool kleene) {
    g_base = g_any = g_none = 0;
    M f; f.start();
    f.process_event(base_ev());    // exact: fires
    f.process_event(derived_ev()); // base-class trigger
    if (kleene) f.process_event(other_ev());   // Kleene trigger
    std::cout << name << ": base row fired " << g_base << " (expected 2), any row fired " << g_any
              << " (expected " << (kleene ? 1 : 0) << "), no_transition " << g_none << " (expected 0)\n";
    return (g_base == 2 && g_any == (kleene ? 1 : 0) && g_none == 0) ? 0 : 1;
}
int main() {
#ifndef NO_KLEENE
    return run<msm::back::state_machine<fsm_>>("back", true);
#else
    return run<msm::back::state_machine<fsm_>>("back", false) + run<msm::back11::state_machine<fsm_>>("back11", false);
#endif
}
