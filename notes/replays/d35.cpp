// D35 replay: backmp11 process_event_pool(max_events) stopped at the limit with a completion occurrence still pending;
// the next process_event() was dispatched before it (and the stale completion then ran from a state that is not active).
// g++ -std=gnu++20 -DNDEBUG -I/repo/include d35.cpp && ./a.out ; exit 0 = completion fired before the later event
#include <boost/msm/backmp11/state_machine.hpp>
#include <boost/msm/front/state_machine_def.hpp>
#include <boost/msm/front/functor_row.hpp>
#include <iostream>
#include <string>
#include <vector>
namespace msm = boost::msm; namespace mp11 = boost::mp11;
using namespace msm::front;
static std::vector<std::string> g_log;
struct e1 {}; struct e2 {};
template <char N> struct S : msm::front::state<> {
  template <class E, class F> void on_entry(E const&, F&) { g_log.push_back(std::string("enter ") + N); }
  template <class E, class F> void on_exit(E const&, F&) { g_log.push_back(std::string("exit ") + N); }
};
struct fsm_ : msm::front::state_machine_def<fsm_> {
  struct A : S<'A'> {}; struct B : S<'B'> {}; struct C : S<'C'> {}; struct D : S<'D'> {};
  using initial_state = A;
  using transition_table = mp11::mp_list<
    Row<A, e1, B>, Row<B, none, C>, Row<B, e2, D> >;
  template <class F, class E> void no_transition(E const&, F&, int) { g_log.push_back("no_transition"); }
};
using fsm = msm::backmp11::state_machine<fsm_>;
int main() {
  fsm m; m.start(); g_log.clear();
  m.enqueue_event(e1());
  size_t n = m.process_event_pool(1);
  std::cout << "processed " << n << "\n";
  m.process_event(e2());
  for (auto& s : g_log) std::cout << "[" << s << "] "; std::cout << "\n";
  std::vector<std::string> want{"exit A","enter B","exit B","enter C","no_transition"};
  return g_log == want ? 0 : 1;
}
