// D10: mp11 exit point forwards ForwardEvent* reinterpret as Event*: conversion skipped
#include <iostream>
#include <boost/msm/back/state_machine.hpp>
#include <boost/msm/backmp11/state_machine.hpp>
#include <boost/msm/front/state_machine_def.hpp>
#include <boost/msm/front/functor_row.hpp>
namespace msm=boost::msm; namespace mpl=boost::mpl; using namespace msm::front;
struct leave{ char tag='L'; }; 
struct left{ long a=0,b=0; left(){} left(leave const& l):a(1000+l.tag),b(42){} };
struct Log{ template<class F,class S,class T> void operator()(left const& e,F&,S&,T&){ std::cout<<" outer action sees left{a="<<e.a<<",b="<<e.b<<"}"; } };
struct A1:state<>{}; struct Other:state<>{};
template<template<class...> class Back>
struct M {
  struct Sub_:state_machine_def<Sub_>{
    struct Exit1: exit_pseudo_state<left>{};
    typedef A1 initial_state;
    struct transition_table:mpl::vector< Row<A1,leave,Exit1,none,none> >{};
  };
  typedef Back<Sub_> Sub;
  struct Top_:state_machine_def<Top_>{
    typedef Sub initial_state;
    struct transition_table:mpl::vector< Row<typename Sub::template exit_pt<typename Sub_::Exit1>,left,Other,Log,none> >{};
    template<class F,class E> void no_transition(E const&,F&,int){ std::cout<<" TOP-no_transition"; }
  };
  typedef Back<Top_> Top;
};
template<class T> void run(const char*n){ T t; t.start(); std::cout<<n<<":"; t.process_event(leave()); std::cout<<"\n"; }
template<class F> using mp11d = msm::backmp11::state_machine<F>;
int main(){ run<M<msm::back::state_machine>::Top>("back"); run<M<mp11d>::Top>("mp11"); }
