// D7: substate on_entry throws while entering submachine -> submachine wedged?
#include <iostream>
#include <stdexcept>
#include <boost/msm/back/state_machine.hpp>
#include <boost/msm/backmp11/state_machine.hpp>
#include <boost/msm/front/state_machine_def.hpp>
#include <boost/msm/front/functor_row.hpp>
namespace msm=boost::msm; namespace mpl=boost::mpl; using namespace msm::front;
struct enter{}; struct step{};
static bool do_throw=true;
struct Outside:state<>{};
template<template<class...> class Back>
struct M {
  struct Sub_:state_machine_def<Sub_>{
    struct A1:state<>{ template<class E,class F> void on_entry(E const&,F&){ if(do_throw){ do_throw=false; throw std::runtime_error("boom"); } } };
    struct A2:state<>{};
    typedef A1 initial_state;
    struct Act{ template<class E,class F,class S,class T> void operator()(E const&,F&,S&,T&){ std::cout<<" [step handled in Sub]"; } };
    struct transition_table:mpl::vector< Row<A1,step,A2,Act,none> >{};
    template<class F,class E> void no_transition(E const&,F&,int){ std::cout<<" SUB-no_transition"; }
    template<class F,class E> void exception_caught(E const&,F&,std::exception& x){ std::cout<<" SUB-caught:"<<x.what(); }
  };
  typedef Back<Sub_> Sub;
  struct Top_:state_machine_def<Top_>{
    typedef Outside initial_state; typedef msm::active_state_switch_before_transition active_state_switch_policy;
    struct transition_table:mpl::vector< Row<Outside,enter,Sub,none,none> >{};
    template<class F,class E> void no_transition(E const&,F&,int){ std::cout<<" TOP-no_transition"; }
    template<class F,class E> void exception_caught(E const&,F&,std::exception& x){ std::cout<<" TOP-caught:"<<x.what(); }
  };
  typedef Back<Top_> Top;
};
template<class T> void run(const char*n, auto ids){ do_throw=true; T t; t.start(); std::cout<<n<<":"; auto r=t.process_event(enter()); std::cout<<" ret="<<(int)r<<" top="<<ids(t);
  r=t.process_event(step()); std::cout<<" | step ret="<<(int)r; r=t.process_event(step()); std::cout<<" | step ret="<<(int)r<<"\n"; }
template<class F> using mp11d = msm::backmp11::state_machine<F>;
int main(){
  run<M<msm::back::state_machine>::Top>("back",[](auto&t){return t.current_state()[0];});
  run<M<mp11d>::Top>("mp11",[](auto&t){return (int)t.get_active_state_ids()[0];});
}
