// D8: completion transition of a submachine's initial substate vs. event raised from entry (queued)
#include <iostream>
#include <boost/msm/back/state_machine.hpp>
#include <boost/msm/back11/state_machine.hpp>
#include <boost/msm/backmp11/state_machine.hpp>
#include <boost/msm/front/state_machine_def.hpp>
#include <boost/msm/front/functor_row.hpp>
namespace msm=boost::msm; namespace mpl=boost::mpl; using namespace msm::front;
struct enter{}; struct q{};
struct Outside:state<>{};
struct Say{ const char* s; };
template<template<class...> class Back>
struct M {
  struct Sub_:state_machine_def<Sub_>{
    struct A1:state<>{ template<class E,class F> void on_entry(E const&,F& f){ std::cout<<" A1.entry(raises q)"; f.process_event(q()); } };
    struct A2:state<>{ template<class E,class F> void on_entry(E const&,F& f){ std::cout<<" A2.entry"; } };
    struct A3:state<>{ template<class E,class F> void on_entry(E const&,F& f){ std::cout<<" A3.entry"; } };
    typedef A1 initial_state;
    struct ActC{ template<class E,class F,class S,class T> void operator()(E const&,F&,S&,T&){ std::cout<<" [completion A1->A2]"; } };
    struct ActQ1{ template<class E,class F,class S,class T> void operator()(E const&,F&,S&,T&){ std::cout<<" [q handled in A1!]"; } };
    struct ActQ2{ template<class E,class F,class S,class T> void operator()(E const&,F&,S&,T&){ std::cout<<" [q handled in A2]"; } };
    struct transition_table:mpl::vector< Row<A1,none,A2,ActC,none>, Row<A1,q,A3,ActQ1,none>, Row<A2,q,A3,ActQ2,none> >{};
    template<class F,class E> void no_transition(E const&,F&,int){ std::cout<<" SUB-no_transition"; }
  };
  typedef Back<Sub_> Sub;
  struct Top_:state_machine_def<Top_>{
    typedef Outside initial_state;
    struct transition_table:mpl::vector< Row<Outside,enter,Sub,none,none> >{};
    template<class F,class E> void no_transition(E const&,F&,int){ std::cout<<" TOP-no_transition"; }
  };
  typedef Back<Top_> Top;
};
template<class T> void run(const char*n){ T t; t.start(); std::cout<<n<<":"; t.process_event(enter()); std::cout<<"\n"; 
  typename T::initial_state dummy; (void)dummy; }
template<class F> using mp11d = msm::backmp11::state_machine<F>;
int main(){
  run<M<msm::back::state_machine>::Top>("back");
  run<M<msm::back11::state_machine>::Top>("back11");
  run<M<mp11d>::Top>("mp11");
  // same machine as root (start)
  { M<msm::back::state_machine>::Sub s; std::cout<<"back root start:"; s.start(); std::cout<<"\n"; }
  { M<mp11d>::Sub s; std::cout<<"mp11 root start:"; s.start(); std::cout<<"\n"; }
}
