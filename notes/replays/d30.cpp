// replay D30 (known finding, from a seeding sub-agent): option event_queue_before_deferred_queue; a queued event moves the machine out of
// the deferring state while the directly submitted event is itself deferred: the deferred events are not re-offered.
// probe O4: back, event_queue_before_deferred_queue: queued event changes the state while the
// directly processed event is not "handled" -> deferred events not re-offered?
// probe O5: backmp11 process_event_pool(1): action-deferred event stays pending?
#include <iostream>
#include <string>
#include <vector>
#include <boost/msm/back/state_machine.hpp>
#include <boost/msm/back11/state_machine.hpp>
#include <boost/msm/backmp11/state_machine.hpp>
#include <boost/msm/front/state_machine_def.hpp>
#include <boost/msm/front/functor_row.hpp>
namespace msm = boost::msm; namespace mpl = boost::mpl; using namespace msm::front;

struct D { int v; };
struct Go {};
struct X {};
std::vector<std::string> logv;
struct actD { template<class E,class F,class S,class T> void operator()(E const& e,F&,S&,T&){ logv.push_back("D"+std::to_string(e.v)); } };
struct actX { template<class E,class F,class S,class T> void operator()(E const&,F&,S&,T&){ logv.push_back("X"); } };
struct M_ : state_machine_def<M_>
{
    typedef int event_queue_before_deferred_queue;
    struct A1 : state<> { typedef mpl::vector<D> deferred_events; };
    struct A2 : state<> {};
    typedef A1 initial_state;
    struct transition_table : mpl::vector<
        Row<A1,Go,A2>,
        Row<A2,D,none,actD>,
        Row<A2,X,none,actX>
    >{};
    template<class F,class E> void no_transition(E const&,F&,int s){ logv.push_back(std::string("NT@")+std::to_string(s)); }
};
template<class M> void run(const char* n)
{
    logv.clear();
    M m; m.start();
    m.process_event(D{1});
    m.enqueue_event(Go());
    m.process_event(D{2});     // deferred; afterwards the message queue runs Go -> A2
    std::cout<<n<<": state "<<m.current_state()[0]<<" after D2: ";
    for(auto&s:logv) std::cout<<s<<" ";
    m.process_event(X());
    std::cout<<"| after X: ";
    for(auto&s:logv) std::cout<<s<<" ";
    std::cout<<"   (expected D1 D2 X)\n";
}

int main(){
    run<msm::back::state_machine<M_>>("back");
    run<msm::back11::state_machine<M_>>("back11");
    // rc 1 on the pinned tree (known finding D30): X is processed before the deferred D1 D2
    return (logv.size() == 3 && logv[0] == "D1" && logv[1] == "D2" && logv[2] == "X") ? 0 : 1;
}
