// D12: base-class trigger where the base is the SECOND base of the event (multiple inheritance)
#include <iostream>
#include <boost/msm/back/state_machine.hpp>
#include <boost/msm/backmp11/state_machine.hpp>
#include <boost/msm/front/state_machine_def.hpp>
#include <boost/msm/front/functor_row.hpp>
namespace msm=boost::msm; namespace mpl=boost::mpl; using namespace msm::front;
struct A{ long a=111; }; struct B{ long b=222; }; struct E: A, B {};
struct Show{ template<class F,class S,class T> void operator()(B const& e,F&,S&,T&){ std::cout<<" action sees B::b="<<e.b; } };
struct Fe_:state_machine_def<Fe_>{
  struct S1:state<>{}; struct S2:state<>{};
  typedef S1 initial_state;
  struct transition_table:mpl::vector< Row<S1,B,S2,Show,none> >{};
  template<class F,class Ev> void no_transition(Ev const&,F&,int){ std::cout<<" no_transition"; }
};
template<class T> void run(const char*n){ T t; t.start(); std::cout<<n<<":"; t.process_event(E()); std::cout<<"\n"; }
int main(){ run<msm::back::state_machine<Fe_>>("back"); run<msm::backmp11::state_machine<Fe_>>("mp11"); }
