// UNCHANGED library (g++ -std=gnu++20 -I/repo/include): a "flag" / "entry" / "exit" line is silently ignored
// when the NAME of the state it belongs to contains the keyword itself (flagpole, entry_hall, exit_ramp ...):
// parse_flags / parse_state_actions look for the first occurrence of the keyword in the text, find it inside the
// state name, fail to match the line and skip to the next line - the declaration is lost without any diagnostic.
#include <iostream>
#include <boost/msm/front/puml/puml.hpp>
using namespace boost::msm::front;
using namespace boost::msm::front::puml;
int main(){
    auto t1 = create_transition_table([]() {return R"([*] -> flagpole
flagpole -> B : e
flagpole : flag F1
B : flag F2
)"; });
    using row0 = std::remove_reference_t<decltype(boost::fusion::at_c<0>(t1))>;
    bool src_has_flag = !std::is_same_v<row0::Source, State<by_name("flagpole")>>;
    bool tgt_has_flag = !std::is_same_v<row0::Target, State<by_name("B")>>;
    std::cout << "flagpole carries flag F1: " << src_has_flag << " (expected 1)\n";
    std::cout << "B carries flag F2:        " << tgt_has_flag << " (expected 1)\n";
    auto t2 = create_transition_table([]() {return R"([*] -> entry_hall
entry_hall -> B : e
entry_hall : entry A1
B : entry A2
)"; });
    using r0 = std::remove_reference_t<decltype(boost::fusion::at_c<0>(t2))>;
    bool src_has_entry = !std::is_same_v<r0::Source, State<by_name("entry_hall")>>;
    bool tgt_has_entry = !std::is_same_v<r0::Target, State<by_name("B")>>;
    std::cout << "entry_hall carries entry A1: " << src_has_entry << " (expected 1)\n";
    std::cout << "B carries entry A2:          " << tgt_has_entry << " (expected 1)\n";
    return (src_has_flag && tgt_has_flag && src_has_entry && tgt_has_entry) ? 0 : 1;
}
