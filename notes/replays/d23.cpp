// UNCHANGED library (/repo/include), backmp11: a FORK whose targets are listed in an order different
// from the region order, where one explicit-entry target has a completion (anonymous) transition.
// on_explicit_entry() (all regions defined) enters the targets in LISTED order while
// state_entry_visitor numbers them m_region_id++ (0,1,..), so the completion transition of B1
// (region 1) is scheduled for region 0.
//   debug build : BOOST_ASSERT(state_id == current_state_id) fires in transition::execute
//   -DNDEBUG    : region 0 slot is overwritten with B2 (a region-1 state), A1 stays entered but is
//                 no longer reported, B1 is exited but still reported in region 1.
// g++ -std=gnu++20 -DNDEBUG -I/repo/include unchanged_defect_fork_order.cpp && ./a.out   (exit 1 = defect observed)
#include <iostream>
#include <boost/msm/backmp11/state_machine.hpp>
#include <boost/msm/front/state_machine_def.hpp>
#include <boost/msm/front/functor_row.hpp>
#include <boost/msm/front/states.hpp>
namespace mp11 = boost::mp11;
using namespace boost::msm::front;
using namespace boost::msm::backmp11;
struct go{}; struct back_{};
struct Cnt : state<> { int in=0,out=0;
  template<class E,class F> void on_entry(E const&,F&){++in;}
  template<class E,class F> void on_exit(E const&,F&){++out;} };
struct Sub_ : state_machine_def<Sub_> {
  struct A0:Cnt{}; struct B0:Cnt{};
  struct A1:Cnt, explicit_entry<0>{}; struct B1:Cnt, explicit_entry<1>{};
  struct B2:Cnt{};
  using initial_state = mp11::mp_list<A0,B0>;
  using transition_table = mp11::mp_list<
    Row<A1,back_,A0>,
    Row<B1,none,B2> >;   // completion transition in region 1
  template<class F,class E> void no_transition(E const&,F&,int){}
};
using Sub = state_machine<Sub_>;
struct Top_ : state_machine_def<Top_> {
  struct S0:Cnt{};
  using initial_state = S0;
  using transition_table = mp11::mp_list<
    Row<S0,go,mp11::mp_list<Sub::direct<Sub_::B1>, Sub::direct<Sub_::A1>>>,   // region 1 listed first
    Row<Sub,back_,S0> >;
  template<class F,class E> void no_transition(E const&,F&,int){}
};
using Top = state_machine<Top_>;
int main(){
  Top t; t.start(); t.process_event(go());
  Sub& s = t.get_state<Sub>();
  auto ids = s.get_active_state_ids();
  const auto a1 = Sub::get_state_id<Sub_::A1>(), b2 = Sub::get_state_id<Sub_::B2>();
  std::cout<<"active ids: region0="<<ids[0]<<" region1="<<ids[1]<<"   expected region0="<<a1<<" (A1) region1="<<b2<<" (B2)\n";
  std::cout<<"A1 in/out "<<s.get_state<Sub_::A1>().in<<"/"<<s.get_state<Sub_::A1>().out
           <<"  B1 in/out "<<s.get_state<Sub_::B1>().in<<"/"<<s.get_state<Sub_::B1>().out
           <<"  B2 in/out "<<s.get_state<Sub_::B2>().in<<"/"<<s.get_state<Sub_::B2>().out<<"\n";
  return (ids[0]==a1 && ids[1]==b2) ? 0 : 1;
}
