// replay D31 (from a seeding sub-agent): backmp11 process_event_pool(1) stopped at the limit before advancing the sequence counter, so an
// action-deferred event stayed pending across later process_event_pool() calls and was overtaken by the next submitted event.
// probe O4: back, event_queue_before_deferred_queue: queued event changes the state while the
// directly processed event is not "handled" -> deferred events not re-offered?
// probe O5: backmp11 process_event_pool(1): action-deferred event stays pending?
#include <iostream>
#include <string>
#include <vector>
#include <boost/msm/back/state_machine.hpp>
#include <boost/msm/back11/state_machine.hpp>
#include <boost/msm/backmp11/state_machine.hpp>
#include <boost/msm/front/state_machine_def.hpp>
#include <boost/msm/front/functor_row.hpp>
namespace msm = boost::msm; namespace mpl = boost::mpl; using namespace msm::front;

struct D { int v; };
struct Go {};
struct X {};
std::vector<std::string> logv;
struct actD { template<class E,class F,class S,class T> void operator()(E const& e,F&,S&,T&){ logv.push_back("D"+std::to_string(e.v)); } };
struct actX { template<class E,class F,class S,class T> void operator()(E const&,F&,S&,T&){ logv.push_back("X"); } };
// backmp11
struct P_ : state_machine_def<P_>
{
    struct A1 : state<> {};
    struct A2 : state<> {};
    typedef A1 initial_state;
    using transition_table = boost::mp11::mp_list<
        Row<A1,Go,A2>,
        Row<A1,D,none,Defer>,
        Row<A2,D,none,actD>,
        Row<A2,X,none,actX>
    >;
    template<class F,class E> void no_transition(E const&,F&,int s){ logv.push_back(std::string("NT@")+std::to_string(s)); }
};
void run11()
{
    logv.clear();
    msm::backmp11::state_machine<P_> m; m.start();
    m.process_event(D{1});
    m.enqueue_event(Go());
    size_t n1 = m.process_event_pool(1);
    size_t n2 = m.process_event_pool(1);
    size_t n3 = m.process_event_pool();
    std::cout<<"backmp11: processed "<<n1<<","<<n2<<","<<n3<<" state "<<m.get_active_state_ids()[0]<<": ";
    for(auto&s:logv) std::cout<<s<<" ";
    m.process_event(X());
    std::cout<<"| after X: ";
    for(auto&s:logv) std::cout<<s<<" ";
    std::cout<<"   (expected D1 X)\n";
}
int main(){
    run11();
    // rc 0 = D1 is re-offered by the pool calls, before X
    return (logv.size() == 2 && logv[0] == "D1" && logv[1] == "X") ? 0 : 1;
}
