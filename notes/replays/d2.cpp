// D2: shallow history + explicit entry into region 0; region 1 should follow history if event in list
#include <iostream>
#include <boost/msm/back/state_machine.hpp>
#include <boost/msm/back11/state_machine.hpp>
#include <boost/msm/backmp11/state_machine.hpp>
#include <boost/msm/front/state_machine_def.hpp>
#include <boost/msm/front/functor_row.hpp>
namespace msm=boost::msm; namespace mpl=boost::mpl; using namespace msm::front;
struct go{}; struct out{}; struct in_explicit{}; struct in_plain{};
struct Outside:state<>{};
template<template<class...> class Back, class... P>
struct M {
  struct Sub_:state_machine_def<Sub_>{
    struct A1:state<>{}; struct A2:state<>, explicit_entry<0>{}; struct B1:state<>{}; struct B2:state<>{};
    typedef mpl::vector<A1,B1> initial_state;
    using history = shallow_history<in_explicit,in_plain>;
    struct transition_table:mpl::vector<
      Row<B1,go,B2,none,none> >{};
    typedef mpl::vector<A2> explicit_creation;
  };
  typedef Back<Sub_,P...> Sub;
  struct Top_:state_machine_def<Top_>{
    typedef Sub initial_state;
    struct transition_table:mpl::vector<
      Row<Sub,out,Outside,none,none>,
      Row<Outside,in_plain,Sub,none,none>,
      Row<Outside,in_explicit,typename Sub::template direct<typename Sub_::A2>,none,none> >{};
  };
  typedef Back<Top_> Top;
};
template<class T,class E> void run(const char*n){ T t; t.start(); t.process_event(go()); auto&s=t.template get_state<typename T::initial_state&>();
  std::cout<<n<<": before exit sub=["<<s.current_state()[0]<<","<<s.current_state()[1]<<"]"; t.process_event(out()); t.process_event(E());
  std::cout<<" after reentry sub=["<<s.current_state()[0]<<","<<s.current_state()[1]<<"]\n"; }
template<class F,class...> using mp11d = msm::backmp11::state_machine<F>;
template<class T,class E> void run11(const char*n){ T t; t.start(); t.process_event(go()); auto&s=t.template get_state<typename T::initial_state&>();
  std::cout<<n<<": before exit sub=["<<s.get_active_state_ids()[0]<<","<<s.get_active_state_ids()[1]<<"]"; t.process_event(out()); t.process_event(E());
  std::cout<<" after reentry sub=["<<s.get_active_state_ids()[0]<<","<<s.get_active_state_ids()[1]<<"]\n"; }
template<class F,class... P> using b11 = msm::back11::state_machine<F,void,P...>;
typedef msm::back::ShallowHistory<mpl::vector<in_explicit,in_plain>> SH;
int main(){
  run<M<msm::back::state_machine,SH>::Top,in_plain>("back plain");
  run<M<msm::back::state_machine,SH>::Top,in_explicit>("back explicit");
  run<M<b11,SH>::Top,in_explicit>("back11 explicit");
  run11<M<mp11d>::Top,in_plain>("mp11 plain");
  run11<M<mp11d>::Top,in_explicit>("mp11 explicit");
}
