// replay D27 (known finding, from a seeding sub-agent): an event a substate's on_exit sends to its submachine while the container leaves that
// submachine is dispatched at once (the submachine is not marked busy during its exit cascade): the trace shows S1.exit nested in S1.exit.
// probe: event raised from a sub-state's on_exit addressed to the submachine itself,
// while the submachine is being exited by a transition of the parent.
#include <iostream>
#include <string>
#include <vector>
#include <boost/msm/back/state_machine.hpp>
#include <boost/msm/back11/state_machine.hpp>
#include <boost/msm/backmp11/state_machine.hpp>
#include <boost/msm/front/state_machine_def.hpp>
#include <boost/msm/front/functor_row.hpp>
namespace msm = boost::msm; namespace mpl = boost::mpl; using namespace boost::msm::front;
std::vector<std::string> g_log; int g_bad = 0;
struct leave {}; struct inner {};
template <template <class...> class BE>
struct test
{
    struct sub_ : public msm::front::state_machine_def<sub_>
    {
        struct S1 : public msm::front::state<>
        {
            template <class E, class F> void on_entry(E const&, F&) { g_log.push_back("S1.entry"); }
            template <class E, class F> void on_exit(E const&, F& f)
            {
                g_log.push_back("S1.exit{");
                f.process_event(inner());
                g_log.push_back("}S1.exit");
            }
        };
        struct S2 : public msm::front::state<>
        {
            template <class E, class F> void on_entry(E const&, F&) { g_log.push_back("S2.entry"); }
            template <class E, class F> void on_exit(E const&, F&) { g_log.push_back("S2.exit"); }
        };
        struct act { template <class E, class F, class S, class T> void operator()(E const&, F&, S&, T&) { g_log.push_back("inner-action"); } };
        typedef S1 initial_state;
        struct transition_table : mpl::vector< Row<S1, inner, S2, act, none> > {};
        template <class F, class E> void no_transition(E const&, F&, int) { g_log.push_back("sub.no_transition"); }
    };
    typedef BE<sub_> sub;
    struct top_ : public msm::front::state_machine_def<top_>
    {
        struct Out : public msm::front::state<> {};
        typedef sub initial_state;
        struct transition_table : mpl::vector< Row<sub, leave, Out, none, none> > {};
        template <class F, class E> void no_transition(E const&, F&, int) { g_log.push_back("top.no_transition"); }
    };
    typedef BE<top_> top;
    static void run(const char* name)
    {
        g_log.clear();
        top t; t.start();
        g_log.clear();
        t.process_event(leave());
        std::cout << name << ": ";
        std::string all;
        for (auto& s : g_log) { std::cout << s << ' '; all += s + " "; }
        std::cout << "\n";
        if (all.find("S1.exit{ S1.exit{") != std::string::npos) ++g_bad;    // the exit behaviour was re-entered
    }
};
template <class F> using be_back = msm::back::state_machine<F>;
template <class F> using be_back11 = msm::back11::state_machine<F>;
template <class F> using be_mp11 = msm::backmp11::state_machine<F>;
int main()
{
    test<be_back>::run("back");
    test<be_back11>::run("back11");
    test<be_mp11>::run("backmp11");
    return g_bad ? 1 : 0;     // 1 on the pinned tree (known finding D27)
}
