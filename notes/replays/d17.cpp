// D17 replay (back; back11 has the same code): exit_pt<ExitPoint>::operator= returns without assigning its ExitPoint base, so data kept
// in a user exit pseudo state is not carried over when a machine is copied / assigned.  exit code 0 = copy equals original.
#include <iostream>
#include <boost/msm/back/state_machine.hpp>
#include <boost/msm/front/state_machine_def.hpp>
namespace msm = boost::msm; namespace mpl = boost::mpl;
struct go {}; struct leave {};
struct outer_ : msm::front::state_machine_def<outer_>
{
    struct sub_ : msm::front::state_machine_def<sub_>
    {
        struct S : msm::front::state<> {};
        struct Exit : msm::front::exit_pseudo_state<leave>
        {
            int entered = 0;
            template <class E,class F> void on_entry(E const&,F&) { ++entered; }
        };
        typedef S initial_state;
        struct transition_table : mpl::vector< _row<S,leave,Exit> > {};
    };
    typedef msm::back::state_machine<sub_> sub;
    struct Done : msm::front::state<> {};
    struct Idle : msm::front::state<> {};
    typedef Idle initial_state;
    struct transition_table : mpl::vector<
        _row<Idle,go,sub>,
        _row<sub::exit_pt<sub_::Exit>,leave,Done>,
        _row<Done,go,sub> > {};
    template <class F,class E> void no_transition(E const&,F&,int){}
};
typedef msm::back::state_machine<outer_> outer;
int main()
{
    outer orig; orig.start();
    orig.process_event(go()); orig.process_event(leave());   // exit point entered once
    outer const& c = orig; outer copy(c);
    int o = orig.get_state<outer::sub&>().get_state<outer::sub::exit_pt<outer_::sub_::Exit>&>().entered;
    int k = copy.get_state<outer::sub&>().get_state<outer::sub::exit_pt<outer_::sub_::Exit>&>().entered;
    std::cout << "exit pseudo state data: orig " << o << ", copy " << k << " (expected equal)\n";
    return o == k ? 0 : 1;
}
