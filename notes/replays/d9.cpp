// D9: back11 interrupt state + lvalue end-interrupt event
#include <iostream>
#include <boost/msm/back/state_machine.hpp>
#include <boost/msm/back11/state_machine.hpp>
#include <boost/msm/backmp11/state_machine.hpp>
#include <boost/msm/front/state_machine_def.hpp>
#include <boost/msm/front/functor_row.hpp>
namespace msm=boost::msm; namespace mpl=boost::mpl; using namespace msm::front;
struct err{}; struct end_err{}; struct other{};
struct Fe_:state_machine_def<Fe_>{
  struct Ok:state<>{}; struct Bad:interrupt_state<end_err>{};
  typedef Ok initial_state;
  struct transition_table:mpl::vector< Row<Ok,err,Bad,none,none>, Row<Bad,end_err,Ok,none,none> >{};
  template<class F,class E> void no_transition(E const&,F&,int){ std::cout<<" no_transition"; }
};
template<class T> void run(const char*n, auto ids){ 
  { T t; t.start(); t.process_event(err()); t.process_event(end_err()); std::cout<<n<<" rvalue: state="<<ids(t); }
  { T t; t.start(); t.process_event(err()); end_err e; t.process_event(e); std::cout<<" | lvalue: state="<<ids(t); }
  { T t; t.start(); t.process_event(err()); const end_err e; t.process_event(e); std::cout<<" | const lvalue: state="<<ids(t)<<"\n"; }
}
int main(){
  run<msm::back::state_machine<Fe_>>("back",[](auto&t){return t.current_state()[0];});
  run<msm::back11::state_machine<Fe_>>("back11",[](auto&t){return t.current_state()[0];});
  run<msm::backmp11::state_machine<Fe_>>("mp11",[](auto&t){return (int)t.get_active_state_ids()[0];});
}
