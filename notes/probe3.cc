#include "clang/AST/ASTConsumer.h"
#include "clang/AST/RecursiveASTVisitor.h"
#include "clang/AST/DeclTemplate.h"
#include "clang/Analysis/CFG.h"
#include "clang/Frontend/CompilerInstance.h"
#include "clang/Frontend/FrontendAction.h"
#include "clang/Tooling/CommonOptionsParser.h"
#include "clang/Tooling/Tooling.h"
#include "llvm/Support/CommandLine.h"
using namespace clang; using namespace clang::tooling;
static llvm::cl::OptionCategory Cat("probe");
struct V : RecursiveASTVisitor<V> {
  ASTContext &C; SourceManager &SM; int n1=0,n2=0,n3=0;
  V(ASTContext &c):C(c),SM(c.getSourceManager()){}
  bool shouldVisitTemplateInstantiations() const { return true; }
  bool shouldVisitLambdaBody() const { return true; }
  std::string loc(SourceLocation L){ auto P=SM.getPresumedLoc(SM.getSpellingLoc(L)); if(P.isInvalid()) return "?"; std::string f=P.getFilename(); auto p=f.find("boost/msm/"); if(p!=std::string::npos) f=f.substr(p+10); return f+":"+std::to_string(P.getLine()); }
  bool VisitFunctionDecl(FunctionDecl *F){
    if(!F->doesThisDeclarationHaveABody()||F->isDependentContext()) return true;
    std::string l=loc(F->getLocation());
    // lambdas' call operators defined in favor_runtime_speed.hpp dispatch
    if(auto *M=dyn_cast<CXXMethodDecl>(F)) if(M->getParent()->isLambda() && l.find("favor_runtime_speed.hpp:36")!=std::string::npos && n1<4){ n1++;
      llvm::outs()<<"lambda op() at "<<l<<" inst="<<F->isTemplateInstantiation()<<"\n";
      struct T: RecursiveASTVisitor<T>{ V&v; T(V&v):v(v){} bool VisitCallExpr(CallExpr*E){ if(auto*D=E->getDirectCallee()) llvm::outs()<<"    calls "<<D->getNameAsString()<<" of "<<(isa<CXXMethodDecl>(D)?cast<CXXMethodDecl>(D)->getParent()->getNameAsString():std::string("-"))<<" @"<<v.loc(D->getLocation())<<"\n"; return true; } } t(*this); t.TraverseStmt(F->getBody()); }
    if(F->getDeclName().isIdentifier() && F->getName()=="process_completion_transition" && n2<1){ n2++;
      CFG::BuildOptions BO; BO.setAllAlwaysAdd(); auto cfg=CFG::buildCFG(F,F->getBody(),&C,BO);
      llvm::outs()<<"CFG process_completion_transition blocks="<<cfg->size()<<"\n";
      for(auto*B:*cfg){ llvm::outs()<<" B"<<B->getBlockID()<<" preds="<<B->pred_size()<<" succs="; for(auto S:B->succs()) if(S) llvm::outs()<<S->getBlockID()<<","; if(auto*T=B->getTerminatorStmt()) llvm::outs()<<" term="<<T->getStmtClassName(); if(B->getLabel()) llvm::outs()<<" label="<<B->getLabel()->getStmtClassName(); llvm::outs()<<"\n"; }
    }
    return true;
  }
  bool VisitVarDecl(VarDecl*D){ // address-taken cells
    if(D->getDeclName().isIdentifier() && D->getName()=="value" && D->isStaticDataMember() && D->hasInit() && n3<3){ std::string l=loc(D->getLocation()); if(l.find("favor_runtime_speed")!=std::string::npos && !D->getDeclContext()->isDependentContext()){ n3++; 
      const Expr*I=D->getInit()->IgnoreParenImpCasts(); if(auto*U=dyn_cast<UnaryOperator>(I)) if(auto*R=dyn_cast<DeclRefExpr>(U->getSubExpr())) llvm::outs()<<"cell value @"<<l<<" = &"<<cast<CXXMethodDecl>(R->getDecl())->getParent()->getNameAsString()<<"::"<<R->getDecl()->getNameAsString()<<"\n"; } }
    return true; }
};
struct Cn : ASTConsumer { void HandleTranslationUnit(ASTContext &C) override { V v(C); v.TraverseDecl(C.getTranslationUnitDecl()); } };
struct A : ASTFrontendAction { std::unique_ptr<ASTConsumer> CreateASTConsumer(CompilerInstance&,StringRef) override { return std::make_unique<Cn>(); } };
int main(int argc,const char**argv){ auto P=CommonOptionsParser::create(argc,argv,Cat); ClangTool T(P->getCompilations(),P->getSourcePathList()); return T.run(newFrontendActionFactory<A>().get()); }
