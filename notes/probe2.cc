#include "clang/AST/ASTConsumer.h"
#include "clang/AST/RecursiveASTVisitor.h"
#include "clang/AST/DeclTemplate.h"
#include "clang/Analysis/CFG.h"
#include "clang/Frontend/CompilerInstance.h"
#include "clang/Frontend/FrontendAction.h"
#include "clang/Tooling/CommonOptionsParser.h"
#include "clang/Tooling/Tooling.h"
#include "llvm/Support/CommandLine.h"
using namespace clang; using namespace clang::tooling;
static llvm::cl::OptionCategory Cat("probe");
static std::string shortT(QualType T, int depth=0){
  T=T.getCanonicalType();
  if(auto *RT=T->getAs<RecordType>()){
    auto *RD=RT->getDecl(); std::string n=RD->getNameAsString();
    if(auto *S=dyn_cast<ClassTemplateSpecializationDecl>(RD)){
      if(depth>3) return n+"<..>";
      n+="<"; bool first=true;
      for(auto &A:S->getTemplateArgs().asArray()){ if(!first)n+=","; first=false;
        if(A.getKind()==TemplateArgument::Type){ std::string s=shortT(A.getAsType(),depth+1); n+=s; }
        else if(A.getKind()==TemplateArgument::Integral) n+=std::to_string(A.getAsIntegral().getExtValue());
        else if(A.getKind()==TemplateArgument::Pack){ n+="["; bool f2=true; for(auto&P:A.pack_elements()){ if(!f2)n+=","; f2=false; if(P.getKind()==TemplateArgument::Type) n+=shortT(P.getAsType(),depth+1); else n+="?";} n+="]"; }
        else n+="?"; }
      n+=">";
    }
    return n;
  }
  return T.getAsString();
}
struct V : RecursiveASTVisitor<V> {
  ASTContext &C; SourceManager &SM; int shown=0, shownTry=0, shownMp=0;
  V(ASTContext &c):C(c),SM(c.getSourceManager()){}
  bool shouldVisitTemplateInstantiations() const { return true; }
  bool VisitFunctionDecl(FunctionDecl *F){
    if(!F->doesThisDeclarationHaveABody()||F->isDependentContext()) return true;
    if(!F->getDeclName().isIdentifier()) return true;
    StringRef n=F->getName();
    if(n=="init_event_base_case" && shown<6){ shown++;
      llvm::outs()<<"init_event_base_case: Transition="<<shortT(F->getParamDecl(0)->getType().getNonReferenceType())<<"\n"; }
    if((n=="do_process_helper"||n=="process_completion_transition") && shownTry<3){
      struct T: RecursiveASTVisitor<T>{ int tries=0; std::vector<std::string> out; ASTContext&C; T(ASTContext&c):C(c){}
        bool VisitCXXTryStmt(CXXTryStmt*S){ tries++; for(unsigned i=0;i<S->getNumHandlers();i++){ auto*H=S->getHandler(i); out.push_back(H->getCaughtType().isNull()?"...":H->getCaughtType().getAsString()); } return true; }
        bool VisitVarDecl(VarDecl*D){ if(D->isLocalVarDecl()&&!D->hasInit()) out.push_back("uninit-local:"+D->getNameAsString()+":"+D->getType().getAsString()); return true; } } t(C);
      t.TraverseStmt(F->getBody());
      if(t.tries){ shownTry++; llvm::outs()<<n<<" tries="<<t.tries; for(auto&s:t.out) llvm::outs()<<" ["<<s<<"]"; llvm::outs()<<"\n"; }
    }
    return true;
  }
  bool VisitClassTemplateSpecializationDecl(ClassTemplateSpecializationDecl *D){
    if(D->getName()=="transition_chain" && shownMp<3 && D->isCompleteDefinition()){ shownMp++; llvm::outs()<<"SPEC "<<shortT(C.getRecordType(D))<<"\n"; }
    return true;
  }
};
struct Cn : ASTConsumer { void HandleTranslationUnit(ASTContext &C) override { V v(C); v.TraverseDecl(C.getTranslationUnitDecl()); } };
struct A : ASTFrontendAction { std::unique_ptr<ASTConsumer> CreateASTConsumer(CompilerInstance&,StringRef) override { return std::make_unique<Cn>(); } };
int main(int argc,const char**argv){ auto P=CommonOptionsParser::create(argc,argv,Cat); ClangTool T(P->getCompilations(),P->getSourcePathList()); return T.run(newFrontendActionFactory<A>().get()); }
