#!/usr/bin/env python3
"""Runs every claimed property check against every seeded change in /verif/seeded/*/patch.diff (applied to a scratch copy of
/repo, never to /repo itself) and records which checks report it in seeded/<id>/meta.json (detected_by)."""
import json, os, shutil, subprocess, sys, tempfile, glob
VERIF = os.path.dirname(os.path.dirname(os.path.abspath(__file__)))
sys.path.insert(0, os.path.join(VERIF, 'checks'))
import props
def main():
    sel = sys.argv[1:]
    rows = []
    for d in sorted(glob.glob(os.path.join(VERIF, 'seeded', '*'))):
        sid = os.path.basename(d)
        if sel and sid not in sel and not any(s.endswith('*') and sid.startswith(s[:-1]) for s in sel): continue
        meta = json.load(open(d + '/meta.json'))
        t = tempfile.mkdtemp(prefix='msm_seed_')
        try:
            shutil.copytree('/repo/include', t + '/include'); shutil.copytree('/repo/test', t + '/test')
            r = subprocess.run(['patch', '-p1', '-s', '-d', t, '-i', d + '/patch.diff'], stdout=subprocess.PIPE, stderr=subprocess.STDOUT, text=True)
            if r.returncode != 0:
                print(sid, 'PATCH DOES NOT APPLY (tree changed?)', r.stdout[:200]); continue
            env = dict(os.environ, MSM_REPO=t, VERIF_EVIDENCE_DIR=t + '/evidence')
            det = []; broken = []
            def one(p):
                return p, subprocess.run([os.path.join(VERIF, 'check'), p], env=env, stdout=subprocess.PIPE, stderr=subprocess.STDOUT, text=True)
            # the target property's check first (it extracts the facts of the scratch copy), then the others, a few at a time
            from concurrent.futures import ThreadPoolExecutor
            first = meta['property'] if meta['property'] in props.PROPS else sorted(props.PROPS)[0]
            res = [one(first)]
            with ThreadPoolExecutor(max_workers=int(os.environ.get('SEED_PAR', '4'))) as ex:
                res += list(ex.map(one, [p for p in sorted(props.PROPS) if p != first]))
            for p, r in sorted(res):
                if r.returncode == 1:
                    rules = sorted({l.split(': rule ')[1].split(' ')[0] for l in r.stdout.splitlines() if ': rule ' in l})
                    det.append({'property': p, 'rules': rules})
                elif r.returncode != 0: broken.append(p)
            meta['detected_by'] = det
            meta['analysis_broken'] = broken
            json.dump(meta, open(d + '/meta.json', 'w'), indent=1)
            own = [x for x in det if x['property'] == meta['property']]
            print('%-8s target=%s  own-check=%s  all=%s %s' % (sid, meta['property'], 'HIT ' + ','.join(own[0]['rules']) if own else 'miss', [x['property'] for x in det], ('BROKEN ' + str(broken)) if broken else ''))
        finally:
            shutil.rmtree(t, ignore_errors=True)
main()
