"""Seeded edits used by run_mutants.py.  edits: (file relative to the repo root, old text, new text)."""
B = 'include/boost/msm/back/state_machine.hpp'
B11 = 'include/boost/msm/back11/state_machine.hpp'
MP = 'include/boost/msm/backmp11/detail/state_machine_base.hpp'
MPT = 'include/boost/msm/backmp11/detail/transition_table.hpp'
MUTANTS = [
 dict(name='mask-back-chain', prop='C01', rule='C01.mask', edits=[('include/boost/msm/back/dispatch_table.hpp',
      'if (!(res & (HANDLED_TRUE | HANDLED_DEFERRED)))', 'if (HANDLED_TRUE!=res && HANDLED_DEFERRED!=res)')]),
 dict(name='assign-mp11-completion', prop='C12', rule='C12.assign', edits=[(MP, 'process_result result = process_result::HANDLED_FALSE;\n#ifndef', 'process_result result;\n#ifndef')]),
 dict(name='order-back11-a_row-exit-dropped', prop='C02', rule='C02.order', edits=[(B11,
      '''            // no need to check the guard condition
            // first call the exit method of the current state
            execute_exit<current_state_type>
                (::boost::fusion::at_key<current_state_type>(fsm.m_substate_list),evt,fsm);
''', '''            // no need to check the guard condition
''')]),
 dict(name='slots-mp11-swap', prop='C19', rule='C19.slots', edits=[(MPT, '''            state_id = active_state_switching::after_exit(current_state_id,
                                                          next_state_id);''', '''            state_id = active_state_switching::after_action(current_state_id,
                                                          next_state_id);''')]),
 dict(name='exit-active-mp11-removed', prop='C09', rule='C09.exit-active', edits=[(MPT, '''                if (!is_exit_state_active)
                {
                    return process_result::HANDLED_FALSE;
                }''', '''                (void)is_exit_state_active;''')]),
 dict(name='internal-back-irow-writes-state', prop='C02', rule='C02.internal', edits=[(B, '''            if (!check_guard(fsm,evt))
            {
                // guard rejected the event, we stay in the current one
                return HANDLED_GUARD_REJECT;
            }

            // call the action method
            HandledEnum res = ROW::action_call(fsm,evt,
                             ::boost::fusion::at_key<current_state_type>(fsm.m_substate_list),''', '''            if (!check_guard(fsm,evt))
            {
                // guard rejected the event, we stay in the current one
                return HANDLED_GUARD_REJECT;
            }
            fsm.m_states[0] = current_state;

            // call the action method
            HandledEnum res = ROW::action_call(fsm,evt,
                             ::boost::fusion::at_key<current_state_type>(fsm.m_substate_list),''')]),
 dict(name='flag-back-start-unprotected', prop='C04', rule='C04.flag', edits=[(B, '            event_processing_guard guard(m_event_processing);\n            // call on_entry on this SM\n            (static_cast<Derived*>(this))->on_entry(fsm_initial_event(),*this);', '            // call on_entry on this SM\n            (static_cast<Derived*>(this))->on_entry(fsm_initial_event(),*this);')]),
 dict(name='flag-back11-do_entry-plain', prop='C04', rule='C04.flag-exc', edits=[(B11, '''            event_processing_guard guard(m_event_processing);
            // if the event is generating a direct entry/fork, set the current state(s) to the direct state(s)
            direct_event_start_helper(this)(incomingEvent,fsm);
        }''', '''            m_event_processing = true;
            // if the event is generating a direct entry/fork, set the current state(s) to the direct state(s)
            direct_event_start_helper(this)(incomingEvent,fsm);
            m_event_processing = false;
        }''')]),
 dict(name='queue-back-push_front', prop='C04', rule='C04.queue-ops', edits=[(B, '''            // event has to be put into the queue
            m_events_queue.m_events_queue.push_back(''', '''            // event has to be put into the queue
            m_events_queue.m_events_queue.push_front(''')]),
 dict(name='flag-mp11-clear-after-pool', prop='C04', rule='C04.flag-drain', edits=[(MP, '''        m_event_processing = false;

        // After handling, look if we have more to process in the event pool
        // (but only if we're not already processing from it).
        if constexpr (event_pool_member::value)
        {
            if (info != process_info::event_pool)
            {
                process_event_pool();
            }
        }
''', '''
        // After handling, look if we have more to process in the event pool
        // (but only if we're not already processing from it).
        if constexpr (event_pool_member::value)
        {
            if (info != process_info::event_pool)
            {
                process_event_pool();
            }
        }
        m_event_processing = false;
''')]),
 dict(name='single-back-loops', prop='C04', rule='C04.dequeue', edits=[(B, '''    void execute_single_queued_event_helper(::boost::mpl::false_ const &)
    {
        transition_fct to_call = m_events_queue.m_events_queue.front();
        m_events_queue.m_events_queue.pop_front();
        to_call();
    }''', '''    void execute_single_queued_event_helper(::boost::mpl::false_ const &)
    {
        transition_fct to_call = m_events_queue.m_events_queue.front();
        to_call();
        m_events_queue.m_events_queue.pop_front();
    }''')]),
 dict(name='target-back-bind-cref', prop='C04', rule='C04.target', edits=[(B, '''                pf, this, evt,
                static_cast<EventSource>(EVENT_SOURCE_MSG_QUEUE)));''', '''                pf, this, ::boost::cref(evt),
                static_cast<EventSource>(EVENT_SOURCE_MSG_QUEUE)));''')]),

 dict(name='nt-back-without-zero-test', prop='C06', rule='C06.nt', edits=[(B, 'if ( (!is_contained() || is_direct_call) && !handled && !is_completion_event<Event>::type::value)', 'if ( (!is_contained() || is_direct_call) && !(handled & HANDLED_TRUE) && !is_completion_event<Event>::type::value)')]),
 dict(name='nt-back11-region0-id', prop='C06', rule='C06.nt', edits=[(B11, 'this->no_transition(evt,*this,this->m_states[i]);', 'this->no_transition(evt,*this,this->m_states[0]);')]),
 dict(name='or-back-overwrite', prop='C06', rule='C06.or', edits=[(B, """                    *self_, region_id::value , self_->m_states[region_id::value], evt);
                result_ = (HandledEnum)((int)result_ | (int)res);""", """                    *self_, region_id::value , self_->m_states[region_id::value], evt);
                result_ = res;""")]),
 dict(name='or-mp11-assign', prop='C06', rule='C06.or', edits=[(MP, 'result |= dispatch_table::dispatch(self(), region_id, event);', 'result = dispatch_table::dispatch(self(), region_id, event);')]),
 dict(name='regions-back-wrong-state-arg', prop='C06', rule='C06.regions', edits=[(B, '*self_, region_id::value , self_->m_states[region_id::value], evt);', '*self_, region_id::value , self_->m_states[0], evt);')]),
 dict(name='levels-mp11-eq-gate', prop='C01', rule='C01.levels', edits=[(MP, """if (!(result & handled_true_or_deferred))
        {
            result |= dispatch_table::internal_dispatch""", """if (result != process_result::HANDLED_DEFERRED)
        {
            result |= dispatch_table::internal_dispatch""")]),

 dict(name='gate-back-after-queue', prop='C11', rule='C11.gate', edits=[(B, """        // if the state machine has terminate or interrupt flags, check them, otherwise skip
        if (is_event_handling_blocked_helper<Event>
                ( ::boost::mpl::bool_<has_fsm_blocking_states<library_sm>::type::value>() ) )
        {
            return HANDLED_TRUE;
        }

        // if a message queue is needed and processing is on the way
        if (!do_pre_msg_queue_helper<Event>
                (evt,::boost::mpl::bool_<is_no_message_queue<library_sm>::type::value>()))
        {
            // wait for the end of current processing
            return HANDLED_TRUE;
        }
""", """        // if a message queue is needed and processing is on the way
        if (!do_pre_msg_queue_helper<Event>
                (evt,::boost::mpl::bool_<is_no_message_queue<library_sm>::type::value>()))
        {
            // wait for the end of current processing
            return HANDLED_TRUE;
        }
        // if the state machine has terminate or interrupt flags, check them, otherwise skip
        if (is_event_handling_blocked_helper<Event>
                ( ::boost::mpl::bool_<has_fsm_blocking_states<library_sm>::type::value>() ) )
        {
            return HANDLED_TRUE;
        }
""")]),
 dict(name='gate-mp11-no-endint', prop='C11', rule='C11.gate', edits=[(MP, """            if (is_flag_active<InterruptedFlag>() &&
                !is_end_interrupt_event(event))""", """            if (is_flag_active<InterruptedFlag>())""")]),
 dict(name='gate-back11-nondecayed', prop='C11', rule='C11.type', edits=[(B11, "if (is_event_handling_blocked_helper<typename std::decay<Event>::type>", "if (is_event_handling_blocked_helper<Event>")]),
 dict(name='catch-back-handled-true', prop='C12', rule='C12.catch', edits=[(B, """            this->exception_caught(evt,*this,e);
            return ::boost::msm::back::HANDLED_FALSE;""", """            this->exception_caught(evt,*this,e);
            return ::boost::msm::back::HANDLED_TRUE;""")]),
 dict(name='catch-mp11-no-try', prop='C12', rule='C12.catch', edits=[(MP, """            try
            {
                result = do_process_event(event, info);
            }
            catch (std::exception& e)
            {
                // give a chance to the concrete state machine to handle
                this->exception_caught(event, get_fsm_argument(), e);
                result = process_result::HANDLED_FALSE;
            }""", """            result = do_process_event(event, info);""")]),

 dict(name='flags-back-composite-false', prop='C17', rule='C17.table', edits=[(B, """            // composite => forward
            an_entry[offset] = &FlagHandler<T,Flag>::forward;""", """            // composite => forward
            an_entry[offset] = &FlagHandler<T,Flag>::flag_false;""")]),
 dict(name='flags-mp11-or-init-true', prop='C17', rule='C17.visitor', edits=[('include/boost/msm/backmp11/detail/state_visitor.hpp', """    bool m_result{false};
};
template <typename Flag>
class is_flag_active_visitor<Flag, flag_and>""", """    bool m_result{true};
};
template <typename Flag>
class is_flag_active_visitor<Flag, flag_and>""")]),
 dict(name='copy-back-missing-history', prop='C15', rule='C15.fields', edits=[(B, "         m_history = rhs.m_history;\n         m_event_processing = rhs.m_event_processing;", "         m_event_processing = rhs.m_event_processing;")]),
 dict(name='serialize-back11-missing-history', prop='C16', rule='C16.fields', edits=[(B11, "        ar & m_history;\n", "")]),

 dict(name='poolloop-mp11-no-restart', prop='C04', rule='C04.pool-loop', edits=[(MP, """            // Start from the beginning, we might be able to process
            // events that were deferred before.
            it = event_pool.events.begin();""", """            // Continue with the next event.
            it++;""")]),
 dict(name='poolloop-mp11-seq-always', prop='C05', rule='C04.pool-loop', edits=[(MP, """            if (!(*result & process_result::HANDLED_DEFERRED))
            {
                event_pool.cur_seq_cnt += 1;
            }""", """            event_pool.cur_seq_cnt += 1;""")]),
 dict(name='occurrence-mp11-no-deferral-test', prop='C05', rule='C05.before-dispatch', edits=[('include/boost/msm/backmp11/common_types.hpp', "if ((m_seq_cnt == seq_cnt) || sm.is_event_deferred(m_event))", "if (m_seq_cnt == seq_cnt)")]),
 dict(name='stamp-mp11-swapped', prop='C05', rule='C05.before-dispatch', edits=[(MP, """        const uint16_t seq_cnt = next_rtc_seq ? event_pool.cur_seq_cnt
                                              : event_pool.cur_seq_cnt - 1;""", """        const uint16_t seq_cnt = next_rtc_seq ? event_pool.cur_seq_cnt - 1
                                              : event_pool.cur_seq_cnt;""")]),
 dict(name='exit-mp11-forward-before-entry', prop='C09', rule='C09.forward', edits=[(MPT, """            target.on_entry(event, fsm);
            if constexpr (has_exit_pseudostate_be_tag<Target>::value)
            {
                // Execute the second part of the compound transition.
                target.forward_event(*sm.m_root_sm, event);
            }""", """            if constexpr (has_exit_pseudostate_be_tag<Target>::value)
            {
                // Execute the second part of the compound transition.
                target.forward_event(*sm.m_root_sm, event);
            }
            target.on_entry(event, fsm);""")]),
 dict(name='region-back11-fork-first-region', prop='C09', rule='C09.region', edits=[(B11, """                 helper_self->m_states[find_region_id<typename StateType::wrapped_entry>::region_index] = state_id;""",
      """                 helper_self->m_states[find_region_id<typename ::boost::mpl::front<typename EventType::active_state>::type::wrapped_entry>::region_index] = state_id;""")]),
 dict(name='wrap-back11-row-plain-entry', prop='C09', rule='C09.wrap', edits=[(B11, """            convert_event_and_execute_entry<next_state_type,T2>
                (::boost::fusion::at_key<next_state_type>(fsm.m_substate_list),evt,fsm);""", """            execute_entry<next_state_type>
                (::boost::fusion::at_key<next_state_type>(fsm.m_substate_list),evt,fsm);""")]),
 dict(name='seqadvance-mp11-not-for-submachine', prop='C05', rule='C05.seq-advance', edits=[(MP, """                get_event_pool().cur_seq_cnt += 1;
            }
        }
        else""", """                if (info != process_info::submachine_call) get_event_pool().cur_seq_cnt += 1;
            }
        }
        else""")]),
 dict(name='completion-arm-back11-not-from-queue', prop='C10', rule='C10.first', edits=[(B11, """eventless_helper(this,(::boost::msm::back::HANDLED_TRUE & handled));""",
      """eventless_helper(this,(::boost::msm::back::HANDLED_TRUE & handled) && !(::boost::msm::back::EVENT_SOURCE_MSG_QUEUE & source));""")]),
 dict(name='visitref-back11-composite-by-value', prop='C03', rule='C03.visit-ref', edits=[(B11, """#define MSM_COMPOSITE_ACCEPT_SUB2(z, n, unused) boost::ref( vis ## n )""", """#define MSM_COMPOSITE_ACCEPT_SUB2(z, n, unused) vis ## n""")]),
 dict(name='visitorder-mp11-reverse-regions', prop='C03', rule='C03.visit-order', edits=[('include/boost/msm/backmp11/detail/state_visitor.hpp', """                for (const auto active_state_id : sm.m_active_state_ids)
                {""", """                for (auto it = sm.m_active_state_ids.rbegin(); it != sm.m_active_state_ids.rend(); ++it)
                {
                    const auto active_state_id = *it;""")]),
 dict(name='stablesort-back11-sort', prop='C05', rule='C04.queue-ops', edits=[(B11, """                std::stable_sort(""", """                std::sort(""")]),
 dict(name='functor-and-3arg-or', prop='C14', rule='C14.functors', edits=[('include/boost/msm/front/operator.hpp', """        return (T1()(evt,fsm,state) && T2()(evt,fsm,state));""", """        return (T1()(evt,fsm,state) || T2()(evt,fsm,state));""")]),
 dict(name='functor-sequence-reversed', prop='C14', rule='C14.functors', edits=[('include/boost/msm/front/functor_row.hpp', """            mpl::for_each<Sequence,boost::msm::wrap< ::boost::mpl::placeholders::_1> >
                (Call2<EVT,FSM,SourceState,TargetState>(evt,fsm,src,tgt));""", """            mpl::for_each<typename ::boost::mpl::reverse<Sequence>::type,boost::msm::wrap< ::boost::mpl::placeholders::_1> >
                (Call2<EVT,FSM,SourceState,TargetState>(evt,fsm,src,tgt));"""),
      ('include/boost/msm/front/functor_row.hpp', "#include <boost/mpl/for_each.hpp>", "#include <boost/mpl/for_each.hpp>\n#include <boost/mpl/reverse.hpp>")]),
 dict(name='functor-call2-swapped-states', prop='C14', rule='C14.functors', edits=[('include/boost/msm/front/functor_row.hpp', """            FCT()(evt_,fsm_,src_,tgt_);""", """            FCT()(evt_,fsm_,tgt_,src_);""")]),
 dict(name='gate-back11-terminate-all-regions', prop='C11', rule='C11.gate', edits=[(B11, """        if (is_flag_active< ::boost::msm::TerminateFlag>())
            return true;""", """        if (is_flag_active< ::boost::msm::TerminateFlag, Flag_AND>())
            return true;""")]),
 dict(name='ctrlblock-heap-copy-shares-pointer', prop='C20', rule='C20.block', edits=[('include/boost/msm/backmp11/detail/basic_polymorphic.hpp', """            *static_cast<T**>(dest) = new T(*typed_src);""", """            *static_cast<T**>(dest) = const_cast<T*>(typed_src);""")]),
 dict(name='ctrlblock-inline-delete', prop='C20', rule='C20.block', edits=[('include/boost/msm/backmp11/detail/basic_polymorphic.hpp', """                static_cast<T*>(ptr)->~T();""", """                delete static_cast<T*>(ptr);""")]),
 dict(name='ctrlblock-trivial-size-of-pointer', prop='C20', rule='C20.block', edits=[('include/boost/msm/backmp11/detail/basic_polymorphic.hpp', """                                               sizeof(T), true};""", """                                               sizeof(T*), true};""")]),
 dict(name='seqproto-back11-restamp-current', prop='C05', rule='C05.seq-protocol', edits=[(B11, """                        d.second = seq+1;""", """                        d.second = seq;""")]),
 dict(name='seqproto-back-ordering-compare', prop='C05', rule='C05.seq-protocol', edits=[(B, """                if (cur_seq != pair.second)
                {
                    break;
                }""", """                if (cur_seq < pair.second)
                {
                    break;
                }""")]),
 dict(name='seqproto-back-prio-site-nonfalse', prop='C05', rule='C05.seq-protocol', edits=[(B, """                defer_helper.do_handle_deferred(HANDLED_TRUE & handled);
            }
        }
    }""", """                defer_helper.do_handle_deferred(handled != HANDLED_FALSE);
            }
        }
    }""")]),
 dict(name='config-back-exception-tag-from-queue-option', prop='C12', rule='C12.config', edits=[(B, """                ::boost::mpl::bool_<is_no_exception_thrown<library_sm>::type::value>(),""", """                ::boost::mpl::bool_<is_no_message_queue<library_sm>::type::value>(),""")]),
 dict(name='consume-back11-any-from-forward', prop='C18', rule='C18.consume', edits=[('include/boost/msm/back11/dispatch_table.hpp', """            typename Transition::transition_event forwarded(evt);""", """            typename Transition::transition_event forwarded(std::move(evt));""")]),
 dict(name='wiring-back-assign-rewires', prop='C15', rule='C07.wiring', edits=[(B, """            Derived::operator=(rhs);
            do_copy(rhs);""", """            Derived::operator=(rhs);
            fill_states(this);
            do_copy(rhs);""")]),
 dict(name='fpa-mp11-cell-by-region', prop='C13', rule='C13.fpa', edits=[('include/boost/msm/backmp11/detail/favor_runtime_speed.hpp', """                const cell_t cell = cells[state_id];""", """                const cell_t cell = cells[region_id];""")]),
 dict(name='flatfold-mp11-compare-ge', prop='C13', rule='C13.fpa', edits=[('include/boost/msm/backmp11/detail/favor_runtime_speed.hpp', """                        if (state_id == source_state_id)
                        {
                            if constexpr (!is_kleene_event<""", """                        if (state_id >= source_state_id)
                        {
                            if constexpr (!is_kleene_event<""")]),
 dict(name='chain-back-last-first', prop='C01', rule='C01.chain', edits=[('include/boost/msm/back/dispatch_table.hpp', "typedef typename ::boost::mpl::front<Sequence>::type first_row;", "typedef typename ::boost::mpl::back<Sequence>::type first_row;"),
      ('include/boost/msm/back/dispatch_table.hpp', "execute<typename ::boost::mpl::pop_front<Sequence>::type>(fsm,region_index,state,evt,", "execute<typename ::boost::mpl::pop_back<Sequence>::type>(fsm,region_index,state,evt,"),
      ('include/boost/msm/back/dispatch_table.hpp', "::boost::mpl::empty<typename ::boost::mpl::pop_front<Sequence>::type>::type::value>());", "::boost::mpl::empty<typename ::boost::mpl::pop_back<Sequence>::type>::type::value>());")]),
 dict(name='chain-mp11fct-reverse', prop='C01', rule='C01.chain', edits=[('include/boost/msm/backmp11/favor_compile_time.hpp', """            for (const generic_cell cell : m_transition_cells)
            {
                result |= reinterpret_cast<cell_t>(cell)(sm, region_id, event);""", """            for (auto it = m_transition_cells.rbegin(); it != m_transition_cells.rend(); ++it)
            {
                const generic_cell cell = *it;
                result |= reinterpret_cast<cell_t>(cell)(sm, region_id, event);""")]),
 dict(name='policysel-mp11-table-default-policy', prop='C19', rule='C19.select', edits=[(MPT, """        boost::mp11::mp_eval_or<active_state_switch_after_entry,
                                get_active_state_switch_policy, front_end_t>;""", """        boost::mp11::mp_eval_or<active_state_switch_after_entry,
                                get_active_state_switch_policy, void>;""")]),
 dict(name='visitmode-mp11-exit-recursive', prop='C02', rule='C02.visit-mode', edits=[(MP, """        // First exit the substates.
        visit<visit_mode::active_non_recursive>(""", """        // First exit the substates.
        visit<visit_mode::active_recursive>(""")]),
 dict(name='rownames-a_irow-external-tag', prop='C14', rule='C14.rows', edits=[('include/boost/msm/front/state_machine_def.hpp', """        typedef a_irow_tag row_type_tag;""", """        typedef a_row_tag row_type_tag;""")]),
 dict(name='serialize-back-states-as-binary-object', prop='C16', rule='C16.fields', edits=[(B, """        ar & m_states;""", """        ar & ::boost::serialization::make_binary_object(m_states, nr_regions::value);"""), (B, "#include <boost/serialization/base_object.hpp>", "#include <boost/serialization/base_object.hpp>\n#include <boost/serialization/binary_object.hpp>")]),
 dict(name='target-back-kleene-defer-probe', prop='C05', rule='C04.target', edits=[(B, """boost::any_cast<Event>(m_event)""", """ev""")]),
 dict(name='explicit-mp11-no-history-skip', prop='C09', rule='C09.entry', edits=[(MP, """        if constexpr (!all_regions_defined)
        {
            m_history.on_entry(self(), event);
        }""", """        if constexpr (!all_regions_defined && !std::is_same_v<typename front_end_t::history, front::no_history>)
        {
            m_history.on_entry(self(), event);
        }""")]),
 dict(name='revert-d14-back11-deferred-key-with-cv', prop='C18', rule='C18.cv-key', edits=[('include/boost/msm/back11/metafunctions.hpp', """    typedef typename ::boost::mpl::find<typename State::deferred_events,
                                        typename ::boost::remove_cv<Event>::type>::type found;""", """    typedef typename ::boost::mpl::find<typename State::deferred_events,Event>::type found;""")]),
 dict(name='revert-d14-reported-by-C05', prop='C05', rule='C05.default-cell', edits=[('include/boost/msm/back11/metafunctions.hpp', """    typedef typename ::boost::mpl::find<typename State::deferred_events,
                                        typename ::boost::remove_cv<Event>::type>::type found;""", """    typedef typename ::boost::mpl::find<typename State::deferred_events,Event>::type found;""")]),
 dict(name='revert-d15-back11-internal-table11', prop='C01', rule='C01.plan', edits=[('include/boost/msm/back11/metafunctions.hpp', """    typedef typename ::boost::fusion::result_of::as_vector<typename StateType::internal_transition_table>::type composite_table;""", """    typedef typename StateType::internal_transition_table11 composite_table;"""),
      ('include/boost/msm/back11/metafunctions.hpp', """    typedef typename ::boost::fusion::result_of::as_vector<typename StateType::internal_transition_table>::type type;""", """    typedef typename StateType::internal_transition_table11 type;""")]),
 dict(name='revert-d22-mp11-deferring-sequence', prop='C05', rule='C05.defer-result', edits=[(MPT, """        return is_deferring_functor<Functor>() ? process_result::HANDLED_DEFERRED
                                               : process_result::HANDLED_TRUE;""", """        return process_result::HANDLED_TRUE;""")]),
 dict(name='revert-d16-back-internal-gate-exact', prop='C18', rule='C18.internal-gate', edits=[(B, """        typedef typename ::boost::mpl::not_< ::boost::is_same<
            typename ::boost::mpl::find_if<
                processable_events_internal_table,
                ::boost::mpl::or_<
                    ::boost::is_base_of< ::boost::mpl::placeholders::_1, Event >,
                    ::boost::msm::is_kleene_event< ::boost::mpl::placeholders::_1> > >::type,
            typename ::boost::mpl::end<processable_events_internal_table>::type> >::type is_event_processable;""", """        typedef typename ::boost::mpl::has_key<processable_events_internal_table,Event>::type is_event_processable;""")]),
 dict(name='revert-d17-back-exit-pt-base-not-assigned', prop='C15', rule='C15.fields', edits=[(B, """            ExitPoint::operator=(rhs);
            return *this;""", """            return *this;""")]),
 dict(name='revert-d23-mp11-explicit-entry-list-order', prop='C10', rule='C10.region-count', edits=[(MP, """        state_entry_visitor<Event> visitor{self(), event};
        visit<visit_mode::active_non_recursive>(visitor);

        postprocess_entry();""", """        state_entry_visitor<Event> visitor{self(), event};
        if constexpr (all_regions_defined)
        {
            mp11::mp_for_each<state_identities>(
                [this, &visitor](auto state_identity)
                {
                    using State = typename decltype(state_identity)::type;
                    auto& state = this->get_state<State>();
                    visitor(state);
                });
        }
        else
        {
            visit<visit_mode::active_non_recursive>(visitor);
        }

        postprocess_entry();""")]),
 dict(name='revert-d24-back-own-entry-gets-wrapper', prop='C09', rule='C09.entry', edits=[(B, """             (static_cast<Derived*>(self))->on_entry(evt.m_event,fsm);
             int state_id = get_state_id<stt,typename EventType::active_state::wrapped_entry>::value;""", """             (static_cast<Derived*>(self))->on_entry(evt,fsm);
             int state_id = get_state_id<stt,typename EventType::active_state::wrapped_entry>::value;""")]),
 dict(name='refactor-gate-local-nonconst', prop='C11', refactor=True, edits=[(B, """        if (is_event_handling_blocked_helper<Event>
                ( ::boost::mpl::bool_<has_fsm_blocking_states<library_sm>::type::value>() ) )
        {
            return HANDLED_TRUE;
        }""", """        bool blocked = is_event_handling_blocked_helper<Event>
                ( ::boost::mpl::bool_<has_fsm_blocking_states<library_sm>::type::value>() );
        if (blocked)
        {
            return HANDLED_TRUE;
        }""")]),
 dict(name='revert-d25-fct-end-events-own-table-only', prop='C11', rule='C11.end-events', edits=[('include/boost/msm/backmp11/favor_compile_time.hpp', """        using event_set = mp11::mp_set_union<
            generate_event_set<
                typename StateMachine::front_end_t::transition_table>,
            mp11::mp_apply<
                mp11::mp_append,
                mp11::mp_transform<
                    end_interrupt_events,
                    typename StateMachine::internal::state_set>>>;""", """        using event_set = generate_event_set<
            typename StateMachine::front_end_t::transition_table>;""")]),
 dict(name='fct-gcc-branch-skips-first-row', prop='C01', rule='C01.plan', edits=[('include/boost/msm/backmp11/favor_compile_time.hpp', """#if defined(__GNUC__) && !defined(__clang__)
                mp11::mp_for_each<init_cell_constants>(""", """#if defined(__GNUC__) && !defined(__clang__)
                mp11::mp_for_each<mp11::mp_pop_front<init_cell_constants>>(""")]),
 dict(name='fct-gcc-branch-wrong-chain', prop='C01', rule='C01.plan', edits=[('include/boost/msm/backmp11/favor_compile_time.hpp', """                        m_state_dispatch_tables[constant.value.state_id].add_transition_cell(constant.value);""", """                        m_state_dispatch_tables[0].add_transition_cell(constant.value);""")]),
 dict(name='fct-clang-branch-reversed', prop='C01', rule='C01.plan', edits=[('include/boost/msm/backmp11/favor_compile_time.hpp', """                value_array<init_cell_constants> value_array;
                for (const init_cell_value& value: value_array.value)""", """                value_array<mp11::mp_reverse<init_cell_constants>> value_array;
                for (const init_cell_value& value: value_array.value)""")]),
 dict(name='revert-d26-mp11-pool-reset-after-own-entry', prop='C04', rule='C04.pool-reset', edits=[(MP, """        m_history.reset_event_pool(self(), event);
        preprocess_entry(event, fsm);

        state_entry_visitor<Event> visitor{self(), event};""", """        preprocess_entry(event, fsm);
        m_history.reset_event_pool(self(), event);

        state_entry_visitor<Event> visitor{self(), event};""")]),
 dict(name='revert-d29-back-raw-stamp-order', prop='C05', rule='C05.seq-order', edits=[(B, """                return static_cast<signed char>(d1.second - d2.second) > 0;""", """                return d1.second > d2.second;""")]),
 dict(name='revert-d31-mp11-pool-limit-before-seq-advance', prop='C04', rule='C04.pool-loop', edits=[(MP, """            if (!(*result & process_result::HANDLED_DEFERRED))
            {
                event_pool.cur_seq_cnt += 1;
            }

            // Consider anything except "only deferred" to be a processed event.
            if (*result != process_result::HANDLED_DEFERRED)
            {
                processed_events++;
                // Stop at the limit, but not while a completion transition
                // of the step just taken is pending: it fires before any
                // other event is dispatched (UML Standard 2.3 15.3.14).
                if (processed_events >= max_events &&
                    !completion_pending(event_pool))
                {
                    break;
                }
            }
""", """            // Consider anything except "only deferred" to be a processed event.
            if (*result != process_result::HANDLED_DEFERRED)
            {
                processed_events++;
                // Stop at the limit, but not while a completion transition
                // of the step just taken is pending: it fires before any
                // other event is dispatched (UML Standard 2.3 15.3.14).
                if (processed_events >= max_events &&
                    !completion_pending(event_pool))
                {
                    break;
                }
            }
            if (!(*result & process_result::HANDLED_DEFERRED))
            {
                event_pool.cur_seq_cnt += 1;
            }
""")]),
 dict(name='refactor-back11-msgq-functor-by-value', prop='C04', refactor=True, edits=[(B11, """    template <class StateType,class EventType>
    bool do_pre_msg_queue_helper(EventType const& evt, ::boost::mpl::false_ const &)
    {
        ::boost::msm::back::execute_return (library_sm::*pf) (EventType&, ::boost::msm::back::EventSource) =
            &library_sm::process_event_internal;

        // if we are already processing an event
        if (m_event_processing)
        {
            // event has to be put into the queue
            m_events_queue.m_events_queue.push_back(
                ::boost::bind(
                    pf, this, evt,
                    static_cast<::boost::msm::back::EventSource>(::boost::msm::back::EVENT_SOURCE_DIRECT | ::boost::msm::back::EVENT_SOURCE_MSG_QUEUE)));
""", """    // an event waiting in the message queue for the end of the current processing (holds its own copy)
    template <class EventType>
    struct queued_event
    {
        ::boost::msm::back::execute_return operator()()
        {
            return m_fsm->process_event_internal(
                m_evt,
                static_cast<::boost::msm::back::EventSource>(::boost::msm::back::EVENT_SOURCE_DIRECT | ::boost::msm::back::EVENT_SOURCE_MSG_QUEUE));
        }
        library_sm* m_fsm;
        EventType   m_evt;
    };
    template <class StateType,class EventType>
    bool do_pre_msg_queue_helper(EventType const& evt, ::boost::mpl::false_ const &)
    {
        // if we are already processing an event
        if (m_event_processing)
        {
            // event has to be put into the queue
            m_events_queue.m_events_queue.push_back(queued_event<EventType>{this, evt});
""")]),
 dict(name='revert-d32-puml-keyword-first-occurrence', prop='C14', rule='C14.puml', edits=[('include/boost/msm/front/puml/puml.hpp', """            constexpr auto flag_pos = find_line_keyword(stt(), "flag");""", """            constexpr auto flag_pos = stt().find("flag");""")]),
 dict(name='puml-guard-and-before-or', prop='C14', rule='C14.puml', edits=[('include/boost/msm/front/puml/puml.hpp', """            if constexpr (or_pos != std::string::npos)
            {
                return boost::msm::front::Or_<
                    decltype(boost::msm::front::puml::detail::parse_guard_simple(
                        [=]() {return boost::msm::front::puml::detail::cleanup_token(guard_func().substr(0, or_pos)); })),
                    decltype(boost::msm::front::puml::detail::parse_guard_simple(
                        [=]() {return boost::msm::front::puml::detail::cleanup_token(guard_func().substr(or_pos + 2)); })) > {};
            }
            else if constexpr (and_pos != std::string::npos)""", """            if constexpr (or_pos != std::string::npos && (and_pos == std::string::npos || or_pos < and_pos))
            {
                return boost::msm::front::Or_<
                    decltype(boost::msm::front::puml::detail::parse_guard_simple(
                        [=]() {return boost::msm::front::puml::detail::cleanup_token(guard_func().substr(0, or_pos)); })),
                    decltype(boost::msm::front::puml::detail::parse_guard_simple(
                        [=]() {return boost::msm::front::puml::detail::cleanup_token(guard_func().substr(or_pos + 2)); })) > {};
            }
            else if constexpr (and_pos != std::string::npos)""")]),
 dict(name='revert-d34-back-kleene-matches-completion', prop='C18', rule='C01.plan', edits=[('include/boost/msm/back/dispatch_table.hpp', """                                    ::boost::mpl::and_<
                                        ::boost::msm::is_kleene_event<transition_event< ::boost::mpl::placeholders::_> >,
                                        ::boost::mpl::not_<typename is_completion_event<Event>::type>
                                        >""", """                                    ::boost::msm::is_kleene_event<transition_event< ::boost::mpl::placeholders::_> >""")]),
 dict(name='revert-d20-puml-terminate-suffix', prop='C14', rule='C14.puml', edits=[('include/boost/msm/front/puml/puml.hpp', """cleanup_token(stt().substr(endl_before_pos + 1, arrow_pos - endl_before_pos - 1)) == state_name())""", """cleanup_token(stt().substr(state_pos, arrow_pos - state_pos)) == state_name())""")]),
 dict(name='flagfold-back11-early-break', prop='C17', rule='C17.pure', edits=[(B11, """            res = typename BinaryOp::type() (res,(*flags_entries[ m_states[i] ])(*this));""", """            res = typename BinaryOp::type() (res,(*flags_entries[ m_states[i] ])(*this));
            if (res) break;""")]),
 dict(name='regions-back11-early-return', prop='C06', rule='C06.regions', edits=[(B11, """                result_ = (::boost::msm::back::HandledEnum)((int)result_ | (int)res);
                In< ::boost::mpl::int_<region_id::value+1> >::process(evt,self_,result_);""", """                result_ = (::boost::msm::back::HandledEnum)((int)result_ | (int)res);
                if (self_->template is_flag_active< ::boost::msm::TerminateFlag>()) return;
                In< ::boost::mpl::int_<region_id::value+1> >::process(evt,self_,result_);""")]),
 dict(name='rowwrap-internal-guard-source-twice', prop='C14', rule='C14.wrap', edits=[('include/boost/msm/front/functor_row.hpp', """            return Guard()(evt,fsm,src,tgt);""", """            return Guard()(evt,fsm,src,src);""")]),
 # ---- behaviour-preserving edits: the checks must stay silent
 dict(name='refactor-rename-local', prop='C02', refactor=True, edits=[(B, """            HandledEnum res = ROW::action_call(fsm,evt,
                             ::boost::fusion::at_key<current_state_type>(fsm.m_substate_list),
                             ::boost::fusion::at_key<next_state_type>(fsm.m_substate_list),
                             fsm.m_substate_list);
            fsm.m_states[region_index] = active_state_switching::after_action(current_state,next_state);

            // and finally the entry method of the new current state
            convert_event_and_execute_entry<next_state_type,T2>
                (::boost::fusion::at_key<next_state_type>(fsm.m_substate_list),evt,fsm);
            fsm.m_states[region_index] = active_state_switching::after_entry(current_state,next_state);
            return res;""", """            HandledEnum action_result = ROW::action_call(fsm,evt,
                             ::boost::fusion::at_key<current_state_type>(fsm.m_substate_list),
                             ::boost::fusion::at_key<next_state_type>(fsm.m_substate_list),
                             fsm.m_substate_list);
            fsm.m_states[region_index] = active_state_switching::after_action(current_state,next_state);

            // and finally the entry method of the new current state
            convert_event_and_execute_entry<next_state_type,T2>
                (::boost::fusion::at_key<next_state_type>(fsm.m_substate_list),evt,fsm);
            fsm.m_states[region_index] = active_state_switching::after_entry(current_state,next_state);
            return action_result;""")]),
 dict(name='refactor-gate-local', prop='C11', refactor=True, edits=[(B, """        if (is_event_handling_blocked_helper<Event>
                ( ::boost::mpl::bool_<has_fsm_blocking_states<library_sm>::type::value>() ) )
        {
            return HANDLED_TRUE;
        }""", """        const bool blocked = is_event_handling_blocked_helper<Event>
                ( ::boost::mpl::bool_<has_fsm_blocking_states<library_sm>::type::value>() );
        if (blocked)
        {
            return HANDLED_TRUE;
        }""")]),
 dict(name='refactor-nt-while-loop', prop='C06', refactor=True, edits=[(B, """            for (int i=0; i<nr_regions::value;++i)
            {
                this->no_transition(evt,*this,this->m_states[i]);
            }""", """            int i = 0;
            while (i < nr_regions::value)
            {
                this->no_transition(evt,*this,this->m_states[i]);
                ++i;
            }""")]),
 dict(name='refactor-copy-reorder', prop='C15', refactor=True, edits=[(B, """         m_history = rhs.m_history;
         m_event_processing = rhs.m_event_processing;""", """         m_event_processing = rhs.m_event_processing;
         m_history = rhs.m_history;""")]),
 dict(name='refactor-mask-eq-zero', prop='C01', refactor=True, edits=[('include/boost/msm/back/dispatch_table.hpp', "if (!(res & (HANDLED_TRUE | HANDLED_DEFERRED)))", "if ((res & (HANDLED_TRUE | HANDLED_DEFERRED)) == 0)")]),
 dict(name='refactor-flag-helper-inline', prop='C04', refactor=True, edits=[(B, """            do_allow_event_processing_after_transition(
                ::boost::mpl::bool_<is_no_message_queue<library_sm>::type::value>());""", """            // flag handling inlined
            if (!is_no_message_queue<library_sm>::type::value) { m_event_processing = false; }""")]),
 dict(name='refactor-visit-index-loop', prop='C03', refactor=True, edits=[('include/boost/msm/backmp11/detail/state_visitor.hpp', """                for (const auto active_state_id : sm.m_active_state_ids)
                {""", """                for (size_t region = 0; region < sm.m_active_state_ids.size(); ++region)
                {
                    const auto active_state_id = sm.m_active_state_ids[region];""")]),
 dict(name='refactor-completion-arm-local', prop='C10', refactor=True, edits=[(B, """                eventless_helper(this,(HANDLED_TRUE & handled));""", """                eventless_helper(this,step_handled);"""),
      (B, """            // Process completion transitions BEFORE any other event in the
            // pool (UML Standard 2.3 15.3.14)
            handle_eventless_transitions_helper<library_sm>""", """            const bool step_handled = (handled & HANDLED_TRUE) != 0;
            handle_eventless_transitions_helper<library_sm>""")]),
 dict(name='refactor-defer-stamp-local', prop='C05', refactor=True, edits=[(B, """        m_deferred_events_queue.m_deferred_events_queue.push_back(
            std::make_pair(
                ::boost::bind(
                    pf, this, e, static_cast<EventSource>(EVENT_SOURCE_DIRECT|EVENT_SOURCE_DEFERRED)),
                static_cast<char>(m_deferred_events_queue.m_cur_seq+1)));""", """        const char next_seq = static_cast<char>(m_deferred_events_queue.m_cur_seq+1);
        m_deferred_events_queue.m_deferred_events_queue.push_back(
            std::make_pair(
                ::boost::bind(
                    pf, this, e, static_cast<EventSource>(EVENT_SOURCE_DIRECT|EVENT_SOURCE_DEFERRED)),
                next_seq));""")]),
 dict(name='refactor-or-functor-local', prop='C14', refactor=True, edits=[('include/boost/msm/front/operator.hpp', """        return (T1()(evt,fsm,src,tgt) || T2()(evt,fsm,src,tgt));""", """        const bool first = T1()(evt,fsm,src,tgt);
        return (first || T2()(evt,fsm,src,tgt));""")]),
 dict(name='refactor-exit-pt-assign-via-static-cast', prop='C15', refactor=True, edits=[(B, """            ExitPoint::operator=(rhs);
            return *this;""", """            static_cast<ExitPoint&>(*this) = rhs;
            return *this;""")]),
 dict(name='refactor-msgq-push-helper', prop='C04', refactor=True, edits=[(B, """    template <class EventType>
    void enqueue_event_helper(EventType const& evt, ::boost::mpl::false_ const &)
    {
        execute_return (library_sm::*pf) (EventType const&, EventSource) =
            &library_sm::process_event_internal;

        m_events_queue.m_events_queue.push_back(
            ::boost::bind(
                pf, this, evt,
                static_cast<EventSource>(EVENT_SOURCE_MSG_QUEUE)));
    }""", """    template <class Callable>
    void push_to_message_queue(Callable const& c)
    {
        m_events_queue.m_events_queue.push_back(c);
    }
    template <class EventType>
    void enqueue_event_helper(EventType const& evt, ::boost::mpl::false_ const &)
    {
        execute_return (library_sm::*pf) (EventType const&, EventSource) =
            &library_sm::process_event_internal;

        push_to_message_queue(
            ::boost::bind(
                pf, this, evt,
                static_cast<EventSource>(EVENT_SOURCE_MSG_QUEUE)));
    }""")]),
 # ---- continuation session (rounds 14-15)
 dict(name='chain-stop-back-deferred-dropped', prop='C01', rule='C01.chain', edits=[('include/boost/msm/back/dispatch_table.hpp',
      'if (!(res & (HANDLED_TRUE | HANDLED_DEFERRED)))', 'if (!(res & HANDLED_TRUE))')]),
 dict(name='exit-pt-assign-defaulted-back', prop='C15', rule='C15.keep', edits=[(B, """            ExitPoint::operator=(rhs);
            return *this;""", """            ExitPoint::operator=(rhs);
            m_forward = rhs.m_forward;
            return *this;""")]),
 dict(name='completion-arm-not-deferred-back', prop='C10', rule='C10.first', edits=[(B, "eventless_helper(this,(HANDLED_TRUE & handled));", "eventless_helper(this,(HANDLED_TRUE & handled) && !(HANDLED_DEFERRED & handled));")]),
 dict(name='pool-limit-plain-break', prop='C10', rule='C10.pool-limit', edits=[(MP, """                if (processed_events >= max_events &&
                    !completion_pending(event_pool))""", """                if (processed_events >= max_events)""")]),
 dict(name='pool-limit-mark-dropped', prop='C10', rule='C10.pool-limit', edits=[(MP, ": event_occurrence(&try_process, true), m_region_id(region_id)", ": event_occurrence(&try_process), m_region_id(region_id)")]),
 dict(name='copy-ctor-not-a-copy-ctor-back', prop='C15', rule='C15.copy-ctor', edits=[(B, """     state_machine(library_sm const& rhs)
         : Derived(rhs)
""", """     template <class Other, class = typename ::boost::enable_if< ::boost::is_same<Other,library_sm> >::type>
     state_machine(Other const& rhs, int /*deep copy*/)
         : Derived(rhs)
""")]),
 dict(name='refactor-chain-stop-split-tests', prop='C01', refactor=True, edits=[('include/boost/msm/back/dispatch_table.hpp',
      'if (!(res & (HANDLED_TRUE | HANDLED_DEFERRED)))', 'if (!(res & HANDLED_TRUE) && !(res & HANDLED_DEFERRED))'),
      ('include/boost/msm/back11/dispatch_table.hpp', 'if (!(res & (::boost::msm::back::HANDLED_TRUE | ::boost::msm::back::HANDLED_DEFERRED)))',
       'if (!(res & ::boost::msm::back::HANDLED_TRUE) && !(res & ::boost::msm::back::HANDLED_DEFERRED))')]),
 dict(name='refactor-pool-limit-helper-renamed', prop='C10', refactor=True, count=10, edits=[(MP, 'completion_pending', 'has_unprocessed_completion')]),
 dict(name='refactor-exit-pt-assign-self-test', prop='C15', refactor=True, edits=[(B, """            ExitPoint::operator=(rhs);
            return *this;""", """            if (this != &rhs)
            {
                ExitPoint::operator=(rhs);
            }
            return *this;"""), (B11, """            ExitPoint::operator=(rhs);
            return *this;""", """            if (this != &rhs)
            {
                ExitPoint::operator=(rhs);
            }
            return *this;""")]),
 dict(name='refactor-completion-arm-compare-false', prop='C10', refactor=True, edits=[(B, "eventless_helper(this,(HANDLED_TRUE & handled));", "eventless_helper(this,(HANDLED_TRUE & handled) != HANDLED_FALSE);"),
      (B11, "eventless_helper(this,(::boost::msm::back::HANDLED_TRUE & handled));", "eventless_helper(this,(::boost::msm::back::HANDLED_TRUE & handled) != ::boost::msm::back::HANDLED_FALSE);")]),
]
