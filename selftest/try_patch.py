#!/usr/bin/env python3
"""try_patch.py <patch.diff> [prop ...] : apply a patch to a scratch copy of /repo (include + test), run the property
checks against the copy and print which ones report a violation.  Nothing in /repo is touched."""
import os, shutil, subprocess, sys, tempfile, json
VERIF = os.path.dirname(os.path.dirname(os.path.abspath(__file__)))
sys.path.insert(0, os.path.join(VERIF, 'checks'))
def main():
    patch = os.path.abspath(sys.argv[1]); tier = os.environ.get('VERIF_TIER', 'quick')
    import props
    sel = sys.argv[2:] or sorted(props.PROPS)
    d = tempfile.mkdtemp(prefix='msm_try_')
    try:
        shutil.copytree('/repo/include', d + '/include'); shutil.copytree('/repo/test', d + '/test')
        r = subprocess.run(['patch', '-p1', '-s', '-d', d, '-i', patch], stdout=subprocess.PIPE, stderr=subprocess.STDOUT, text=True)
        if r.returncode != 0: print('patch failed:', r.stdout); return 2
        env = dict(os.environ, MSM_REPO=d, VERIF_EVIDENCE_DIR=d + '/evidence')
        res = {}
        for p in sel:
            r = subprocess.run([os.path.join(VERIF, 'check'), p, '--tier', tier], env=env, stdout=subprocess.PIPE, stderr=subprocess.STDOUT, text=True)
            res[p] = r.returncode
            if r.returncode != 0:
                lines = [l for l in r.stdout.splitlines() if ': rule ' in l or 'ANALYSIS-BROKEN' in l]
                print('%s rc=%d' % (p, r.returncode))
                for l in lines[:6]: print('    ' + l[:400])
        print('fired:', [p for p, rc in res.items() if rc == 1], 'broken:', [p for p, rc in res.items() if rc == 2], 'silent:', [p for p, rc in res.items() if rc == 0])
    finally:
        shutil.rmtree(d, ignore_errors=True)
main()
