#!/usr/bin/env python3
"""Self-test of the checker (not a registered check): applies each behaviour-breaking, still-compiling
edit of selftest/mutants.py to a scratch copy of /repo (include + test), runs the named property check
against the copy (MSM_REPO) and requires exit 1 with the expected rule in the report; 'refactor' entries
are behaviour-preserving edits that must stay silent (exit 0).  Scratch copies are removed afterwards."""
import os, shutil, subprocess, sys, tempfile, importlib.util
HERE = os.path.dirname(os.path.abspath(__file__)); VERIF = os.path.dirname(HERE)
spec = importlib.util.spec_from_file_location('mutants', os.path.join(HERE, 'mutants.py')); M = importlib.util.module_from_spec(spec); spec.loader.exec_module(M)

def run(m, tier='quick'):
    d = tempfile.mkdtemp(prefix='msm_mut_')
    try:
        shutil.copytree('/repo/include', d + '/include'); shutil.copytree('/repo/test', d + '/test')
        for (file, old, new) in m['edits']:
            p = os.path.join(d, file); s = open(p).read()
            if s.count(old) < 1: return 'STALE', 'pattern not found in ' + file
            s = s.replace(old, new, m.get('count', 1)); open(p, 'w').write(s)
        env = dict(os.environ, MSM_REPO=d, VERIF_EVIDENCE_DIR=d + '/evidence')
        if m.get('refactor'):
            sys.path.insert(0, os.path.join(VERIF, 'checks'))
            import props
            bad = []
            for p in sorted(props.PROPS):
                r = subprocess.run([os.path.join(VERIF, 'check'), p, '--tier', tier], env=env, stdout=subprocess.PIPE, stderr=subprocess.STDOUT, text=True)
                if r.returncode != 0: bad.append('%s rc=%d: %s' % (p, r.returncode, ' | '.join(l for l in r.stdout.splitlines() if ': rule ' in l or 'BROKEN' in l)[:600]))
            return ('OK' if not bad else 'FALSE-ALARM'), '\n'.join(bad)
        r = subprocess.run([os.path.join(VERIF, 'check'), m['prop'], '--tier', tier], env=env, stdout=subprocess.PIPE, stderr=subprocess.STDOUT, text=True)
        out = r.stdout
        hit = r.returncode == 1 and ('rule ' + m['rule']) in out
        return ('OK' if hit else 'MISSED(rc=%d)' % r.returncode), out[-1500:]
    finally:
        shutil.rmtree(d, ignore_errors=True)

def main():
    sel = sys.argv[1:]
    bad = 0
    for m in M.MUTANTS:
        if sel and not any(s in m['name'] for s in sel): continue
        st, out = run(m)
        print('%-14s %-40s %s %s' % (st, m['name'], m['prop'], m.get('rule', 'refactor')))
        if st != 'OK':
            bad += 1; print('    ' + out.replace('\n', '\n    '))
    # drop cache entries made for scratch trees
    return 1 if bad else 0
sys.exit(main())
