"""Corpora of translation units that are *parsed* (never run) against /repo/include.

W: /verif/witness/w_*.cpp  - machines written for the verification
T: /repo/test/*.cpp        - the repository's own test TUs (flags mirror test/CMakeLists.txt)
"""
import glob, os, re, subprocess, functools

REPO = os.environ.get('MSM_REPO', '/repo')
VERIF = os.path.dirname(os.path.dirname(os.path.abspath(__file__)))

@functools.lru_cache()
def resource_dir():
    return subprocess.check_output(['clang++', '-print-resource-dir'], text=True).strip()

def base_flags(std):
    return ['-std=' + std, '-I' + REPO + '/include', '-UNDEBUG', '-w', '-fno-access-control',
            '-DBOOST_MSM_NONSTANDALONE_TEST', '-DBOOST_SERIALIZATION_DYN_LINK', '-DBOOST_SERIALIZATION_NO_LIB',
            '-DBOOST_UNIT_TEST_FRAMEWORK_DYN_LINK', '-DBOOST_UNIT_TEST_FRAMEWORK_NO_LIB',
            '-resource-dir', resource_dir()]

def _cmake_targets():
    """source file -> target name, read from /repo/test/CMakeLists.txt"""
    txt = open(os.path.join(REPO, 'test', 'CMakeLists.txt')).read()
    out = {}
    for m in re.finditer(r'add_executable\((\w+)\s+EXCLUDE_FROM_ALL(.*?)\)', txt, re.S):
        for src in m.group(2).split():
            if src.endswith('.cpp') and src != 'main.cpp':
                out[src] = m.group(1)
    return out

def corpus_T():
    tg = _cmake_targets()
    tus = []
    for src in sorted(tg):
        p = os.path.join(REPO, 'test', src)
        if not os.path.exists(p):
            continue
        std = 'gnu++20' if 'cxx20' in tg[src] else 'gnu++17'
        tus.append({'name': 'T/' + src, 'path': p, 'flags': base_flags(std), 'corpus': 'T',
                    'euml': 'euml' in tg[src]})
    return tus

def corpus_W():
    tus = []
    for p in sorted(glob.glob(os.path.join(VERIF, 'witness', 'w_*.cpp'))):
        std = 'gnu++20' if '_cxx20' in p else 'gnu++17'
        tus.append({'name': 'W/' + os.path.basename(p), 'path': p,
                    'flags': base_flags(std) + ['-I' + os.path.join(VERIF, 'witness'), '-I' + os.path.join(REPO, 'test')],
                    'corpus': 'W', 'euml': False})
    return tus

# test TUs parsed in the quick tier in addition to W: chosen so that every anchored
# function pattern has an instantiation in each back-end configuration
QUICK_T = ['CompositeMachine.cpp', 'OrthogonalDeferred.cpp', 'OrthogonalDeferred3.cpp', 'History.cpp', 'Entries.cpp',
           'Anonymous.cpp', 'SimpleInternal.cpp', 'SimpleInternalFunctors.cpp', 'Throwing.cpp', 'EventQueue.cpp',
           'SimpleKleene.cpp', 'KleeneDeferred.cpp', 'Serialize.cpp', 'SerializeWithHistory.cpp',
           'Back11CompositeMachine.cpp', 'TestDeferIn2Regions.cpp', 'SimpleMachine.cpp', 'Test2RegionsAnonymous.cpp',
           'Backmp11Completion.cpp', 'Backmp11Deferred.cpp', 'Backmp11EntryExit.cpp', 'Backmp11History.cpp',
           'Backmp11Transitions.cpp', 'Backmp11Visitor.cpp', 'Backmp11CopyMove.cpp', 'Backmp11BasicPolymorphic.cpp',
           'Backmp11RootSm.cpp', 'Backmp11Context.cpp', 'Backmp11FunctorApi.cpp', 'TestDeferAndMessageQueue.cpp',
           'SetStates.cpp', 'TransitionSkipping.cpp']

# test TUs whose g++ view (corpus G) is parsed in the quick tier, next to all witnesses
QUICK_G = ['Backmp11Transitions.cpp', 'CompositeMachine.cpp']

def corpus(tier):
    T = corpus_T()
    W = corpus_W()
    if tier == 'thorough':
        return W + T
    q = set(QUICK_T)
    return W + [t for t in T if os.path.basename(t['path']) in q]


# ----------------------------------------------------------------------------- compiler-conditional code
# The extractor is clang, the suite is built with g++.  Library headers that select code by compiler (`#if ... __clang__ ...`) are
# analysed a second time with the condition evaluated the way g++ evaluates it: a shadow include directory holds a copy of each such
# header - regenerated from the current source of the library on every run - in which only the `#if` / `#elif` lines that mention
# __clang__ are rewritten (defined(__clang__) -> 0, defined(__GNUC__) -> 1).  TUs that instantiate code inside such a region are
# parsed again against the shadow directory (corpus 'G').
_COND = re.compile(r'^\s*#\s*(if|elif)\b.*__clang__')
def conditional_regions():
    """{header path relative to include/: [(first line, last line, original condition)]} for regions selected by __clang__"""
    out = {}
    root = os.path.join(REPO, 'include')
    for hp in sorted(glob.glob(os.path.join(root, 'boost', 'msm', '**', '*.hpp'), recursive=True)):
        lines = open(hp, errors='replace').read().split('\n')
        regs = []
        for i, line in enumerate(lines):
            if not _COND.match(line): continue
            depth = 0; j = i
            for j in range(i, len(lines)):
                t = lines[j].strip()
                if re.match(r'#\s*if', t): depth += 1
                elif re.match(r'#\s*endif', t):
                    depth -= 1
                    if depth == 0: break
            regs.append((i + 1, j + 1, line.strip()))
        if regs: out[os.path.relpath(hp, root)] = regs
    return out

def gcc_overlay():
    """(shadow include directory, regions); the directory is rebuilt when the headers changed"""
    import hashlib
    regs = conditional_regions()
    if not regs: return None, {}
    root = os.path.join(REPO, 'include')
    h = hashlib.sha256()
    for rel in sorted(regs): h.update(rel.encode()); h.update(open(os.path.join(root, rel), 'rb').read())
    base = os.path.join(VERIF, '.cache') if os.path.realpath(REPO) == '/repo' else os.path.join(REPO, '.factscache')
    d = os.path.join(base, 'gcc-overlay-' + h.hexdigest()[:16])
    if not os.path.isdir(d):
        tmp = d + '.tmp%d' % os.getpid()
        for rel in regs:
            out = []
            for line in open(os.path.join(root, rel), errors='replace').read().split('\n'):
                if _COND.match(line):
                    line = re.sub(r'defined\s*\(?\s*__clang__\s*\)?', '0', line)
                    line = re.sub(r'defined\s*\(?\s*__GNUC__\s*\)?', '1', line)
                out.append(line)
            os.makedirs(os.path.dirname(os.path.join(tmp, rel)), exist_ok=True)
            open(os.path.join(tmp, rel), 'w').write('\n'.join(out))
        try: os.rename(tmp, d)
        except OSError:
            import shutil; shutil.rmtree(tmp, ignore_errors=True)
    return d, regs

def gcc_variant(tu, overlay):
    v = dict(tu)
    v['name'] = 'G/' + tu['name']; v['corpus'] = 'G'
    v['flags'] = ['-I' + overlay] + list(tu['flags'])
    return v
