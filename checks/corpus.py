"""Corpora of translation units that are *parsed* (never run) against /repo/include.

W: /verif/witness/w_*.cpp  - machines written for the verification
T: /repo/test/*.cpp        - the repository's own test TUs (flags mirror test/CMakeLists.txt)
"""
import glob, os, re, subprocess, functools

REPO = os.environ.get('MSM_REPO', '/repo')
VERIF = os.path.dirname(os.path.dirname(os.path.abspath(__file__)))

@functools.lru_cache()
def resource_dir():
    return subprocess.check_output(['clang++', '-print-resource-dir'], text=True).strip()

def base_flags(std):
    return ['-std=' + std, '-I' + REPO + '/include', '-UNDEBUG', '-w', '-fno-access-control',
            '-DBOOST_MSM_NONSTANDALONE_TEST', '-DBOOST_SERIALIZATION_DYN_LINK', '-DBOOST_SERIALIZATION_NO_LIB',
            '-DBOOST_UNIT_TEST_FRAMEWORK_DYN_LINK', '-DBOOST_UNIT_TEST_FRAMEWORK_NO_LIB',
            '-resource-dir', resource_dir()]

def _cmake_targets():
    """source file -> target name, read from /repo/test/CMakeLists.txt"""
    txt = open(os.path.join(REPO, 'test', 'CMakeLists.txt')).read()
    out = {}
    for m in re.finditer(r'add_executable\((\w+)\s+EXCLUDE_FROM_ALL(.*?)\)', txt, re.S):
        for src in m.group(2).split():
            if src.endswith('.cpp') and src != 'main.cpp':
                out[src] = m.group(1)
    return out

def corpus_T():
    tg = _cmake_targets()
    tus = []
    for src in sorted(tg):
        p = os.path.join(REPO, 'test', src)
        if not os.path.exists(p):
            continue
        std = 'gnu++20' if 'cxx20' in tg[src] else 'gnu++17'
        tus.append({'name': 'T/' + src, 'path': p, 'flags': base_flags(std), 'corpus': 'T',
                    'euml': 'euml' in tg[src]})
    return tus

def corpus_W():
    tus = []
    for p in sorted(glob.glob(os.path.join(VERIF, 'witness', 'w_*.cpp'))):
        std = 'gnu++20' if '_cxx20' in p else 'gnu++17'
        tus.append({'name': 'W/' + os.path.basename(p), 'path': p,
                    'flags': base_flags(std) + ['-I' + os.path.join(VERIF, 'witness'), '-I' + os.path.join(REPO, 'test')],
                    'corpus': 'W', 'euml': False})
    return tus

# test TUs parsed in the quick tier in addition to W: chosen so that every anchored
# function pattern has an instantiation in each back-end configuration
QUICK_T = ['CompositeMachine.cpp', 'OrthogonalDeferred.cpp', 'OrthogonalDeferred3.cpp', 'History.cpp', 'Entries.cpp',
           'Anonymous.cpp', 'SimpleInternal.cpp', 'SimpleInternalFunctors.cpp', 'Throwing.cpp', 'EventQueue.cpp',
           'SimpleKleene.cpp', 'KleeneDeferred.cpp', 'Serialize.cpp', 'SerializeWithHistory.cpp',
           'Back11CompositeMachine.cpp', 'TestDeferIn2Regions.cpp', 'SimpleMachine.cpp', 'Test2RegionsAnonymous.cpp',
           'Backmp11Completion.cpp', 'Backmp11Deferred.cpp', 'Backmp11EntryExit.cpp', 'Backmp11History.cpp',
           'Backmp11Transitions.cpp', 'Backmp11Visitor.cpp', 'Backmp11CopyMove.cpp', 'Backmp11BasicPolymorphic.cpp',
           'Backmp11RootSm.cpp', 'Backmp11Context.cpp', 'Backmp11FunctorApi.cpp', 'TestDeferAndMessageQueue.cpp',
           'SetStates.cpp', 'TransitionSkipping.cpp']

def corpus(tier):
    T = corpus_T()
    W = corpus_W()
    if tier == 'thorough':
        return W + T
    q = set(QUICK_T)
    return W + [t for t in T if os.path.basename(t['path']) in q]
