"""Front-end model read from the type-checked program: for every back-end machine type found in a TU, its front-end
declarations (transition table rows in declaration order, initial states, internal tables, deferred events, flags,
history) decoded from typedefs / nested structs of the front-end classes.  This is the *oracle* side of the plan rules:
it only uses what the user declared, never what the back-end computed."""
from facts import Facts, parse_type, type_list, strip_cvref

BACKENDS = {'boost::msm::back::state_machine': 'back', 'boost::msm::back11::state_machine': 'back11',
            'boost::msm::backmp11::state_machine': 'backmp11', 'boost::msm::backmp11::detail::state_machine_base': 'backmp11'}
KLEENE = ('boost::any', 'std::any')

class Machine:
    def __init__(self, M, t, backend, fe, args):
        self.M = M; self.type = t; self.backend = backend; self.fe = fe; self.args = args
        self.policy = 'fct' if any('favor_compile_time' in str(a) for a in args[1:]) else 'frs'
    @property
    def fe_rec(self): return self.M.F.rec_by_type(self.fe)
    def __repr__(self): return 'Machine(%s %s %s)' % (self.backend, self.policy, Facts.short(self.fe, 60))

class Model:
    def __init__(self, F):
        self.F = F
        self._m = {}
    # ---- machines
    def machine_of(self, t):
        """MachineInfo when t is a back-end machine type or a class derived from one (adapter / user Derived), else None"""
        t = strip_cvref(t)
        if t in self._m: return self._m[t]
        self._m[t] = None
        head, args, rest = parse_type(t)
        if args is not None and not rest.strip() and head in BACKENDS:
            self._m[t] = Machine(self, t, BACKENDS[head], args[0], args)
            return self._m[t]
        rec = self.F.rec_by_type(t)
        depth = 0
        while rec and depth < 5:
            nxt = None
            for b in rec['bases']:
                bt = self.F.strs[b['t']]
                h, a, r = parse_type(bt)
                if a is not None and not r.strip() and h in BACKENDS:
                    m = Machine(self, t, BACKENDS[h], a[0], a)
                    # adapter: compile policy may be given to the adapter, not to the base
                    head2, args2, _ = parse_type(t)
                    if args2 and any('favor_compile_time' in x for x in args2[1:]): m.policy = 'fct'
                    self._m[t] = m
                    return m
                nxt = nxt or self.F.rec_by_type(bt)
            rec = nxt; depth += 1
        return None
    def all_machines(self):
        out = []
        for r in self.F.records:
            t = self.F.strs[r['t']]
            head, args, rest = parse_type(t)
            if args is not None and not rest.strip() and head in ('boost::msm::back::state_machine', 'boost::msm::back11::state_machine', 'boost::msm::backmp11::state_machine'):
                m = self.machine_of(t)
                if m: out.append(m)
        return out
    # ---- declarations
    def member_type(self, cls_t, name):
        """type string of a member typedef or of the base list of a nested struct `name` of class cls_t (searching base classes)"""
        seen = 0
        todo = [cls_t]
        while todo and seen < 12:
            seen += 1
            c = todo.pop(0)
            rec = self.F.rec_by_type(c)
            if rec is None: continue
            if name in rec['tds']: return self.F.strs[rec['tds'][name]]
            nested = self.F.rec_by_type(c + '::' + name)
            if nested is not None:
                if nested['bases']: return self.F.strs[nested['bases'][0]['t']]
                return c + '::' + name
            for b in rec['bases']: todo.append(self.F.strs[b['t']])
        return None
    def seq(self, cls_t, name):
        t = self.member_type(cls_t, name)
        if t is None: return None
        l = type_list(t)
        if l is None:
            # a single type (e.g. `typedef Empty initial_state;`) or a struct deriving from a list
            rec = self.F.rec_by_type(t)
            if rec and rec['bases']:
                l2 = type_list(self.F.strs[rec['bases'][0]['t']])
                if l2 is not None: return l2
            return [t]
        return l
    def rows(self, fe, table='transition_table'):
        """declared rows in declaration order: dict(type, source, target, evt, tag, guard, action)"""
        l = self.seq(fe, table)
        if l is None: return None
        out = []
        for rt in l:
            rec = self.F.rec_by_type(rt)
            if rec is None: return None       # a row type without record (eUML / generated): model unavailable
            g = lambda k: self.F.strs[rec['tds'][k]] if k in rec['tds'] else None
            tag = g('row_type_tag')
            out.append({'type': rt, 'source': g('Source'), 'target': g('Target'), 'evt': g('Evt'),
                        'tag': tag.split('::')[-1] if tag else None, 'guard': g('Guard'), 'action': g('Action')})
        return out
    def declares_option(self, fe, opt, through_configuration=True):
        """front-end option typedef (no_exception_thrown, no_message_queue, ...) declared in the front-end, one of its bases, or -
        back / back11 - in an element of its `configuration` sequence"""
        todo = [strip_cvref(fe)]; k = 0
        while todo and k < 16:
            k += 1
            rec = self.F.rec_by_type(todo.pop(0))
            if rec is None: continue
            if opt in rec['tds']: return True
            todo.extend(self.F.strs[b['t']] for b in rec['bases'])
        if through_configuration:
            for c in self.seq(fe, 'configuration') or []:
                rec = self.F.rec_by_type(strip_cvref(c))
                if rec and opt in rec['tds']: return True
        return False
    def initial_states(self, fe): return self.seq(fe, 'initial_state')
    def deferred(self, st):
        l = self.seq(st, 'deferred_events')
        return l or []
    def flags(self, st): return self.seq(st, 'flag_list') or []
    def internal_flags(self, st): return self.seq(st, 'internal_flag_list') or []
    # ---- events
    def bases_of(self, t, depth=0):
        rec = self.F.rec_by_type(t)
        out = []
        if rec and depth < 6:
            for b in rec['bases']:
                if b['acc'] == 0 or b['acc'] == 2 and False: pass
                bt = self.F.strs[b['t']]
                if b['acc'] == 0:    # AS_public
                    out.append(bt); out.extend(self.bases_of(bt, depth + 1))
        return out
    def is_kleene(self, t):
        t = strip_cvref(t)
        if t in KLEENE: return True
        return False
    def event_matches(self, trigger, ev, policy):
        trigger = strip_cvref(trigger); ev = strip_cvref(ev)
        if trigger == ev: return True
        if policy == 'fct': return False
        if self.is_kleene(trigger):
            # a Kleene trigger matches every event a user can submit - not the library's own completion event, which only
            # trigger-less rows react to
            rec = self.F.rec_by_type(ev)
            return not (rec and 'completion_event' in rec['tds'])
        return trigger in self.bases_of(ev)
    # ---- structure
    def source_state(self, row):
        """the state of this machine in whose cell the row lives: for an exit pseudostate of submachine S it is S"""
        s = row['source']
        if s is None: return None
        head, args, rest = parse_type(s)
        if rest.strip().startswith('::exit_pt') or rest.strip().startswith('::entry_pt') or rest.strip().startswith('::direct'):
            if head.endswith('::state_machine_base') and len(args) >= 3: return args[2]      # backmp11: nested in the CRTP base, the state is Derived
            return head + '<' + ', '.join(args) + '>'
        return s
    def states(self, fe):
        rows = self.rows(fe) or []
        out = []
        def add(x):
            if x and x not in out: out.append(x)
        for r in rows: add(self.source_state(r))
        for r in rows:
            t = r['target']
            if t is None or t == 'boost::msm::front::none': continue
            tl = type_list(t)
            for x in (tl if tl is not None else [t]):
                head, args, rest = parse_type(x)
                if rest.strip().startswith('::') and args is not None and head in BACKENDS:
                    add(args[2] if head.endswith('::state_machine_base') and len(args) >= 3 else head + '<' + ', '.join(args) + '>')
                else: add(x)
        for s in self.initial_states(fe) or []: add(s)
        return out
    def descendants(self, fe, depth=0):
        """(state type, nesting depth, owning front-end) for all states below a front-end, recursively through submachines"""
        out = []
        if depth > 5: return out
        for s in self.states(fe):
            out.append((s, depth, fe))
            m = self.machine_of(s)
            if m: out.extend(self.descendants(m.fe, depth + 1))
        return out
