"""Core rules: result-code tests (C01.mask) and definite assignment with handler edges (C12.assign)."""
from engine import rule
from facts import Facts

RESULT_TYPES = ('boost::msm::back::HandledEnum', 'boost::msm::backmp11::process_result')

def backend_of(f):
    p = f.file
    for b in ('backmp11', 'back11', 'back'):
        if p.startswith('boost/msm/' + b + '/'): return b
    return None

def is_backend(f): return backend_of(f) is not None

def is_result_type(t):
    t = t.replace('const ', '').replace(' const', '').rstrip('&').strip()
    return t in RESULT_TYPES

@rule('C01.mask')
def c01_mask(F, R):
    """No equality test against the 'handled' enumerator on a result code: a result code is a bit set
    (handled | guard-reject | deferred); deciding 'was the event consumed' by ==/!= HANDLED_TRUE
    mis-classifies combined codes (inner transition taken + sibling guard rejected = 3)."""
    for f in F.funcs:
        if not is_backend(f) or not f.nodes: continue
        hit = False
        for i, n in enumerate(f.nodes):
            if not n or n['k'] != 'bin': continue
            if n['op'] in ('==', '!='):
                l, r = f.nodes[n['lhs']], f.nodes[n['rhs']]
                for a, b in ((l, r), (r, l)):
                    if a and a['k'] == 'ref' and a.get('dk') == 'enum' and is_result_type(F.strs[a['t']]):
                        hit = True
                        ok = a['n'] != 'HANDLED_TRUE'
                        R.ob('C01.mask', ok, {'func': f.q, 'at': f.at(i), 'test': f.expr(i)})
                        if not ok:
                            R.find('C01.mask', f, 'eq-HANDLED_TRUE', "result code compared with %s HANDLED_TRUE (must be a bit test: a combined code such as HANDLED_TRUE|HANDLED_GUARD_REJECT is a consumed event): %s" % (n['op'], f.expr(i)), where=f.at(i))
            elif n['op'] == '&' and (is_result_type(F.strs[n['lt']]) or is_result_type(F.strs[n['rt']])):
                hit = True
                R.ob('C01.mask', True, {'func': f.q, 'at': f.at(i), 'test': f.expr(i)})
        if hit:
            R.seen(f); R.anchor('mask-sites:' + backend_of(f))

def definite_assignment(f, var_filter):
    """forward must-analysis; returns list of (var, node id of the read) read before definitely assigned.
    Handler edges carry the state at the *entry* of the throwing block (a throw may precede any assignment in it)."""
    decls = {}
    for i, n in enumerate(f.nodes):
        if n and n['k'] == 'decl':
            for v in n['vars']:
                if not v['hasinit'] and not v['static'] and var_filter(v): decls[v['n']] = i
    if not decls: return [], decls
    asg_lhs = {}
    for i, n in enumerate(f.nodes):
        if n and n['k'] == 'asg' and n['op'] == '=':
            l = f.nodes[n['lhs']]
            if l and l['k'] == 'ref' and l['n'] in decls: asg_lhs[n['lhs']] = l['n']
    # non-const reference bindings (call arguments that are plain refs without lvalue-to-rvalue) count as assignment
    bound = {}
    for i, n in enumerate(f.nodes):
        if n and n['k'] in ('call', 'ctor'):
            for a in n['args']:
                an = f.nodes[a]
                if an and an['k'] == 'ref' and an['n'] in decls and not an.get('rv'): bound[i] = bound.get(i, set()) | {an['n']}
                if an and an['k'] == 'un' and an['op'] == '&':
                    inner = f.nodes[an['e']]
                    if inner and inner['k'] == 'ref' and inner['n'] in decls: bound[i] = bound.get(i, set()) | {inner['n']}
    allv = frozenset(decls)
    IN = {}
    rb = f.reachable_blocks()
    order = sorted(rb, reverse=True)
    # normal and handler predecessor maps
    preds = {b: [] for b in rb}; hpreds = {b: [] for b in rb}
    for b in rb:
        for s in f.succ(b, handlers=False):
            if s in preds: preds[s].append(b)
        for s in f.succ(b, handlers=True):
            if s in preds and s not in f.succ(b, handlers=False): hpreds[s].append(b)
    def transfer(b, state, reads=None):
        st = set(state)
        for i in f.bmap[b]['e']:
            n = f.nodes[i]
            if not n: continue
            if n['k'] == 'ref' and n.get('dk') == 'local' and n['n'] in decls:
                if i in asg_lhs: continue
                if n.get('rv') and n['n'] not in st and reads is not None: reads.append((n['n'], i))
            elif n['k'] == 'asg':
                if n['op'] == '=' and n['lhs'] in asg_lhs: st.add(asg_lhs[n['lhs']])
                elif n['op'] != '=':
                    l = f.nodes[n['lhs']]
                    if l and l['k'] == 'ref' and l['n'] in decls and l['n'] not in st and reads is not None: reads.append((l['n'], i))
            elif i in bound: st |= bound[i]
            elif n['k'] == 'decl':
                for v in n['vars']:
                    if v['n'] in decls: st.discard(v['n'])
        return frozenset(st)
    OUT = {b: allv for b in rb}
    IN = {b: allv for b in rb}
    IN[f.entry] = frozenset()
    changed = True; it = 0
    while changed and it < 50:
        changed = False; it += 1
        for b in order:
            if b == f.entry: new_in = frozenset()
            else:
                srcs = [OUT[p] for p in preds[b]] + [IN[p] for p in hpreds[b]]
                new_in = frozenset.intersection(*srcs) if srcs else allv
            new_out = transfer(b, new_in)
            if new_in != IN[b] or new_out != OUT[b]:
                IN[b] = new_in; OUT[b] = new_out; changed = True
    reads = []
    for b in order: transfer(b, IN[b], reads)
    return reads, decls

@rule('C12.assign')
def c12_assign(F, R):
    """Every scalar local of a back-end function declared without initialiser is assigned on every path
    to each read, including the paths that enter an exception handler from any point of the try body."""
    for f in F.funcs:
        if not is_backend(f) or not f.blocks: continue
        reads, decls = definite_assignment(f, lambda v: v.get('scalar'))
        if not decls: continue
        R.seen(f)
        has_try = bool(f.d.get('tries'))
        R.anchor('uninit-locals:' + backend_of(f))
        if has_try: R.anchor('uninit-locals-in-try-functions:' + backend_of(f))
        bad = {}
        for v, i in reads: bad.setdefault(v, i)
        for v in decls:
            ok = v not in bad
            R.ob('C12.assign', ok, {'func': f.q, 'var': v, 'decl': f.at(decls[v]), 'function_has_try': has_try})
            if not ok:
                R.find('C12.assign', f, 'var:' + v, "local '%s' (declared at %s without initialiser) may be read unassigned at %s%s" % (v, f.at(decls[v]), f.at(bad[v]), ' on a path through the exception handler' if has_try else ''), where=f.at(bad[v]))
