"""Fact extraction (cached) and the in-memory model of one TU's facts."""
import fcntl, glob, hashlib, json, os, subprocess, sys, time
from concurrent.futures import ProcessPoolExecutor
import corpus as corpus_mod

VERIF = corpus_mod.VERIF
REPO = corpus_mod.REPO
# facts cache: for /repo itself under /verif/.cache (size-capped, see gc_cache); for a scratch copy of the library (MSM_REPO set by the
# self-tests) inside that copy, so that it disappears together with it
CACHE = os.path.join(VERIF, '.cache') if os.path.realpath(REPO) == '/repo' else os.path.join(REPO, '.factscache')
CACHE_CAP = 12 << 30
TOOL = os.path.join(VERIF, 'tools', 'msm-facts')

class AnalysisBroken(Exception):
    """exit 2: a TU does not parse, an anchor vanished, a floor is not met"""

_inc_hash = None
def include_hash():
    global _inc_hash
    if _inc_hash is None:
        h = hashlib.sha256()
        root = os.path.join(REPO, 'include', 'boost', 'msm')
        for dp, dn, fn in sorted(os.walk(root)):
            dn.sort()
            for f in sorted(fn):
                p = os.path.join(dp, f)
                h.update(p.encode())
                h.update(open(p, 'rb').read())
        for p in sorted(glob.glob(os.path.join(REPO, 'test', '*.hpp'))):
            h.update(p.encode()); h.update(open(p, 'rb').read())
        for p in sorted(glob.glob(os.path.join(VERIF, 'witness', '*.hpp'))):
            h.update(p.encode()); h.update(open(p, 'rb').read())
        st = os.stat(TOOL)
        h.update(('%d-%d' % (st.st_size, int(st.st_mtime))).encode())
        _inc_hash = h.hexdigest()
    return _inc_hash

def tu_key(tu):
    h = hashlib.sha256()
    h.update(include_hash().encode())
    h.update(' '.join(tu['flags']).encode())
    h.update(open(tu['path'], 'rb').read())
    h.update(tu['path'].encode())
    return h.hexdigest()[:24]

def extract_one(tu):
    """returns (path of facts json, seconds, cached?)"""
    if not os.path.exists(TOOL):
        raise AnalysisBroken('extractor not built: run make -C /verif/tools')
    os.makedirs(CACHE, exist_ok=True)
    key = tu_key(tu)
    out = os.path.join(CACHE, key + '.json')
    if os.path.exists(out):
        try: os.utime(out, None)
        except OSError: pass
        return out, 0.0, True
    lock = open(os.path.join(CACHE, key + '.lock'), 'w')
    fcntl.flock(lock, fcntl.LOCK_EX)
    try:
        if os.path.exists(out):
            return out, 0.0, True
        t0 = time.time()
        tmp = out + '.tmp%d' % os.getpid()
        cmd = [TOOL, tmp, tu['path']] + (['--euml'] if tu.get('euml_bodies') else []) + ['--'] + tu['flags']
        r = subprocess.run(cmd, stdout=subprocess.PIPE, stderr=subprocess.PIPE, text=True)
        if r.returncode != 0 or not os.path.exists(tmp):
            if os.path.exists(tmp):
                os.unlink(tmp)
            raise AnalysisBroken('TU %s does not parse against /repo/include:\n%s' % (tu['name'], r.stderr[-3000:]))
        os.rename(tmp, out)
        return out, time.time() - t0, False
    finally:
        fcntl.flock(lock, fcntl.LOCK_UN)
        lock.close()

def gc_cache(cap=None):
    """keep the cache below the cap: least recently used entries (mtime, refreshed on every hit) go first"""
    cap = CACHE_CAP if cap is None else cap
    if not os.path.isdir(CACHE):
        return
    ents = []
    for f in os.listdir(CACHE):
        p = os.path.join(CACHE, f)
        try:
            st = os.stat(p)
            if f.endswith('.lock') or '.tmp' in f:
                if time.time() - st.st_mtime > 3600: os.unlink(p)
                continue
            ents.append((st.st_mtime, st.st_size, p))
        except OSError:
            pass
    total = sum(e[1] for e in ents)
    for mt, sz, p in sorted(ents):
        if total <= cap: break
        try:
            os.unlink(p); total -= sz
        except OSError:
            pass

# ----------------------------------------------------------------------------- model

class Func:
    __slots__ = ('d', 'F', 'k', 'n', 'q', 'loc', 'file', 'line', 'nodes', 'blocks', 'bmap', '_succ', '_hedges', 'org')
    def __init__(self, d, F):
        self.d = d; self.F = F
        self.k = d['k']; self.n = d['n']; self.q = d['q']; self.loc = d['loc']
        self.file, _, ln = d['loc'].rpartition(':')
        self.line = int(ln) if ln.isdigit() else 0
        self.nodes = d.get('nodes') or []
        self.blocks = d.get('blocks') or []
        self.bmap = {b['id']: b for b in self.blocks}
        self._succ = None
        self.org = d['org']
    # -- identity
    @property
    def fq(self): return self.F.strs[self.d['fq']]
    @property
    def classes(self): return [c['c'] for c in self.d['ctx'] if 'c' in c]
    @property
    def cls(self):
        c = self.classes
        return c[-1] if c else None
    def ctx_class(self, name):
        for c in self.d['ctx']:
            if c.get('c') == name: return c
        return None
    def cls_args(self, name=None):
        """template arguments (as strings / ints) of the innermost (or named) enclosing class"""
        cs = [c for c in self.d['ctx'] if 'c' in c]
        if name is not None: cs = [c for c in cs if c['c'] == name]
        if not cs: return None
        return self.F.targs(cs[-1].get('a'))
    def targs(self): return self.F.targs(self.d.get('ta'))
    def param_types(self): return [self.F.strs[p['t']] for p in self.d['params']]
    @property
    def where(self): return self.loc
    def at(self, nid):
        n = self.nodes[nid] if nid else None
        return '%s:%d' % (self.file, n['l']) if n and n.get('l') else self.loc
    # -- CFG
    def succ(self, bid, handlers=True, fold=True):
        """successor block ids; constant branch conditions (folded by the front end for this
        instantiation) keep only the live successor; blocks of a try body get an edge to each handler"""
        if self._succ is None:
            self._succ = {}; self._hedges = {}
            inb = {}
            for t in self.d.get('tries', []):
                hs = [h['b'] for h in t['handlers'] if h['b'] >= 0]
                tn = set(t['nodes'])
                for b in self.blocks:
                    if any(e in tn for e in b['e']):
                        inb.setdefault(b['id'], []).extend(hs)
            for b in self.blocks:
                s = [x for x in b['s']]
                live = s
                tcv = b.get('tcv')
                if len(s) == 2 and tcv is None and b.get('tc'):
                    tcv = self.eval_const(b['tc'])
                if len(s) == 2 and tcv is not None:
                    # the front end folded the branch condition for this instantiation
                    # (if constexpr, integral-constant tests, short-circuit operands)
                    live = [s[0]] if tcv else [s[1]]
                self._succ[b['id']] = [x for x in live if x >= 0]
                self._hedges[b['id']] = inb.get(b['id'], [])
        r = self._succ[bid]
        if handlers and self._hedges[bid]:
            r = r + [h for h in self._hedges[bid] if h not in r]
        return r
    def eval_const(self, nid, depth=0):
        """constant value of a branch condition when it only consists of literals, folded constants and calls to
        library functions whose every return yields the same literal (e.g. a 'no guard' helper returning true)"""
        if not nid or depth > 6: return None
        n = self.nodes[nid]
        if n is None: return None
        if 'cv' in n: return n['cv']
        k = n['k']
        if k == 'lit' and isinstance(n.get('v'), (bool, int)) and n.get('v') is not None: return int(n['v'])
        if k == 'ref' and n.get('dk') in ('enum', 'smember', 'var') and isinstance(n.get('v'), int): return n['v']
        if k == 'un' and n['op'] == '!':
            v = self.eval_const(n['e'], depth + 1)
            return None if v is None else int(not v)
        if k in ('icast', 'cast'): return self.eval_const(n['e'], depth + 1)
        if k == 'bin' and n['op'] in ('&&', '||'):
            a = self.eval_const(n['lhs'], depth + 1); b = self.eval_const(n['rhs'], depth + 1)
            if n['op'] == '&&':
                if a == 0 or b == 0: return 0
                if a is not None and b is not None: return 1
            else:
                if (a is not None and a != 0) or (b is not None and b != 0): return 1
                if a == 0 and b == 0: return 0
            return None
        if k == 'call' and 'fk' in n and n.get('org') == 1:
            return self.F.const_return(n['fk'], depth + 1)
        if k == 'ref' and n.get('dk') == 'local':
            # `const bool b = <constant>; if (b)` : a const-qualified local, declared once in the function, is its initialiser
            ds = [v for m in self.nodes if m and m['k'] == 'decl' for v in m['vars'] if v['n'] == n['n']]
            if len(ds) == 1 and ds[0]['hasinit'] and not ds[0].get('static') and not ds[0].get('ref'):
                isconst = str(self.F.strs[ds[0]['t']]).startswith('const ')
                if not isconst:
                    # not declared const: every use must be a plain read (never assigned, incremented, bound or address-taken)
                    reads = {m['e'] for m in self.nodes if m and m['k'] == 'icast' and m.get('ck') == 'LValueToRValue'}
                    isconst = all(m.get('rv') == 1 or j in reads for j, m in enumerate(self.nodes) if m and m['k'] == 'ref' and m.get('dk') == 'local' and m['n'] == n['n'])
                if isconst: return self.eval_const(ds[0]['init'], depth + 1)
        return None
    @property
    def entry(self): return self.d.get('entry')
    @property
    def exit(self): return self.d.get('exit')
    def reachable_blocks(self):
        seen = set(); st = [self.entry]
        while st:
            b = st.pop()
            if b in seen or b is None: continue
            seen.add(b)
            st.extend(self.succ(b))
        return seen
    def linear_nodes(self, reachable_only=True):
        """node ids in CFG order (entry first), reachable blocks only"""
        rb = self.reachable_blocks() if reachable_only else None
        out = []
        for b in sorted(self.blocks, key=lambda b: -b['id']):
            if rb is not None and b['id'] not in rb: continue
            out.extend(b['e'])
        return out
    def calls(self, reachable_only=True):
        for i in self.linear_nodes(reachable_only):
            n = self.nodes[i]
            if n and n['k'] in ('call', 'ctor'):
                yield i, n
    def paths(self, max_paths=20000, edge_bound=2):
        """all entry->exit block paths, each edge taken at most edge_bound times"""
        res = []
        def go(b, path, used):
            if len(res) >= max_paths: return
            path.append(b)
            if b == self.exit or not self.succ(b):
                res.append(list(path))
            else:
                for s in self.succ(b):
                    e = (b, s)
                    c = used.get(e, 0)
                    if c >= edge_bound: continue
                    used[e] = c + 1
                    go(s, path, used)
                    used[e] = c
            path.pop()
        if self.entry is not None:
            go(self.entry, [], {})
        return res
    def aborts(self, path):
        """the path ends in a call of a noreturn assertion handler"""
        for i in self.path_nodes(path):
            n = self.nodes[i]
            if n and n['k'] == 'call' and n.get('n') in ('__assert_fail', 'abort', 'terminate', 'assertion_failed', 'assertion_failed_msg', '__builtin_unreachable'): return True
        return False
    def path_nodes(self, path):
        out = []
        for b in path:
            out.extend(self.bmap[b]['e'])
        return out
    # -- expressions
    def expr(self, nid, depth=0):
        """readable rendering of a node (for reports and light-weight matching)"""
        if not nid or depth > 8: return '_' if not nid else '...'
        n = self.nodes[nid]
        if n is None: return '_'
        k = n['k']; e = lambda x: self.expr(x, depth + 1)
        if k == 'ref': return n['n']
        if k == 'mem': return (e(n['b']) + ('->' if n['arrow'] else '.') if self.nodes[n['b']] and self.nodes[n['b']]['k'] != 'this' else '') + n['n']
        if k == 'this': return 'this'
        if k == 'lit': return json.dumps(n.get('v', n.get('s')))
        if k in ('call', 'ctor'):
            nm = n.get('n') or ('(*%s)' % e(n.get('fn')))
            if n.get('op'): nm = 'operator' + n['op']
            pre = (e(n['obj']) + '.') if n.get('obj') else ((n['pc'] + '::') if n.get('pc') else '')
            return '%s%s(%s)' % (pre, nm, ', '.join(e(a) for a in n['args']))
        if k in ('bin', 'asg'): return '(%s %s %s)' % (e(n['lhs']), n['op'], e(n['rhs']))
        if k == 'un': return ('%s%s' % (e(n['e']), n['op'])) if n['post'] else ('%s%s' % (n['op'], e(n['e'])))
        if k == 'sub': return '%s[%s]' % (e(n['b']), e(n['i']))
        if k == 'cond': return '(%s ? %s : %s)' % (e(n['c']), e(n['a']), e(n['b']))
        if k == 'cast': return '%s<%s>(%s)' % (n['cc'].replace('CXX', '').replace('Expr', ''), self.F.short(self.F.strs[n['to']]), e(n['e']))
        if k == 'icast': return e(n['e'])
        if k == 'ret': return 'return ' + e(n['e'])
        if k == 'decl': return '; '.join('%s %s%s' % (self.F.short(self.F.strs[v['t']]), v['n'], (' = ' + e(v['init'])) if v['hasinit'] else '') for v in n['vars'])
        if k == 'lambda': return '[lambda]'
        if k == 'sizeof': return 'sizeof(..)'
        return k + '(' + ', '.join(e(c) for c in n.get('ch', [])) + ')'
    def type_of(self, nid):
        n = self.nodes[nid] if nid else None
        return self.F.strs[n['t']] if n and 't' in n else ''
    def base_member(self, nid):
        """name of the data member an lvalue expression designates (through subscripts, derefs and
        reference aliases initialised from a member), else None"""
        seen = 0
        while nid and seen < 12:
            seen += 1
            n = self.nodes[nid]
            if n is None: return None
            k = n['k']
            if k == 'mem' and n['dk'] == 'field': return n['n']
            if k == 'sub': nid = n['b']
            elif k == 'un' and n['op'] in ('*', '&'): nid = n['e']
            elif k in ('icast', 'cast'): nid = n['e']
            elif k == 'call' and n.get('op') in ('[]', '*') : nid = n.get('obj') or (n['args'][0] if n['args'] else 0)
            elif k == 'ref' and n['dk'] == 'local':
                nid = self.local_init(n['n'])
            else: return None
        return None
    def local_init(self, name):
        for n in self.nodes:
            if n and n['k'] == 'decl':
                for v in n['vars']:
                    if v['n'] == name and v['ref'] and v['hasinit']:
                        return v['init']
        return 0

class Facts:
    def __init__(self, path, tu=None):
        self.path = path; self.tu = tu or {}
        with open(path) as f:
            d = json.load(f)
        self.strs = d['strs']
        self.funcs = [Func(x, self) for x in d['funcs']]
        self.records = d['records']
        self.bykey = {f.k: f for f in self.funcs}
        self._byq = None; self._recq = None
    @property
    def name(self): return self.tu.get('name', self.path)
    def targs(self, a):
        if a is None: return None
        out = []
        for x in a:
            if 't' in x: out.append(self.strs[x['t']])
            elif 'i' in x: out.append(x['i'])
            elif 'd' in x: out.append('&' + self.strs[x['d']] + (('<' + ', '.join(str(y) for y in (self.targs(x['da']) or [])) + '>') if x.get('da') else ''))
            elif 'tt' in x: out.append(self.strs[x['tt']])
            else: out.append('?')
        return out
    def const_return(self, fk, depth=0):
        if not hasattr(self, '_cret'): self._cret = {}
        if fk in self._cret: return self._cret[fk]
        self._cret[fk] = None
        f = self.bykey.get(fk)
        if f is None or not f.blocks or depth > 6: return None
        vals = set()
        rb = f.reachable_blocks()
        for b in rb:
            for i in f.bmap[b]['e']:
                n = f.nodes[i]
                if n and n['k'] == 'ret':
                    if not n['e']: return None
                    vals.add(f.eval_const(n['e'], depth + 1))
        r = vals.pop() if len(vals) == 1 else None
        self._cret[fk] = r
        return r
    def by_q(self, q):
        if self._byq is None:
            self._byq = {}
            for f in self.funcs: self._byq.setdefault(f.q, []).append(f)
        return self._byq.get(q, [])
    def select(self, pred): return [f for f in self.funcs if pred(f)]
    def funcs_of_class(self, type_id):
        """functions whose innermost enclosing class is the one with this interned type id"""
        if not hasattr(self, '_byclass'):
            self._byclass = {}
            for f in self.funcs:
                cs = [c for c in f.d['ctx'] if 'c' in c]
                if cs: self._byclass.setdefault(cs[-1]['t'], []).append(f)
        return self._byclass.get(type_id, [])
    def funcs_of_lambda(self, lck):
        """call-operator instantiations of one closure class (generic lambdas have several)"""
        if not hasattr(self, '_bylam'):
            self._bylam = {}
            for f in self.funcs:
                cs = [c for c in f.d['ctx'] if 'c' in c]
                if cs and 'lck' in cs[-1]: self._bylam.setdefault(cs[-1]['lck'], []).append(f)
        return self._bylam.get(lck, [])
    def class_type(self, f):
        cs = [c for c in f.d['ctx'] if 'c' in c]
        return self.strs[cs[-1]['t']] if cs else None
    def rec_by_q(self, q):
        if self._recq is None:
            self._recq = {}
            for r in self.records: self._recq.setdefault(r['q'], []).append(r)
        return self._recq.get(q, [])
    def rec_by_type(self, t):
        if not hasattr(self, '_rect'):
            self._rect = {self.strs[r['t']]: r for r in self.records}
        return self._rect.get(t)
    @staticmethod
    def short(s, n=90):
        s = s.replace('boost::msm::', '').replace('(anonymous namespace)::', '')
        return s if len(s) <= n else s[:n] + '...'

# ----------------------------------------------------------------------------- template-string parsing

def split_targs(s):
    """'a<b<c>, d>, e' -> ['a<b<c>, d>', 'e'] at depth 0"""
    out = []; depth = 0; cur = ''
    i = 0
    while i < len(s):
        ch = s[i]
        if ch in '<([{': depth += 1
        elif ch in '>)]}': depth -= 1
        if ch == ',' and depth == 0:
            out.append(cur.strip()); cur = ''
        else:
            cur += ch
        i += 1
    if cur.strip(): out.append(cur.strip())
    return out

def parse_type(s):
    """'ns::tmpl<a, b>::inner' -> (head 'ns::tmpl', [args], rest '::inner'); no template -> (s, None, '')"""
    s = s.strip()
    i = s.find('<')
    if i < 0: return s, None, ''
    depth = 0
    for j in range(i, len(s)):
        if s[j] in '<([{': depth += 1
        elif s[j] in '>)]}':
            depth -= 1
            if depth == 0:
                return s[:i], split_targs(s[i + 1:j]), s[j + 1:]
    return s, None, ''

def strip_cvref(t):
    t = t.strip()
    changed = True
    while changed:
        changed = False
        for suf in ('&&', '&', ' const', ' volatile'):
            if t.endswith(suf): t = t[:-len(suf)].strip(); changed = True
        if t.startswith('const '): t = t[6:].strip(); changed = True
    return t

def type_list(s):
    """decode mpl::vector / vectorN / v_item / fusion::vector / mp_list / mp11 list -like type strings
    into the list of element type strings (None when not a recognised list)"""
    s = strip_cvref(s)
    head, args, rest = parse_type(s)
    if args is None:
        if head in ('boost::mpl::vector0<>',): return []
        return None
    if rest.strip(): return None
    h = head.split('::')[-1]
    if head.startswith('boost::mpl::') and (h == 'vector' or (h.startswith('vector') and h[6:].isdigit())):
        return [a for a in args if a not in ('mpl_::na', 'boost::mpl::na')]
    if head == 'boost::mpl::v_item':
        tail = type_list(args[1])
        if tail is None: return None
        return (tail + [args[0]]) if args[2].strip() == '0' else ([args[0]] + tail)
    if head == 'boost::mpl::v_mask':
        tail = type_list(args[0])
        if tail is None: return None
        return tail[:-1] if args[1].strip() == '0' else tail[1:]
    if head in ('boost::fusion::vector', 'boost::mp11::mp_list', 'std::tuple', 'boost::mpl::list', 'boost::fusion::vector_data'):
        return [a for a in args if a not in ('boost::fusion::void_', 'mpl_::na')]
    if head.startswith('boost::mpl::list') or head.startswith('boost::mpl::l_item'):
        if h == 'l_item':
            tail = type_list(args[2]) or []
            return [args[1]] + tail
        if h == 'l_end': return []
        return [a for a in args if a not in ('mpl_::na',)]
    if head.startswith('boost::fusion::vector') and h[6:].isdigit():
        return list(args)
    return None

# ----------------------------------------------------------------------------- parallel loading

def _extract_job(tu):
    try:
        p, s, c = extract_one(tu)
        return (tu['name'], p, s, c, None)
    except AnalysisBroken as e:
        return (tu['name'], None, 0, False, str(e))

def extract_all(tus, jobs=None):
    jobs = jobs or min(16, os.cpu_count() or 4)
    res = {}
    with ProcessPoolExecutor(max_workers=jobs) as ex:
        for name, p, s, c, err in ex.map(_extract_job, tus):
            if err: raise AnalysisBroken(err)
            res[name] = (p, s, c)
    return res
