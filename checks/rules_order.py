"""Row executors: order of guard / exit / action / entry and the four active-state writes (C02.order,
C19.slots), internal rows (C02.internal), returned codes (C06.row-result), exit-point activity test
(C09.exit-active), single guard evaluation (C01.once)."""
from engine import rule
from facts import Facts
from rules_core import backend_of, is_backend
from effects import Effects, path_events, leaf_class

EXTERNAL = {'row_', 'g_row_', 'a_row_', '_row_', 'transition'}
INTERNAL = {'irow_', 'g_irow_', 'a_irow_', '_irow_', 'internal_', 'a_internal_', 'g_internal_', '_internal_', 'internal_transition'}
FORWARD = {'frow', 'forward_transition'}
CHAIN = {'chain_row', 'transition_chain', 'internal_transition_chain'}   # chain executors: rules_plan / C01.chain
TAG_G = {'row_tag', 'g_row_tag', 'irow_tag', 'g_irow_tag', 'sm_i_row_tag', 'sm_g_i_row_tag'}
TAG_A = {'row_tag', 'a_row_tag', 'irow_tag', 'a_irow_tag', 'sm_i_row_tag', 'sm_a_i_row_tag'}
SLOTS = ['after_guard', 'after_exit', 'after_action', 'after_entry']

POLICY_TABLE = {   # value stored after guard, exit, action, entry ('S' = source, 'T' = target)
    'active_state_switch_after_entry': ['S', 'S', 'S', 'T'],
    'active_state_switch_after_transition_action': ['S', 'S', 'T', 'T'],
    'active_state_switch_after_exit': ['S', 'T', 'T', 'T'],
    'active_state_switch_before_transition': ['T', 'T', 'T', 'T'],
}

def policy_of(F, f):
    """the active-state-switch policy configured for the machine that owns this executor (typedef active_state_switching)"""
    for c in reversed([c for c in f.d['ctx'] if 'c' in c]):
        rec = F.rec_by_type(F.strs[c['t']])
        if rec and 'active_state_switching' in rec['tds']:
            return F.strs[rec['tds']['active_state_switching']].split('::')[-1]
    return None

def slot_returns(F, cn):
    """'S' / 'T' when the called policy function returns its first / second parameter on every path"""
    if not cn or cn['k'] != 'call' or 'fk' not in cn: return '?'
    g = F.bykey.get(cn['fk'])
    if g is None: return '?'
    names = [p['n'] for p in g.d['params']]
    vals = set()
    for n in g.nodes:
        if n and n['k'] == 'ret' and n['e']:
            r = g.nodes[n['e']]
            while r and r['k'] in ('icast', 'cast'): r = g.nodes[r['e']]
            vals.add(names.index(r['n']) if r and r['k'] == 'ref' and r['n'] in names else -1)
    if vals == {0}: return 'S'
    if vals == {1}: return 'T'
    return '?'

def executors(F):
    """static member functions `execute` of back-end classes that carry a `transition_event` typedef"""
    for f in F.funcs:
        if f.n != 'execute' or not f.d.get('static') or not is_backend(f) or not f.blocks: continue
        ct = F.class_type(f)
        rec = F.rec_by_type(ct) if ct else None
        if rec is None or 'transition_event' not in rec['tds']: continue
        yield f, rec

def front_row(F, f):
    """the front-end row type the executor was generated from (first template argument) and its record"""
    a = f.cls_args()
    if not a or not isinstance(a[0], str): return None, None
    return a[0], F.rec_by_type(a[0])

def row_tag(F, rowrec):
    if not rowrec: return None
    t = rowrec['tds'].get('row_type_tag')
    return F.strs[t].split('::')[-1] if t is not None else None

def returns_handled(F, E, fk, depth=0):
    """every return of the function yields the handled (or deferred) bit: enumerator, an action call, or such a function"""
    f = F.bykey.get(fk)
    if f is None or depth > 4: return False
    rets = [n for n in f.nodes if n and n['k'] == 'ret' and n['e']]
    if not rets: return False
    for r in rets:
        if not value_handled(F, E, f, r['e'], depth): return False
    return True

def value_handled(F, E, f, nid, depth=0):
    n = f.nodes[nid]
    if n is None: return False
    if n['k'] == 'ref' and n.get('dk') == 'enum': return n['n'] in ('HANDLED_TRUE', 'HANDLED_DEFERRED')
    if n['k'] == 'ref' and n.get('dk') == 'local':
        # every definition of the local must be handled-valued
        defs = []
        for m in f.nodes:
            if m and m['k'] == 'decl':
                for v in m['vars']:
                    if v['n'] == n['n']: defs.append(v['init'] if v['hasinit'] else None)
            if m and m['k'] == 'asg':
                l = f.nodes[m['lhs']]
                if l and l['k'] == 'ref' and l['n'] == n['n']: defs.append(m['rhs'])
        return bool(defs) and all(d and value_handled(F, E, f, d, depth) for d in defs)
    if n['k'] == 'call' and 'fk' in n:
        c = leaf_class(F, n)
        if c in ('ACTION', 'DEFER'): return True
        return returns_handled(F, E, n['fk'], depth + 1)
    if n['k'] in ('icast', 'cast'): return value_handled(F, E, f, n['e'], depth)
    return False

def tokens(ev):
    out = []
    for c, i, info in ev:
        if c == 'GUARD': out.append('G')
        elif c == 'EXIT': out.append('X')
        elif c in ('ACTION', 'DEFER'): out.append('A')
        elif c == 'ENTRY': out.append('E')
        elif c == 'W': out.append('W:' + str(info))
    # one call may reach the same class several times (cascades): collapse immediate repeats coming from one node
    return out

def collapse(ev):
    """events of one call node carrying several classes are kept in canonical order; duplicates per node removed"""
    seen = set(); out = []
    for e in ev:
        k = (e[0], e[1])
        if k in seen: continue
        seen.add(k); out.append(e)
    return out

def dependency_closure(f, nid, stop=None):
    """node ids an expression depends on: its operand tree plus, through locals, every definition of those locals
    (stop(node) true: the node is kept but its operands are not followed)"""
    seen = set(); work = [nid]; locs = set()
    defs = {}
    for i, m in enumerate(f.nodes):
        if not m: continue
        if m['k'] == 'decl':
            for v in m['vars']:
                if v['hasinit']: defs.setdefault(v['n'], []).append(v['init'])
        elif m['k'] == 'asg':
            l = f.nodes[m['lhs']]
            if l and l['k'] == 'ref' and l.get('dk') == 'local': defs.setdefault(l['n'], []).append(m['rhs'])
    while work:
        i = work.pop()
        if not i or i in seen: continue
        seen.add(i)
        n = f.nodes[i]
        if not n: continue
        if stop and stop(n): continue
        for key in ('lhs', 'rhs', 'e', 'b', 'i', 'c', 'a', 'obj', 'fn'):
            v = n.get(key)
            if isinstance(v, int) and key != 'l': work.append(v)
        for key in ('args', 'ch'):
            for v in n.get(key, []): work.append(v)
        if n['k'] == 'ref' and n.get('dk') == 'local' and n['n'] not in locs:
            locs.add(n['n'])
            work.extend(defs.get(n['n'], []))
    return seen

@rule('rows')
def rows(F, R):
    """all row-executor rules in one pass (they share the path enumeration)"""
    E = Effects(F)
    for f, rec in executors(F):
        be = backend_of(f); cls = f.cls
        kind = 'external' if cls in EXTERNAL else 'internal' if cls in INTERNAL else 'forward' if cls in FORWARD else None
        if cls in CHAIN: continue
        if kind is None:
            R.find('C02.order', f, 'unknown-executor:' + str(cls), 'executor class %s (has transition_event and a static execute) is not in the role table of the checker' % cls)
            continue
        R.seen(f)
        R.anchor('%s-exec:%s:%s' % (kind, be, cls))
        rowt, rowrec = front_row(F, f)
        tag = row_tag(F, rowrec)
        paths = [p for p in f.paths() if not f.aborts(p)]
        evs = [collapse(path_events(E, f, p)) for p in paths]
        inst = Facts.short(rowt or f.fq, 160)
        if kind == 'forward':
            # forwards to the submachine object of its own state exactly once, no behaviour of its own
            for p, ev in zip(paths, evs):
                tk = tokens(ev)
                nproc = sum(1 for e in ev if e[0] == 'PROCESS')
                ok = nproc == 1 and not [t for t in tk if t in ('G', 'X', 'A', 'E')]
                R.ob('C07.forward-exec', ok, {'func': f.q, 'path_events': [e[0] + ':' + str(e[2]) for e in ev]})
                if not ok:
                    R.find('C07.forward-exec', f, 'shape', 'forwarding executor must dispatch to the submachine exactly once and run no behaviour itself; path events: %s' % [e[0] for e in ev])
            continue
        if tag is None and kind in ('external', 'internal'):
            # eUML / generated rows always carry a tag; a missing record means the front-end row class was not emitted
            R.note('row without row_type_tag record: ' + inst)
        hasG = tag in TAG_G if tag else None
        hasA = tag in TAG_A if tag else None
        src_t = F.strs[rowrec['tds']['Source']] if rowrec and 'Source' in rowrec['tds'] else ''
        src_is_exit = '::exit_pt<' in src_t
        taken = 0; rejects = 0; falses = []
        for p, ev in zip(paths, evs):
            tk = tokens(ev)
            ret = [e for e in ev if e[0] == 'RET']
            retv = ret[-1][2] if ret else None
            retn = ret[-1][1] if ret else None
            effect = [t for t in tk if t != 'G']
            if kind == 'external':
                if effect:
                    taken += 1
                    g = ['G'] if 'G' in tk else []
                    a = ['A'] if 'A' in tk else []
                    expected = g + ['W:after_guard', 'X', 'W:after_exit'] + a + ['W:after_action', 'E', 'W:after_entry']
                    ok = tk == expected
                    R.ob('C02.order', ok, {'func': f.q, 'row': inst, 'sequence': tk})
                    if not ok:
                        R.find('C02.order', f, 'sequence', 'taken path runs %s, required %s (guard? . switch . exit . switch . action? . switch . entry . switch, once each)' % (tk, expected), where=f.at(ret[-1][1]) if ret else None, instance=inst)
                    # C19: the four writes use the four policy slots in order (part of the sequence), each with (current,next)
                    # C19.policies: what each slot call actually returns (source or target), resolved through the callee that the
                    # call binds to (also when a policy inherits a slot from another policy), against the documented table
                    pol = policy_of(F, f)
                    if pol in POLICY_TABLE:
                        rets = []
                        for e in ev:
                            if e[0] == 'W':
                                an = f.nodes[e[1]]
                                cn = f.nodes[an['rhs']] if an and an['k'] == 'asg' else None
                                rets.append(slot_returns(F, cn))
                        okp = rets == POLICY_TABLE[pol]
                        R.ob('C19.policies', okp, {'func': f.q, 'policy': pol, 'slot_values': rets})
                        if not okp:
                            R.find('C19.policies', f, 'policy:' + pol, 'under %s the four writes store %s, the documented table is %s' % (pol, rets, POLICY_TABLE[pol]), instance=inst)
                    ws = [t[2:] for t in tk if t.startswith('W:')]
                    ok19 = ws == SLOTS
                    R.ob('C19.slots', ok19, {'func': f.q, 'writes': ws})
                    if not ok19:
                        R.find('C19.slots', f, 'slots', 'active-state writes on the taken path use %s, required %s' % (ws, SLOTS), instance=inst)
                    if hasG is not None:
                        okg = (bool(g) == hasG) and (bool(a) == hasA)
                        R.ob('C14.rows-exec', okg, {'row': inst, 'tag': tag, 'guard_called': bool(g), 'action_called': bool(a)})
                        if not okg:
                            R.find('C14.rows-exec', f, 'tag-mismatch:' + str(tag), 'front-end row tagged %s (guard=%s, action=%s) but the executor calls guard=%s action=%s' % (tag, hasG, hasA, bool(g), bool(a)), instance=inst)
                    # back / back11: a row whose target is an explicit entry / fork / entry point must hand the submachine the event
                    # wrapped in direct_entry_event (else the submachine is entered like a plain composite)
                    tgt_t = F.strs[rowrec['tds']['Target']] if rowrec and 'Target' in rowrec['tds'] else ''
                    explicit_target = ('::direct<' in tgt_t or '::entry_pt<' in tgt_t) and be in ('back', 'back11')
                    if explicit_target:
                        wrapped = False
                        for e in ev:
                            if e[0] != 'ENTRY': continue
                            g = F.bykey.get(f.nodes[e[1]].get('fk'))
                            todo = [g]; seen_ = 0
                            while todo and seen_ < 4:
                                seen_ += 1
                                h = todo.pop()
                                if h is None: continue
                                for m_ in h.nodes:
                                    if m_ and m_['k'] in ('ctor', 'cast') and 'direct_entry_event<' in (F.strs[m_['t']] if 't' in m_ else ''): wrapped = True
                        R.anchor('explicit-target-exec:' + be)
                        R.ob('C09.wrap', wrapped, {'func': f.q, 'row': inst})
                        if not wrapped:
                            R.find('C09.wrap', f, 'unwrapped', 'the target of this row is an explicit entry / fork / entry point but the entry call does not wrap the event in direct_entry_event: the named substates are not activated', instance=inst)
                    # the completion hook of the target state runs only after the target has been entered
                    pn = f.path_nodes(p)
                    hooks = [x for x in pn if f.nodes[x] and f.nodes[x]['k'] == 'call' and f.nodes[x].get('n') == 'on_state_entry_completed']
                    if hooks:
                        ents = [e[1] for e in ev if e[0] == 'ENTRY']
                        okh = bool(ents) and all(pn.index(h) > pn.index(ents[-1]) for h in hooks)
                        R.ob('C10.first', okh, {'func': f.q, 'completion_hook_after_entry': okh})
                        if not okh:
                            R.find('C10.first', f, 'hook-before-entry', 'the completion occurrence of the target state is queued before the target\'s entry has run: if the entry throws, the completion transition of a state that was never entered still fires', where=f.at(hooks[0]), instance=inst)
                    okr = retn is not None and value_handled(F, E, f, f.nodes[retn]['e'])
                    R.ob('C06.row-result', okr, {'func': f.q, 'path': 'taken', 'returns': retv})
                    if not okr:
                        R.find('C06.row-result', f, 'taken-return', 'taken path returns %s, which is not the handled bit / the action result' % retv, instance=inst)
                    continue
            else:  # internal
                bad = [t for t in tk if t not in ('G', 'A')]
                if bad:
                    R.ob('C02.internal', False, {'func': f.q, 'sequence': tk})
                    R.find('C02.internal', f, 'effects', 'internal transition executor runs %s (only guard and action are allowed; no exit, entry or active-state write)' % tk, instance=inst)
                    continue
                if not (retv and 'HANDLED_GUARD_REJECT' in retv):
                    taken += 1
                    ok = tk in (['G', 'A'], ['A'], ['G'], [])
                    R.ob('C02.internal', ok, {'func': f.q, 'row': inst, 'sequence': tk})
                    if not ok:
                        R.find('C02.internal', f, 'sequence', 'internal transition runs %s, required guard? then action?, once each' % tk, instance=inst)
                    okr = retn is not None and value_handled(F, E, f, f.nodes[retn]['e'])
                    R.ob('C06.row-result', okr, {'func': f.q, 'path': 'taken-internal', 'returns': retv})
                    if not okr:
                        R.find('C06.row-result', f, 'taken-return', 'internal taken path returns %s, not the handled bit / the action result' % retv, instance=inst)
                    if hasG is not None:
                        okg = ('A' in tk) == hasA
                        R.ob('C14.rows-exec', okg, {'row': inst, 'tag': tag, 'action_called': 'A' in tk})
                        if not okg:
                            R.find('C14.rows-exec', f, 'tag-mismatch:' + str(tag), 'front-end internal row tagged %s but action called=%s' % (tag, 'A' in tk), instance=inst)
                    continue
            # no-effect path
            okp = tk in ([], ['G'])
            R.ob('C01.once', okp, {'func': f.q, 'no_effect_path': tk})
            if not okp:
                R.find('C01.once', f, 'guard-count', 'path without effects evaluates %s (a guard must be evaluated at most once)' % tk, instance=inst)
            if tk == ['G']:
                rejects += 1
                okr = bool(retv) and 'HANDLED_GUARD_REJECT' in retv
                R.ob('C06.row-result', okr, {'func': f.q, 'path': 'guard-reject', 'returns': retv})
                if not okr:
                    R.find('C06.row-result', f, 'reject-return', 'guard-reject path returns %s, required HANDLED_GUARD_REJECT' % retv, instance=inst)
            else:
                falses.append((p, retv))
                okr = bool(retv) and 'HANDLED_FALSE' in retv
                R.ob('C06.row-result', okr, {'func': f.q, 'path': 'not-enabled', 'returns': retv})
                if not okr:
                    R.find('C06.row-result', f, 'false-return', 'path without guard and effects returns %s, required HANDLED_FALSE' % retv, instance=inst)
        if taken == 0:
            R.find('C02.order', f, 'no-taken-path', 'executor has no path on which the transition is taken', instance=inst)
        if hasG and rejects == 0 and kind in ('external', 'internal'):
            R.ob('C14.rows-exec', False, {'row': inst, 'tag': tag})
            R.find('C14.rows-exec', f, 'guard-missing:' + str(tag), 'front-end row tagged %s has a guard but the executor has no guard-reject path' % tag, instance=inst)
        # C09.exit-active
        if kind == 'external':
            if src_is_exit:
                R.anchor('exit-source-exec:' + be)
                ok = False
                for p, retv in falses:
                    # the branch that leads here must depend on the owner's active-state array
                    for b in p:
                        blk = f.bmap[b]
                        if blk.get('tc') and blk.get('tcv') is None:
                            dep = dependency_closure(f, blk['tc'])
                            for d in dep:
                                n = f.nodes[d]
                                if n and n['k'] == 'call' and 'R_ACTIVE' in E.call_classes(f, n): ok = True
                R.ob('C09.exit-active', ok, {'func': f.q, 'row': inst, 'source': Facts.short(src_t, 100)})
                if not ok:
                    R.find('C09.exit-active', f, 'no-activity-test', 'row whose source is an exit pseudostate has no path that returns HANDLED_FALSE on a test of the owner\'s active states before the guard: the outer transition fires whenever the submachine is active', instance=inst)
            elif falses:
                R.find('C06.row-result', f, 'spurious-false', 'row with an ordinary source has a path returning without evaluating its guard', instance=inst)
