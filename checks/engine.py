"""Rule engine: runs per-TU rules in parallel, aggregates obligations, applies vacuity floors,
matches known findings, writes evidence, sets the exit code."""
import json, os, sys, time, traceback, importlib
from concurrent.futures import ProcessPoolExecutor
import corpus as corpus_mod, facts as facts_mod
from facts import AnalysisBroken, Facts

VERIF = corpus_mod.VERIF
RULES = {}        # name -> (fn, doc)
AGGREGATES = {}   # name -> fn(exports_by_tu, R)

def rule(name):
    def deco(fn):
        RULES[name] = fn
        fn.rule_name = name
        return fn
    return deco

def aggregate(name):
    def deco(fn):
        AGGREGATES[name] = fn
        return fn
    return deco

class Collector:
    """what one rule run on one TU produces (plain data, picklable)"""
    def __init__(self, tu_name=''):
        self.tu = tu_name
        self.findings = []     # dicts
        self.obl = {}          # rule -> [checked, discharged]
        self.anchors = {}      # anchor name -> count of analysed instances
        self.samples = {}      # rule -> list (max 3)
        self.exports = {}      # rule -> data (merged by aggregate functions)
        self.ninst = 0
        self.patterns = set()
        self.notes = []
    def anchor(self, name, n=1):
        self.anchors[name] = self.anchors.get(name, 0) + n
    def ob(self, rule, ok, sample=None):
        o = self.obl.setdefault(rule, [0, 0])
        o[0] += 1
        if ok: o[1] += 1
        if sample is not None:
            s = self.samples.setdefault(rule, [])
            if len(s) < 3 and sample not in s: s.append(sample)
    def find(self, rule, f, detail, msg, where=None, instance=None):
        """f: a Func (pattern file / qualified pattern name taken from it) or a (file, func) tuple"""
        if isinstance(f, tuple): file, func = f; inst = instance or ''
        else:
            file, func = f.file, f.q
            inst = instance if instance is not None else Facts.short(f.fq, 300)
            where = where or f.loc
        self.findings.append({'rule': rule, 'file': file, 'func': func, 'detail': detail, 'msg': msg,
                              'where': where or file, 'instance': inst, 'tu': self.tu})
    def seen(self, f):
        self.ninst += 1
        self.patterns.add(f.loc)
    def export(self, rule, data):
        self.exports[rule] = data
    def note(self, s):
        if s not in self.notes: self.notes.append(s)

def _load_rules():
    for m in ('rules_core', 'rules_order', 'rules_rtc', 'rules_plan', 'rules_struct', 'rules_types'):
        try:
            importlib.import_module(m)
        except ModuleNotFoundError as e:
            if m not in str(e): raise

def _run_tu(args):
    tu, rule_names = args
    try:
        _load_rules()
        path, secs, cached = facts_mod.extract_one(tu)
        F = Facts(path, tu)
        C = Collector(tu['name'])
        for rn in rule_names:
            RULES[rn](F, C)
        # does this TU instantiate code inside a compiler-conditional region (see corpus.gcc_overlay)?
        cond = False
        regs = tu.get('cond_regions') or {}
        if regs and tu.get('corpus') != 'G':
            for f in F.funcs:
                if not f.blocks: continue
                for (a, b, _c) in regs.get(f.file, ()):
                    l0 = int(f.loc.rsplit(':', 1)[1]); l1 = f.d.get('end') or l0
                    if l0 <= b and l1 >= a: cond = True
        return {'tu': tu['name'], 'findings': C.findings, 'obl': C.obl, 'anchors': C.anchors, 'samples': C.samples,
                'exports': C.exports, 'ninst': C.ninst, 'patterns': sorted(C.patterns), 'notes': C.notes,
                'extract_s': secs, 'cached': cached, 'nfuncs': len(F.funcs), 'err': None, 'cond': cond}
    except AnalysisBroken as e:
        return {'tu': tu['name'], 'err': 'broken: ' + str(e)}
    except Exception:
        return {'tu': tu['name'], 'err': 'engine: ' + traceback.format_exc()}

def load_known():
    p = os.path.join(VERIF, 'known_findings.json')
    if not os.path.exists(p): return {'findings': [], 'fixed': []}
    return json.load(open(p))

def fkey(prop, f):
    return (prop, f['rule'], f['file'], f['func'], f['detail'])

def run_property(prop, spec, tier, seed=0, tus=None, quiet=False):
    """spec: dict(rules=[...], floors={anchor: min}, level=..., explanation=..., assumptions=[...], static=[callables])"""
    t0 = time.time()
    _load_rules()
    facts_mod.gc_cache()
    tus = tus if tus is not None else corpus_mod.corpus(tier)
    if spec.get('tu_filter'):
        tus = [t for t in tus if spec['tu_filter'](t)]
    rule_names = spec['rules']
    for rn in rule_names:
        if rn not in RULES and rn not in AGGREGATES:
            raise AnalysisBroken('unknown rule ' + rn)
    per_tu_rules = [r for r in rule_names if r in RULES]
    jobs = min(16, os.cpu_count() or 4)
    results = []
    overlay, cond_regions = corpus_mod.gcc_overlay()
    if per_tu_rules and tus:
        tus = [dict(t, cond_regions=cond_regions) for t in tus]
        with ProcessPoolExecutor(max_workers=jobs) as ex:
            for r in ex.map(_run_tu, [(tu, per_tu_rules) for tu in tus]):
                results.append(r)
            # second parse, with the compiler-conditional regions as g++ sees them, of the TUs that instantiate code in such a region
            byname = {t['name']: t for t in tus}
            variants = [corpus_mod.gcc_variant(byname[r['tu']], overlay) for r in results if r.get('cond') and overlay]
            if tier != 'thorough':
                # quick tier: the witnesses and two test TUs are enough to see both forms of every compiler-conditional function
                variants = [v for v in variants if v['name'].startswith('G/W/') or os.path.basename(v['path']) in corpus_mod.QUICK_G]
            for r in ex.map(_run_tu, [(tu, per_tu_rules) for tu in variants]):
                results.append(r)
    broken = [r for r in results if r.get('err')]
    if broken:
        for r in broken: print('ANALYSIS-BROKEN property=%s tu=%s %s' % (prop, r['tu'], r['err']), file=sys.stderr)
        return finish(prop, spec, tier, seed, t0, None, broken=True)
    # merge
    M = Collector('merged')
    exports = {}
    for r in results:
        M.findings.extend(r['findings'])
        for k, v in r['obl'].items():
            o = M.obl.setdefault(k, [0, 0]); o[0] += v[0]; o[1] += v[1]
        for k, v in r['anchors'].items(): M.anchors[k] = M.anchors.get(k, 0) + v
        for k, v in r['samples'].items():
            s = M.samples.setdefault(k, [])
            for x in v:
                if len(s) < 3 and x not in s: s.append(x)
        for k, v in r['exports'].items(): exports.setdefault(k, {})[r['tu']] = v
        M.ninst += r['ninst']; M.patterns.update(r['patterns'])
        for n in r['notes']: M.note(n)
    for rn in rule_names:
        if rn in AGGREGATES:
            AGGREGATES[rn](exports, M, tier)
    for fn in spec.get('static', []):
        fn(M, tier)
    # honesty note: code that only other compilers see is not analysed by the clang front end
    try:
        import re, glob
        blind = []
        for p in glob.glob(os.path.join(corpus_mod.REPO, 'include', 'boost', 'msm', '**', '*.hpp'), recursive=True):
            if '/front/euml/' in p: continue
            for ln, line in enumerate(open(p, errors='replace'), 1):
                if re.match(r'\s*#\s*if.*__clang__', line): blind.append('%s:%d' % (p.split('/include/')[1], ln))
        nG = sum(1 for r in results if r['tu'].startswith('G/'))
        if blind and nG: M.note('compiler-conditional regions (%s): analysed in both forms - as clang selects them and, for the %d TUs that instantiate code inside one, re-parsed with the conditions evaluated as g++ does (corpus G)' % (', '.join(sorted(blind)), nG))
        elif blind: M.note('compiler-conditional regions whose non-clang branch is not analysed (no TU of this run instantiates code inside one): ' + ', '.join(sorted(blind)))
    except Exception:
        pass
    take = spec.get('take')
    if take is not None:
        take = set(take)
        M.findings = [f for f in M.findings if f['rule'] in take]
        M.obl = {k: v for k, v in M.obl.items() if k in take}
        M.samples = {k: v for k, v in M.samples.items() if k in take}
    stats = {'tus': [r['tu'] for r in results], 'extract_s': round(sum(r['extract_s'] for r in results), 1),
             'cached': sum(1 for r in results if r['cached']), 'nfuncs': sum(r['nfuncs'] for r in results)}
    return finish(prop, spec, tier, seed, t0, M, stats=stats)

def finish(prop, spec, tier, seed, t0, M, broken=False, stats=None):
    ev_dir = os.environ.get('VERIF_EVIDENCE_DIR') or os.path.join(VERIF, 'evidence'); os.makedirs(ev_dir, exist_ok=True)
    ev_path = os.path.join(ev_dir, prop + '.json')
    if broken:
        if os.path.exists(ev_path): os.unlink(ev_path)
        return 2
    # floors
    missing = []
    for a, mn in spec.get('floors', {}).items():
        if isinstance(mn, dict): mn = mn.get(tier, mn.get('quick', 1))
        if M.anchors.get(a, 0) < mn:
            missing.append('%s (%d < %d)' % (a, M.anchors.get(a, 0), mn))
    # dedupe findings by key
    known = load_known()
    kset = {(k['property'], k['rule'], k['file'], k['func'], k['detail']): k for k in known.get('findings', [])}
    groups = {}
    for f in M.findings:
        groups.setdefault(fkey(prop, f), []).append(f)
    viol = []; kn = []
    for k, fs in sorted(groups.items()):
        (kn if k in kset else viol).append((k, fs))
    if missing and not viol:
        # an anchor vanished and no rule reported a construct: the analysis cannot vouch for the property (never a pass)
        print('ANALYSIS-BROKEN property=%s anchors below floor: %s' % (prop, '; '.join(missing)), file=sys.stderr)
        if os.path.exists(ev_path): os.unlink(ev_path)
        return 2
    if missing:
        # a rule did report a specific construct: that report stands on its own; the vanished anchors are listed with it
        print('note: anchors below floor (reported together with the violation(s) below): %s' % '; '.join(missing))
    vdir = os.path.join(ev_dir, 'violations'); os.makedirs(vdir, exist_ok=True)
    for old in os.listdir(vdir):
        if old.startswith(prop + '-'): os.unlink(os.path.join(vdir, old))
    for k, fs in kn:
        print('KNOWN-FINDING: property=%s %s %s %s [%s] %s (%d instantiation(s))' % (prop, k[1], fs[0]['where'], k[3], k[4], kset[k].get('what', fs[0]['msg']), len(fs)))
    for i, (k, fs) in enumerate(viol):
        p = os.path.join(vdir, '%s-%d.json' % (prop, i + 1))
        json.dump({'property': prop, 'rule': k[1], 'file': k[2], 'func': k[3], 'detail': k[4], 'message': fs[0]['msg'],
                   'where': fs[0]['where'], 'instances': [{'tu': f['tu'], 'instance': f['instance'], 'where': f['where'], 'msg': f['msg']} for f in fs[:20]],
                   'n_instances': len(fs)}, open(p, 'w'), indent=1)
        print('%s: rule %s violated in %s [%s]: %s' % (fs[0]['where'], k[1], k[3], k[4], fs[0]['msg']))
        print('    exhibited by %d instantiation(s), e.g. %s (%s)' % (len(fs), fs[0]['instance'][:200], fs[0]['tu']))
        print('VIOLATION property=%s replay=%s' % (prop, p))
    nob = sum(v[0] for v in M.obl.values()); ndis = sum(v[1] for v in M.obl.values())
    samples = []
    for rn, ss in sorted(M.samples.items()):
        for s in ss[:2]: samples.append({'rule': rn, 'obligation': s})
    if not samples: samples = [{'note': 'no obligation instances'}]
    cov = {
        'explanation': spec.get('explanation', ''),
        'obligations': nob, 'discharged': ndis,
        'evaluations': max(nob, 1), 'distinct_nontrivial': max(len(M.patterns), sum(1 for v in M.obl.values() if v[0])),
        'rule': 'one obligation = one rule instance on one analysed function instantiation (or one type-level witness assertion); distinct = distinct source patterns (file:line of the template the instantiation comes from) that carried at least one obligation',
        'samples': samples,
        'per_rule': {k: {'checked': v[0], 'discharged': v[1]} for k, v in sorted(M.obl.items())},
        'anchors': dict(sorted(M.anchors.items())),
        'instantiations_analysed': M.ninst, 'distinct_patterns': len(M.patterns),
        'translation_units': (stats or {}).get('tus', []), 'programs': len((stats or {}).get('tus', [])),
        'functions_in_facts': (stats or {}).get('nfuncs', 0),
        'extract_seconds': (stats or {}).get('extract_s', 0), 'tus_from_cache': (stats or {}).get('cached', 0),
        'checker_cmd': './check %s --tier %s' % (prop, tier),
        'trusted_base': ['clang 14 front end (parsing, template instantiation, constant folding, CFG construction)',
                         '/verif/tools/msm-facts.cc extractor', '/verif/checks rule engine'],
        'known_findings_matched': [list(k[1:]) for k, _ in kn],
        'notes': M.notes,
        'exhaustive': False,
    }
    ev = {'property_id': prop, 'tier': tier, 'seed': seed, 'level': spec.get('level', 'other'), 'coverage': cov,
          'assumptions': spec.get('assumptions', []), 'wall_s': round(time.time() - t0, 2), 'violations': len(viol)}
    json.dump(ev, open(ev_path, 'w'), indent=1)
    print('property %s tier %s: %d TUs, %d instantiations / %d patterns analysed, %d obligations (%d discharged), %d known finding(s), %d violation(s), %.1fs'
          % (prop, tier, cov['programs'], M.ninst, len(M.patterns), nob, ndis, len(kn), len(viol), ev['wall_s']))
    return 1 if viol else 0
