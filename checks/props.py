"""Property -> rules, floors, evidence text."""
COMMON_ASSUME = [
    'clang 14 type-checks and instantiates the library the way the compilers used by clients do',
    'the analysed instantiations exercise every arm of the anchored function templates (checked: a missing anchor is exit 2)',
    'user behaviours (guards, actions, entry/exit) only interact with the library through its public API',
]
PROPS = {}
def prop(pid, **kw):
    kw.setdefault('level', 'other'); kw.setdefault('assumptions', COMMON_ASSUME); kw.setdefault('floors', {})
    PROPS[pid] = kw

prop('C01', rules=['C01.mask', 'rows', 'regions', 'defer_plan', 'visitset', 'plans', 'plans_mp11', 'plans_fct', 'plans_mp11_table'], take=['C01.mask', 'C01.once', 'C01.levels', 'C05.cell', 'C03.visit-set', 'C01.plan'],
     floors={'mask-sites:back': 1, 'mask-sites:back11': 1, 'mask-sites:backmp11': 1, 'plan-table:back': 1, 'plan-table:back11': 1, 'plan-table:backmp11': 1, 'plan-table:back-fct': 1, 'mp11-table': 1, 'fct-chain-add': 1, 'fct-state-dispatch': 1},
     explanation='Static rules over the type-checked instantiations of the dispatch code: C01.mask (no equality test on the handled enumerator of a result code).')
prop('C12', rules=['C12.assign', 'catch', 'flag', 'rows'], take=['C12.assign', 'C12.catch', 'C04.flag-exc', 'C04.flag-exit', 'C04.flag', 'C10.first', 'C19.slots', 'C02.order'],
     floors={'dispatch-site:back:do_process_helper': 1, 'dispatch-site:back11:do_process_helper': 1, 'dispatch-site:backmp11:process_event_internal': 1, 'dispatch-site:backmp11:process_completion_transition': 1},
     explanation='C12.assign: definite assignment of scalar locals of back-end functions with exception-handler edges. C12.catch: the dispatch runs inside a try whose std::exception handler calls exception_caught exactly once with the event being processed, cannot reach no_transition and yields HANDLED_FALSE; outside a try only in the no-exception configuration. C04.flag*: the processing flag is cleared on every exit, entry sequences hold it through a scope guard (a throwing entry does not wedge the machine), exception_caught runs under the flag.')

ROWS_EXPL = ('Row executors (every instantiation of row_/g_row_/a_row_/_row_, the irow_/internal_ families, frow, and the '
             'backmp11 transition / internal_transition / forward_transition): all CFG paths are enumerated (front-end folded '
             'constant branches removed, assertion-failure paths ignored) and abstracted to guard / exit / action / entry calls '
             '(classified through the resolved call graph), writes of the active-state array and the returned code.')
FLOOR_EXT = {'external-exec:back:row_': 1, 'external-exec:back:g_row_': 1, 'external-exec:back:a_row_': 1, 'external-exec:back:_row_': 1,
             'external-exec:back11:row_': 1, 'external-exec:back11:g_row_': 1, 'external-exec:back11:a_row_': 1, 'external-exec:back11:_row_': 1,
             'external-exec:backmp11:transition': 1}
FLOOR_INT = {'internal-exec:back:irow_': 1, 'internal-exec:back:g_irow_': 1, 'internal-exec:back:a_irow_': 1, 'internal-exec:back:_irow_': 1,
             'internal-exec:back11:irow_': 1, 'internal-exec:back11:g_irow_': 1, 'internal-exec:back11:a_irow_': 1, 'internal-exec:back11:_irow_': 1,
             'internal-exec:back:internal_': 1, 'internal-exec:back:a_internal_': 1, 'internal-exec:back11:internal_': 1, 'internal-exec:back11:a_internal_': 1,
             'internal-exec:backmp11:internal_transition': 1}
FLOOR_CASC = {'composite-exit:back': 1, 'composite-exit:back11': 1, 'composite-exit:backmp11': 1, 'composite-entry:back': 1, 'composite-entry:back11': 1, 'composite-entry:backmp11': 1,
              'region-helper-step:back:region_entry_exit_helper::do_exit': 1, 'region-helper-step:back11:region_entry_exit_helper::do_exit': 1,
              'region-helper-step:back:region_start_helper::do_start': 1, 'region-helper-step:back11:region_start_helper::do_start': 1,
              'preprocess-entry:backmp11': 1, 'leaf-behaviour-call:back': 1, 'leaf-behaviour-call:back11': 1, 'leaf-behaviour-call:backmp11': 1}
prop('C02', rules=['rows', 'cascade', 'kind'], take=['C02.order', 'C02.internal', 'C02.cascade', 'C02.kind'], floors={**FLOOR_EXT, **FLOOR_INT, **FLOOR_CASC},
     explanation=ROWS_EXPL + ' C02.order: on every taken path guard? < switch < exit < switch < action? < switch < entry < switch, each exactly once; C02.internal: internal executors run guard and action only. C02.cascade: composite exit = substates in ascending region order (recursion to region+1 after the region\'s own exit; backmp11 visit of the active ids), own on_exit, history; composite entry mirrors it. C02.kind: the plain on_entry / on_exit of a state is never invoked on a receiver whose static type is a back-end machine.')
prop('C19', rules=['rows'], take=['C19.slots', 'C19.policies'], floors=FLOOR_EXT,
     explanation=ROWS_EXPL + ' C19.slots: the four writes of the active-state id use after_guard, after_exit, after_action, after_entry in this order, interleaved with the behaviours.')
prop('C09', rules=['rows', 'cascade', 'history', 'bounds'], take=['C09.exit-active', 'C09.entry', 'C08.event', 'C03.bounds'], floors={'exit-source-exec:back': 1, 'exit-source-exec:back11': 1, 'exit-source-exec:backmp11': 1},
     explanation=ROWS_EXPL + ' C09.exit-active: an executor whose source is an exit pseudostate has a path returning HANDLED_FALSE before the guard, decided by a test that depends on the owner submachine\'s active-state array.')

prop('C04', rules=['queues', 'flag', 'poolchain', 'drain'], take=['C04.queue-ops', 'C04.dequeue', 'C04.erase', 'C04.target', 'C04.flag', 'C04.flag-exc', 'C04.flag-drain', 'C04.flag-exit', 'C04.flag-test', 'C10.first'],
     floors={'flag-fn:back:process_event_internal': 1, 'flag-fn:back11:process_event_internal': 1, 'flag-fn:backmp11:process_event_internal': 1,
             'flag-fn:back:start': 1, 'flag-fn:back11:start': 1, 'flag-fn:back:do_entry': 1, 'flag-fn:back11:do_entry': 1, 'flag-fn:backmp11:on_entry': 1,
             'flag-fn:backmp11:on_explicit_entry': 1, 'flag-fn:backmp11:process_completion_transition': 1,
             'queue-op:back:MSGQ:push_back': 1, 'queue-op:back11:MSGQ:push_back': 1, 'queue-op:back:MSGQ:pop_front': 1, 'queue-op:back11:MSGQ:pop_front': 1,
             'queue-op:backmp11:POOL:push_back': 1, 'queue-op:backmp11:POOL:erase': 1, 'queue-op:backmp11:POOL:push_front': 1,
             'dequeue-site:back:process_message_queue': 1, 'dequeue-site:back11:process_message_queue': 1,
             'dequeue-site:back:execute_queued_events_helper': 1, 'dequeue-site:back:execute_single_queued_event_helper': 1,
             'dequeue-site:back11:execute_queued_events_helper': 1, 'dequeue-site:back11:execute_single_queued_event_helper': 1,
             'stored-callable:back:MSGQ': 1, 'stored-callable:back11:MSGQ': 1},
     explanation='Processing-flag typestate (must-analysis T/F over the CFG of process_event_internal, process_completion_transition, start, do_entry, on_entry, on_explicit_entry with summaries of the flag helpers and scope guards): behaviours and the dispatch run with the flag set, pending-event processing runs with it cleared, every exit leaves it cleared, entry sequences hold it through a scope guard. Queue discipline: who-may-call table for every mutating operation on the message queue, deferred queue and event pool; dequeue protocol front < pop_front < invoke of a by-value copy; erase only of an occurrence marked processed; stored callable bound to the submitting machine with the event by value.')

prop('C06', rules=['regions', 'rows', 'C01.mask', 'wiring', 'plans_mp11_table'], take=['C06.regions', 'C06.or', 'C06.nt', 'C06.row-result', 'C01.mask', 'C07.wiring'],
     floors={'region-single:back': 1, 'region-single:back11': 1, 'region-step:back': 1, 'region-step:back11': 1, 'region-end:back': 1, 'region-end:back11': 1,
             'region-entry:back': 1, 'region-entry:back11': 1, 'do_process_event:back': 1, 'do_process_event:back11': 1, 'do_process_event:backmp11': 1,
             'nt-site:back': 1, 'nt-site:back11': 1, 'nt-site:backmp11': 1, 'nt-completion:back': 1, 'nt-completion:back11': 1, **FLOOR_EXT},
     explanation='Region dispatch: every instantiation of the region recursion In<N>::process invokes the cell entries[m_states[N]+1] with (fsm, N, m_states[N], evt) and continues with N+1, starting at 0 and ending at nr_regions with the machine-internal table (backmp11: the for loop 0..nr_regions-1); every write of the accumulated result ORs the old value; do_process_event starts at HANDLED_FALSE and returns the accumulator; no_transition has one call site, on this, with the reported region\'s active id, reachable only through "accumulator is zero" and the containment / direct-call test and unreachable for completion events; row executors return the handled bit / guard-reject / HANDLED_FALSE per path (C06.row-result).')

prop('C07', rules=['rows', 'cascade', 'kind', 'wiring', 'C01.mask', 'plans', 'plans_mp11', 'plans_fct', 'anyevents'], take=['C07.forward-exec', 'C02.cascade', 'C02.kind', 'C07.wiring', 'C01.mask', 'C01.plan', 'C18.frow-event', 'C07.any-events'],
     floors={'forward-exec:back:frow': 1, 'forward-exec:back11:frow': 1, 'forward-exec:backmp11:forward_transition': 1, 'wiring:back': 1, 'wiring:back11': 1, **FLOOR_CASC},
     explanation='Hierarchy: forwarding executors dispatch to their own submachine object exactly once and run no behaviour (C07.forward-exec); a consumed inner event stops outer candidates (C01.mask: bit tests only); cascaded exit / entry order and composite dispatch (C02.cascade, C02.kind); substates are wired to their container last in every constructor so that containment marks and exit-point forwarders are not overwritten (C07.wiring).')
prop('C03', rules=['cascade', 'bounds', 'visitset'], take=['C03.start-stop', 'C03.region-index', 'C03.bounds', 'C03.visit-set'],
     floors={'start:back': 1, 'start:back11': 1, 'start:backmp11': 1, 'stop:backmp11': 1, 'visit-set-with-submachines:1-pred': 1, 'visit-set-with-submachines:2-pred': 1, 'active-range:back': 1, 'active-range:back11': 1},
     explanation='start() rewrites the active ids from the initial states before any entry, then machine entry, initial entries, completion, queue; stop() reaches the composite exit cascade exactly once (backmp11: guarded by the running mark, which is cleared after the cascade); every region helper indexes the active-state array with its own region constant.')
prop('C08', rules=['cascade', 'history'], take=['C08.sites', 'C08.table', 'C08.event', 'C08.private'], floors={'composite-entry:back': 1, 'composite-entry:back11': 1, 'composite-entry:backmp11': 1, 'history-entry:backmp11': 1,
     'history-impl:NoHistoryImpl::history_entry': 1, 'history-impl:AlwaysHistoryImpl::history_entry': 1, 'history-impl:ShallowHistoryImpl::history_entry': 1, 'history-impl:ShallowHistoryImpl::history_exit': 1, 'history-impl:ShallowHistoryImpl::set_initial_states': 1,
     'history-impl:mp11:no:on_entry': 1, 'history-impl:mp11:always:on_entry': 1, 'history-impl:mp11:shallow:on_entry': 1, 'history-impl:mp11:shallow:on_exit': 1, 'history-cell:mp11': 1, 'history-member:back': 1, 'history-member:back11': 1, 'history-member:backmp11': 1},
     explanation='History call sites: composite entry applies the history policy to all regions before explicit overrides and before any entry; backmp11 history entry first sets all active ids, then runs exactly those entries. C08.table: per policy implementation the exit stores every region (element-wise loops cover 0..N-1), the entry yields stored / initial ids per policy with the shallow test being membership of the entering event type in the configured list (oracle recomputed from the template arguments), the memory is initialised from the initial states. C08.event: the history entry is never instantiated with the direct-entry wrapper, a reference or cv-qualified event type. C08.private: the memory is a by-value member of the machine.')
prop('C10', rules=['cascade', 'drain', 'flag', 'queues', 'rows'], take=['C10.first', 'C04.flag-drain', 'C04.queue-ops'], floors={'internal-start:back': 1, 'internal-start:back11': 1, 'entry-visitor:backmp11': 1, 'post-step:back': 1, 'post-step:back11': 1, 'post-step:backmp11': 1, 'queue-op:backmp11:POOL:push_front': 1},
     explanation='Completion first: internal_start dispatches the completion event right after the substate entries; backmp11 every state entry is followed by on_state_entry_completed (which inserts the completion occurrence at the front of the pool, see C04.queue-ops).')
prop('C05', rules=['queues', 'cascade', 'seqtype', 'defer_plan', 'visitset'], take=['C04.queue-ops', 'C04.dequeue', 'C04.erase', 'C04.target', 'C05.clear', 'C05.seq-type', 'C05.cell', 'C03.visit-set'],
     floors={'queue-op:back:DEFQ:push_back': 1, 'queue-op:back11:DEFQ:push_back': 1, 'queue-op:back:DEFQ:pop_front': 1, 'queue-op:back11:DEFQ:pop_front': 1,
             'queue-op:back:DEFQ:stable_sort': 1, 'queue-op:back11:DEFQ:stable_sort': 1, 'queue-op:backmp11:POOL:push_back': 1, 'queue-op:backmp11:POOL:erase': 1,
             'seq-compare:back': 1, 'seq-compare:back11': 1, 'seq-compare:backmp11': 1, 'deferral-check:backmp11-frs': 1},
     explanation='Deferred-queue operation discipline: append only (push_back) with the stored callable bound to the deferring machine and the event by value, removal only front/pop_front after copy-out, re-ordering only by stable_sort, clear only on exit when the history policy drops deferred events (C05.clear); backmp11 pool: append / erase-after-mark.')

prop('C11', rules=['gate'], take=['C11.gate', 'C11.type'],
     floors={'gate-blocking:back:process_event_internal': 1, 'gate-blocking:back11:process_event_internal': 1, 'gate-blocking:backmp11:process_event_internal': 1,
             'gate-blocking:backmp11:process_completion_transition': 1, 'gate-helper:back': 1, 'gate-helper:back11': 1},
     explanation='Blocking gate: in process_event_internal (3 back-ends) and process_completion_transition every path reaches the terminate / interrupt test before any flag access, queue operation, deferral or dispatch, and the "blocked" outcome returns without any of them; the back/back11 helper returns true exactly for terminate or (interrupted and not end-interrupt) and looks the end-interrupt flag up for the decayed event type; machines with blocking states (front-end internal_flag_list) use the real test.')

prop('C15', rules=['copyser', 'copymp11', 'wiring', 'copyspecial', 'history'], take=['C15.fields', 'C15.pool', 'C15.ctor', 'C15.this', 'C07.wiring', 'C08.table', 'C08.private'],
     floors={'do_copy:back': 1, 'do_copy:back11': 1, 'copy-entry:back:ctor': 1, 'copy-entry:back:assign': 1, 'copy-entry:back11:ctor': 1, 'copy-entry:back11:assign': 1,
             'non_propagating:copy_assign': 1, 'pool-class:deferred_event': 1, 'pool-class:event_occurrence': 1, 'mp11-copy-ctor:copy_ctor': 1, 'mp11-copy-ctor:move_ctor': 1,
             'this-capture:back': 1, 'this-capture:back11': 1},
     explanation='Field coverage of copies: every data member of the back/back11 machine is assigned in do_copy or listed (with reason) as rebuilt; copy constructor and assignment go through do_copy and re-bind the copied states; backmp11 copy/move constructors delegate to the default constructor (wiring) and assign; non_propagating does not propagate the root pointer; pooled occurrences hold no machine pointer/reference and the event by value. Aliasing: a callable capturing the machine address is stored in a queue that do_copy copies (C15.this, genuine defect D5, recorded as known finding).')
prop('C16', rules=['copyser'], take=['C16.fields'],
     floors={'serialize:back': 1, 'serialize:back11': 1, 'serialize_state:back': 1, 'serialize_state:back11': 1, 'serialize:history:NoHistoryImpl': 1, 'serialize:history:ShallowHistoryImpl': 1},
     explanation='Field coverage of serialization: serialize() archives the front-end base object and every data member of the machine except the documented unserialisable ones (queues, visitors, container pointer), each history policy archives all its members, serialize_state archives exactly the composite and do_serialize states. One serialize() serves both directions (Boost.Serialization operator&). Round-trip behaviour is not decided.')

prop('C17', rules=['flags', 'visitset', 'rows'], take=['C17.table', 'C17.pure', 'C17.visitor', 'C03.visit-set', 'C19.slots', 'C19.policies'],
     floors={'init-flags:back': 1, 'init-flags:back11': 1, 'flag-fold:back': 1, 'flag-fold:back11': 1, 'flag-query:backmp11': 1, 'flag-visitor:flag_or': 1, 'flag-visitor-call:flag_or': 1,
             'visit-set-with-submachines:1-pred': 1},
     explanation='Flag tables: for every (state, flag) instantiation of the back/back11 table initialiser the installed handler equals the oracle recomputed from the state\'s declared flag_list / internal_flag_list (true / forward into a composite unless the flag is non-forwarding / false); is_flag_active is const, consults region 0 and folds regions 1..N-1 over the active ids only and writes no member; backmp11: the query is const and traverses the active configuration recursively, the OR / AND visitors start at false / true and set true / false, and the compile-time pruning sets are closed under nesting (C03.visit-set).')

import rules_types
prop('C14', rules=['rows', 'rowtags'], take=['C14.rows-exec', 'C14.rows', 'C14.puml'], static=[rules_types.puml_static],
     floors={'front-row:state_machine_def.hpp:row': 1, 'front-row:state_machine_def.hpp:a_row': 1, 'front-row:state_machine_def.hpp:g_row': 1, 'front-row:state_machine_def.hpp:_row': 1,
             'front-row:state_machine_def.hpp:irow': 1, 'front-row:state_machine_def.hpp:a_irow': 1, 'front-row:state_machine_def.hpp:g_irow': 1, 'front-row:state_machine_def.hpp:_irow': 1,
             'front-row:functor_row.hpp:Row': 1, 'front-row:functor_row.hpp:Internal': 1, 'front-row:internal_row.hpp:a_internal': 1, 'front-row:internal_row.hpp:g_internal': 1,
             'front-row:internal_row.hpp:internal': 1, 'front-row:internal_row.hpp:_internal': 1, 'tl-puml-asserts': 20, **FLOOR_EXT, **FLOOR_INT},
     explanation='Front-end / back-end agreement: every front-end row class carries the tag matching the calls it provides (guard_call / action_call, Guard / Action typedefs, internal iff no target) (C14.rows); every executor instantiation calls the guard / action exactly when the row\'s tag says so and has a guard-reject path when the row has a guard (C14.rows-exec); PlantUML: a generated matrix of spellings of one transition line (1-4 dashes, padding, actions/guard in both orders, 0-3 actions, guard expressions with ! && || and one parenthesis level) must yield the row type of the canonical spelling, plus fixed expectations for parts and operator precedence, compiled as static_asserts with clang -fsyntax-only (C14.puml). This decides those strings, not the whole grammar.')
prop('C18', rules=['casts', 'plans', 'plans_mp11', 'plans_fct', 'plans_mp11_table', 'queues'], take=['C18.cast', 'C01.plan', 'C04.target', 'C18.frow-event'],
     floors={'cell-cast:back11': 1, 'plan-table:back': 1, 'plan-table:back11': 1, 'stored-callable:back:MSGQ': 1, 'stored-callable:back11:MSGQ': 1},
     explanation='Event matching: for every instantiated back/back11 runtime-speed dispatch table the candidates installed per state equal the rows allowed by "same type, public base, or Kleene" in table priority order, recomputed from the front-end declarations (C01.plan); no executor is called through a cell signature with a different event class unless the trigger is on the primary-base chain of the event (C18.cast); queued / deferred events are stored by value (C04.target). Payload through user conversions is not decided.')

prop('C20', rules=['poly', 'queues', 'copymp11'], take=['C20.poly', 'C20.erasure', 'C20.cb', 'C04.queue-ops', 'C04.erase', 'C04.dequeue', 'C04.target', 'C15.pool'], static=[rules_types.poly_static],
     floors={'poly:copy_ctor': 1, 'poly:copy_assign': 1, 'poly:move_ctor': 1, 'poly:move_assign': 1, 'poly:dtor': 1, 'poly:value-ctor': 1, 'poly:destroy': 1, 'cb:move': 1, 'cb:copy': 1, 'cb:destroy': 1,
             'pool-layout:deferred_event': 1, 'erasure:exit-forwarder': 1, 'erase-site:do_process_event_pool': 1, 'tl-poly-asserts': 15},
     explanation='Stored events: basic_polymorphic_base assignments test self-assignment, destroy the held object, take the control block and copy / move, in this order; constructors take the control block then copy / move; the destructor destroys once; the value constructors store into buffer or heap in agreement with the control block they select; control_block::move nulls a stolen heap pointer, destroy is null-tolerant; event_occurrence is the first base of pooled classes; the exit-point forwarder reads the type it is handed; pool erase only after marked_for_deletion; queue elements store the event by value; inline / heap selection over a size x alignment x nothrow-move matrix and the control-block capacity are asserted at compile time (C20.cb). Absence of use-after-free over operation histories is not decided.')

SIB_TAKE = ['C13.siblings', 'C07.any-events', 'C19.policies', 'C01.plan', 'C18.frow-event', 'C01.mask', 'C02.order', 'C02.internal', 'C19.slots', 'C06.row-result', 'C06.or', 'C06.nt', 'C06.regions', 'C09.exit-active', 'C04.flag', 'C04.flag-test', 'C04.flag-drain', 'C04.flag-exit', 'C04.queue-ops', 'C11.gate', 'C12.catch', 'C02.cascade', 'C10.first', 'C05.cell', 'C03.visit-set']
prop('C13', rules=['siblings', 'siblings_cmp', 'plans', 'plans_mp11', 'plans_fct', 'plans_mp11_table', 'anyevents', 'C01.mask', 'rows', 'regions', 'flag', 'queues', 'gate', 'catch', 'cascade', 'drain', 'defer_plan', 'visitset'], take=SIB_TAKE,
     floors={'sibling-patterns': 60, 'plan-table:back': 1, 'plan-table:back11': 1, 'plan-table:backmp11': 1, 'plan-table:back-fct': 1, 'mp11-table': 1, 'fct-chain-add': 1, **FLOOR_EXT},
     explanation='Equivalence of configurations, decided structurally: (1) sibling agreement - every function of back and back11 (state_machine.hpp, dispatch_table.hpp) instantiated for the same front-end machine and the same arguments in both back-ends has the same set of abstract path signatures (resolved library callees, enumerator / flag arguments, member writes, returns); (2) the dispatch plans of back, back11 and backmp11 (flat_fold and function_pointer_array share them) each equal the one oracle computed from the front-end declarations, hence each other; (3) every shape rule that has instances in several back-ends (execution order, policy slots, result codes, run-to-completion flag, queue discipline, blocking gate, exception handling, cascades) is evaluated on all of them. Trace equality over event sequences is not decided.')
