"""Property -> rules, floors, evidence text."""
COMMON_ASSUME = [
    'clang 14 type-checks and instantiates the library the way the compilers used by clients do',
    'the analysed instantiations exercise every arm of the anchored function templates (checked: a missing anchor is exit 2)',
    'user behaviours (guards, actions, entry/exit) only interact with the library through its public API',
]
PROPS = {}
def prop(pid, **kw):
    kw.setdefault('level', 'other'); kw.setdefault('assumptions', COMMON_ASSUME); kw.setdefault('floors', {})
    PROPS[pid] = kw

prop('C01', rules=['C01.mask'],
     floors={'mask-sites:back': 1, 'mask-sites:back11': 1, 'mask-sites:backmp11': 1},
     explanation='Static rules over the type-checked instantiations of the dispatch code: C01.mask (no equality test on the handled enumerator of a result code).')
prop('C12', rules=['C12.assign'],
     floors={'uninit-locals-in-try-functions:backmp11': 1},
     explanation='C12.assign: definite assignment of scalar locals of back-end functions with exception-handler edges.')
