"""Plan-level rules: what the generated dispatch / deferral / flag code covers, compared with an oracle computed from the
front-end declarations of the same TU (model.py)."""
from engine import rule
from facts import Facts, strip_cvref, parse_type, type_list
from rules_core import backend_of, is_backend
from model import Model

@rule('defer_plan')
def defer_plan(F, R):
    """C05.cell (backmp11 favor_runtime_speed): for every machine SM and event E for which the deferral check
    is_event_deferred<SM,E> is instantiated: if any state below SM (any nesting depth) lists E in deferred_events then (a) the
    check must contain the visitor traversal (it is compiled away only when no state can defer E) and (b) the deferral visitor's
    call operator must be instantiated for each such state (i.e. the pruned visit sets still reach it)."""
    M = Model(F)
    visited = {}     # event -> set(state types the deferral visitor is instantiated for)
    for f in F.funcs:
        if f.n == 'operator()' and f.cls == 'is_event_deferred_visitor' and backend_of(f) == 'backmp11':
            ev = f.cls_args('is_event_deferred_visitor')
            ta = f.targs()
            if ev and ta: visited.setdefault(strip_cvref(str(ev[0])), set()).add(strip_cvref(str(ta[0])))
    for f in F.funcs:
        if f.n != 'is_event_deferred' or backend_of(f) != 'backmp11' or not f.d.get('static') or not f.blocks: continue
        ta = f.targs()
        if not ta or len(ta) < 2: continue
        sm_t = strip_cvref(str(ta[0])); ev = strip_cvref(str(ta[1]))
        m = M.machine_of(sm_t)
        if m is None or M.rows(m.fe) is None: continue
        if 'favor_runtime_speed' not in F.class_type(f): continue
        R.seen(f); R.anchor('deferral-check:backmp11-frs')
        deferring = [(s, d) for s, d, fe in M.descendants(m.fe) if ev in [strip_cvref(x) for x in M.deferred(s)]]
        has_visit = any(n.get('n') == 'visit' for i, n in f.calls())
        ok = (not deferring) or has_visit
        sample = {'machine': Facts.short(m.fe, 60), 'event': Facts.short(ev, 40), 'deferring_states': [(Facts.short(s, 40), d) for s, d in deferring], 'traversal_present': has_visit}
        R.ob('C05.cell', ok, sample)
        if not ok:
            R.find('C05.cell', f, 'deferral-pruned', 'event %s is deferred by %s (depth %d) below machine %s but the generated deferral check is constant false: the event is dispatched / reported instead of retained' % (Facts.short(ev, 40), Facts.short(deferring[0][0], 60), deferring[0][1], Facts.short(m.fe, 60)), instance=Facts.short(m.fe, 100) + ' / ' + Facts.short(ev, 40))
            continue
        for s, d in deferring:
            okv = s in visited.get(ev, set())
            R.ob('C05.cell', okv, {'machine': Facts.short(m.fe, 60), 'event': Facts.short(ev, 40), 'state': Facts.short(s, 50), 'depth': d})
            if not okv:
                R.find('C05.cell', f, 'deferral-unreached', 'state %s (depth %d) defers %s but the deferral visitor is never instantiated for it: the traversal is pruned before reaching it' % (Facts.short(s, 60), d, Facts.short(ev, 40)), instance=Facts.short(m.fe, 100) + ' / ' + Facts.short(ev, 40))
