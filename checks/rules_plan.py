"""Plan-level rules: what the generated dispatch / deferral / flag code covers, compared with an oracle computed from the
front-end declarations of the same TU (model.py)."""
from engine import rule
from facts import Facts, strip_cvref, parse_type, type_list
from rules_core import backend_of, is_backend
from model import Model

@rule('defer_plan')
def defer_plan(F, R):
    """C05.cell (backmp11 favor_runtime_speed): for every machine SM and event E for which the deferral check
    is_event_deferred<SM,E> is instantiated: if any state below SM (any nesting depth) lists E in deferred_events then (a) the
    check must contain the visitor traversal (it is compiled away only when no state can defer E) and (b) the deferral visitor's
    call operator must be instantiated for each such state (i.e. the pruned visit sets still reach it)."""
    M = Model(F)
    visited = {}     # event -> set(state types the deferral visitor is instantiated for)
    for f in F.funcs:
        if f.n == 'operator()' and f.cls == 'is_event_deferred_visitor' and backend_of(f) == 'backmp11':
            ev = f.cls_args('is_event_deferred_visitor')
            ta = f.targs()
            if ev and ta: visited.setdefault(strip_cvref(str(ev[0])), set()).add(strip_cvref(str(ta[0])))
    for f in F.funcs:
        if f.n != 'is_event_deferred' or backend_of(f) != 'backmp11' or not f.d.get('static') or not f.blocks: continue
        ta = f.targs()
        if not ta or len(ta) < 2: continue
        sm_t = strip_cvref(str(ta[0])); ev = strip_cvref(str(ta[1]))
        m = M.machine_of(sm_t)
        if m is None or M.rows(m.fe) is None: continue
        if 'favor_runtime_speed' not in F.class_type(f): continue
        R.seen(f); R.anchor('deferral-check:backmp11-frs')
        deferring = [(s, d) for s, d, fe in M.descendants(m.fe) if ev in [strip_cvref(x) for x in M.deferred(s)]]
        has_visit = any(n.get('n') == 'visit' for i, n in f.calls())
        ok = (not deferring) or has_visit
        sample = {'machine': Facts.short(m.fe, 60), 'event': Facts.short(ev, 40), 'deferring_states': [(Facts.short(s, 40), d) for s, d in deferring], 'traversal_present': has_visit}
        R.ob('C05.cell', ok, sample)
        if not ok:
            R.find('C05.cell', f, 'deferral-pruned', 'event %s is deferred by %s (depth %d) below machine %s but the generated deferral check is constant false: the event is dispatched / reported instead of retained' % (Facts.short(ev, 40), Facts.short(deferring[0][0], 60), deferring[0][1], Facts.short(m.fe, 60)), instance=Facts.short(m.fe, 100) + ' / ' + Facts.short(ev, 40))
            continue
        for s, d in deferring:
            okv = s in visited.get(ev, set())
            R.ob('C05.cell', okv, {'machine': Facts.short(m.fe, 60), 'event': Facts.short(ev, 40), 'state': Facts.short(s, 50), 'depth': d})
            if not okv:
                R.find('C05.cell', f, 'deferral-unreached', 'state %s (depth %d) defers %s but the deferral visitor is never instantiated for it: the traversal is pruned before reaching it' % (Facts.short(s, 60), d, Facts.short(ev, 40)), instance=Facts.short(m.fe, 100) + ' / ' + Facts.short(ev, 40))

@rule('visitset')
def visitset(F, R):
    """C03.visit-set (backmp11): the compile-time pruning sets of the filtered recursive state visitors (used by is_state_active,
    is_flag_active, the deferral check, ...) are closed under nesting: for every instantiated recursive_visit_set<SM, P...> and every
    submachine Sub of SM the set for (Sub, P) exists and Sub is traversed exactly when that set says it needs traversal."""
    rvs = {}
    for r in F.records:
        if r['n'] == 'recursive_visit_set' and r['loc'].startswith('boost/msm/backmp11/') and r.get('a'):
            a = F.targs(r['a'])
            if len(a) >= 2:
                rvs[(strip_cvref(str(a[0])),) + tuple(str(x) for x in a[1:])] = r
    if not rvs: return
    def internal_of(t):
        rec = F.rec_by_type(t); depth = 0
        while rec and depth < 5:
            if rec['n'] == 'state_machine_base':
                return F.rec_by_type(F.strs[rec['t']] + '::internal')
            nxt = None
            for b in rec['bases']: nxt = nxt or F.rec_by_type(F.strs[b['t']])
            rec = nxt; depth += 1
        return None
    def tl(rec, name):
        if name not in rec['tds']: return None
        return [strip_cvref(x) for x in (type_list(F.strs[rec['tds'][name]]) or [])]
    def truth(rec):
        s = F.strs[rec['tds'].get('needs_traversal', 0)] if 'needs_traversal' in rec['tds'] else ''
        return 'true' in s
    for key, r in sorted(rvs.items()):
        sm = key[0]; preds = key[1:]
        internal = internal_of(sm)
        if internal is None: continue
        subs = tl(internal, 'submachines') or []
        if not subs: continue
        R.anchor('visit-set-with-submachines:%d-pred' % len(preds))
        trav = tl(r, 'submachines_to_traverse')
        if trav is None: continue
        plast = preds[-1]
        base_trav = None
        if len(preds) == 2:
            b = rvs.get((sm, preds[0]))
            base_trav = tl(b, 'submachines_to_traverse') if b else None
        for sub in subs:
            child = rvs.get((sub, plast))
            sample = {'machine': Facts.short(sm, 60), 'predicate': Facts.short(plast, 60), 'submachine': Facts.short(sub, 60)}
            if base_trav is not None and sub not in base_trav:
                ok = sub not in trav
                R.ob('C03.visit-set', ok, sample)
                if not ok: R.find('C03.visit-set', ('boost/msm/backmp11/detail/state_visitor.hpp', 'boost::msm::backmp11::detail::recursive_visit_set'), 'extra', 'submachine %s is traversed for predicate %s although the first predicate prunes it' % (Facts.short(sub, 60), Facts.short(plast, 60)), where=r['loc'], instance=Facts.short(sm, 120))
                continue
            if child is None:
                R.ob('C03.visit-set', False, sample)
                R.find('C03.visit-set', ('boost/msm/backmp11/detail/state_visitor.hpp', 'boost::msm::backmp11::detail::recursive_visit_set'), 'not-recursive', 'the visit set of %s for predicate %s was computed without consulting the visit set of its submachine %s: states nested below that submachine are never reached by the filtered visitors (is_state_active / is_flag_active / deferral check answer false for them)' % (Facts.short(sm, 60), Facts.short(plast, 60), Facts.short(sub, 60)), where=r['loc'], instance=Facts.short(sm, 120) + ' / ' + Facts.short(plast, 80))
                continue
            ok = (sub in trav) == truth(child)
            R.ob('C03.visit-set', ok, sample)
            if not ok:
                R.find('C03.visit-set', ('boost/msm/backmp11/detail/state_visitor.hpp', 'boost::msm::backmp11::detail::recursive_visit_set'), 'inconsistent', 'submachine %s is %s by the visit set of %s for predicate %s although its own visit set says needs_traversal=%s' % (Facts.short(sub, 60), 'traversed' if sub in trav else 'pruned', Facts.short(sm, 60), Facts.short(plast, 60), truth(child)), where=r['loc'], instance=Facts.short(sm, 120) + ' / ' + Facts.short(plast, 80))
