"""Plan-level rules: what the generated dispatch / deferral / flag code covers, compared with an oracle computed from the
front-end declarations of the same TU (model.py)."""
from engine import rule
from facts import Facts, strip_cvref, parse_type, type_list
from rules_core import backend_of, is_backend
from model import Model

@rule('defer_plan')
def defer_plan(F, R):
    """C05.cell (backmp11 favor_runtime_speed): for every machine SM and event E for which the deferral check
    is_event_deferred<SM,E> is instantiated: if any state below SM (any nesting depth) lists E in deferred_events then (a) the
    check must contain the visitor traversal (it is compiled away only when no state can defer E) and (b) the deferral visitor's
    call operator must be instantiated for each such state (i.e. the pruned visit sets still reach it)."""
    M = Model(F)
    visited = {}     # event -> set(state types the deferral visitor is instantiated for)
    for f in F.funcs:
        if f.n == 'operator()' and f.cls == 'is_event_deferred_visitor' and backend_of(f) == 'backmp11':
            ev = f.cls_args('is_event_deferred_visitor')
            ta = f.targs()
            if ev and ta: visited.setdefault(strip_cvref(str(ev[0])), set()).add(strip_cvref(str(ta[0])))
    for f in F.funcs:
        if f.n != 'is_event_deferred' or backend_of(f) != 'backmp11' or not f.d.get('static') or not f.blocks: continue
        ta = f.targs()
        if not ta or len(ta) < 2: continue
        sm_t = strip_cvref(str(ta[0])); ev = strip_cvref(str(ta[1]))
        m = M.machine_of(sm_t)
        if m is None or M.rows(m.fe) is None: continue
        if 'favor_runtime_speed' not in F.class_type(f): continue
        R.seen(f); R.anchor('deferral-check:backmp11-frs')
        deferring = [(s, d) for s, d, fe in M.descendants(m.fe) if ev in [strip_cvref(x) for x in M.deferred(s)]]
        has_visit = any(n.get('n') == 'visit' for i, n in f.calls())
        ok = (not deferring) or has_visit
        sample = {'machine': Facts.short(m.fe, 60), 'event': Facts.short(ev, 40), 'deferring_states': [(Facts.short(s, 40), d) for s, d in deferring], 'traversal_present': has_visit}
        R.ob('C05.cell', ok, sample)
        if not ok:
            R.find('C05.cell', f, 'deferral-pruned', 'event %s is deferred by %s (depth %d) below machine %s but the generated deferral check is constant false: the event is dispatched / reported instead of retained' % (Facts.short(ev, 40), Facts.short(deferring[0][0], 60), deferring[0][1], Facts.short(m.fe, 60)), instance=Facts.short(m.fe, 100) + ' / ' + Facts.short(ev, 40))
            continue
        for s, d in deferring:
            okv = s in visited.get(ev, set())
            R.ob('C05.cell', okv, {'machine': Facts.short(m.fe, 60), 'event': Facts.short(ev, 40), 'state': Facts.short(s, 50), 'depth': d})
            if not okv:
                R.find('C05.cell', f, 'deferral-unreached', 'state %s (depth %d) defers %s but the deferral visitor is never instantiated for it: the traversal is pruned before reaching it' % (Facts.short(s, 60), d, Facts.short(ev, 40)), instance=Facts.short(m.fe, 100) + ' / ' + Facts.short(ev, 40))

@rule('visitset')
def visitset(F, R):
    """C03.visit-set (backmp11): the compile-time pruning sets of the filtered recursive state visitors (used by is_state_active,
    is_flag_active, the deferral check, ...) are closed under nesting: for every instantiated recursive_visit_set<SM, P...> and every
    submachine Sub of SM the set for (Sub, P) exists and Sub is traversed exactly when that set says it needs traversal."""
    rvs = {}
    for r in F.records:
        if r['n'] == 'recursive_visit_set' and r['loc'].startswith('boost/msm/backmp11/') and r.get('a'):
            a = F.targs(r['a'])
            if len(a) >= 2:
                rvs[(strip_cvref(str(a[0])),) + tuple(str(x) for x in a[1:])] = r
    if not rvs: return
    def internal_of(t):
        rec = F.rec_by_type(t); depth = 0
        while rec and depth < 5:
            if rec['n'] == 'state_machine_base':
                return F.rec_by_type(F.strs[rec['t']] + '::internal')
            nxt = None
            for b in rec['bases']: nxt = nxt or F.rec_by_type(F.strs[b['t']])
            rec = nxt; depth += 1
        return None
    def tl(rec, name):
        if name not in rec['tds']: return None
        return [strip_cvref(x) for x in (type_list(F.strs[rec['tds'][name]]) or [])]
    def truth(rec):
        s = F.strs[rec['tds'].get('needs_traversal', 0)] if 'needs_traversal' in rec['tds'] else ''
        return 'true' in s
    for key, r in sorted(rvs.items()):
        sm = key[0]; preds = key[1:]
        internal = internal_of(sm)
        if internal is None: continue
        subs = tl(internal, 'submachines') or []
        if not subs: continue
        R.anchor('visit-set-with-submachines:%d-pred' % len(preds))
        trav = tl(r, 'submachines_to_traverse')
        if trav is None: continue
        plast = preds[-1]
        base_trav = None
        if len(preds) == 2:
            b = rvs.get((sm, preds[0]))
            base_trav = tl(b, 'submachines_to_traverse') if b else None
        for sub in subs:
            child = rvs.get((sub, plast))
            sample = {'machine': Facts.short(sm, 60), 'predicate': Facts.short(plast, 60), 'submachine': Facts.short(sub, 60)}
            if base_trav is not None and sub not in base_trav:
                ok = sub not in trav
                R.ob('C03.visit-set', ok, sample)
                if not ok: R.find('C03.visit-set', ('boost/msm/backmp11/detail/state_visitor.hpp', 'boost::msm::backmp11::detail::recursive_visit_set'), 'extra', 'submachine %s is traversed for predicate %s although the first predicate prunes it' % (Facts.short(sub, 60), Facts.short(plast, 60)), where=r['loc'], instance=Facts.short(sm, 120))
                continue
            if child is None:
                R.ob('C03.visit-set', False, sample)
                R.find('C03.visit-set', ('boost/msm/backmp11/detail/state_visitor.hpp', 'boost::msm::backmp11::detail::recursive_visit_set'), 'not-recursive', 'the visit set of %s for predicate %s was computed without consulting the visit set of its submachine %s: states nested below that submachine are never reached by the filtered visitors (is_state_active / is_flag_active / deferral check answer false for them)' % (Facts.short(sm, 60), Facts.short(plast, 60), Facts.short(sub, 60)), where=r['loc'], instance=Facts.short(sm, 120) + ' / ' + Facts.short(plast, 80))
                continue
            ok = (sub in trav) == truth(child)
            R.ob('C03.visit-set', ok, sample)
            if not ok:
                R.find('C03.visit-set', ('boost/msm/backmp11/detail/state_visitor.hpp', 'boost::msm::backmp11::detail::recursive_visit_set'), 'inconsistent', 'submachine %s is %s by the visit set of %s for predicate %s although its own visit set says needs_traversal=%s' % (Facts.short(sub, 60), 'traversed' if sub in trav else 'pruned', Facts.short(sm, 60), Facts.short(plast, 60), truth(child)), where=r['loc'], instance=Facts.short(sm, 120) + ' / ' + Facts.short(plast, 80))

@rule('flags')
def flags(F, R):
    """C17.table / C17.pure / C17.visitor."""
    from rules_core import backend_of
    from rules_rtc import const_of, active_index
    from rules_order import dependency_closure
    from effects import ACTIVE_MEMBERS
    M = Model(F)
    def handlers_written(f, depth=0):
        out = set()
        if f is None or depth > 3: return out
        reach = f.reachable_blocks()
        for b in reach:
            for i in f.bmap[b]['e']:
                n = f.nodes[i]
                if not n: continue
                if n['k'] == 'asg':
                    r = f.nodes[n['rhs']]
                    while r and r['k'] in ('icast', 'cast'): r = f.nodes[r['e']]
                    if r and r['k'] == 'un' and r['op'] == '&':
                        t = f.nodes[r['e']]
                        if t and t['k'] == 'ref' and t['n'] in ('flag_true', 'flag_false', 'forward'): out.add(t['n'])
                elif n['k'] == 'call' and n.get('n') == 'helper' and 'fk' in n:
                    out |= handlers_written(F.bykey.get(n['fk']), depth + 1)
        return out
    for f in F.funcs:
        if not f.blocks: continue
        be = backend_of(f)
        # ---- back / back11: one handler per state, chosen from the state's flag list
        if be in ('back', 'back11') and f.cls == 'init_flags' and f.n == 'operator()':
            flag = strip_cvref(str((f.cls_args('init_flags') or [''])[0]))
            ta = f.targs() or []
            st = strip_cvref(str(ta[0])) if ta else ''
            if not st: continue
            # the oracle needs the state's declarations: eUML / PlantUML states configure their flags through template
            # arguments of generated classes whose records are not part of the facts -> no oracle, no obligation
            def unknown(t, depth=0):
                if 'front::euml::' in t or 'front::puml::' in t: return True
                rec_ = F.rec_by_type(t)
                if rec_ is None: return True
                return depth < 4 and any(unknown(F.strs[b['t']], depth + 1) for b in rec_['bases'] if 'boost::msm::front::' in F.strs[b['t']] and ('euml' in F.strs[b['t']] or 'puml' in F.strs[b['t']]))
            sub_ = M.machine_of(st)
            if unknown(st) or (sub_ and unknown(sub_.fe)):
                R.anchor('init-flags-no-oracle:' + be); continue
            R.seen(f); R.anchor('init-flags:' + be)
            fl = [strip_cvref(x) for x in M.flags(st) + M.internal_flags(st)]
            frec = F.rec_by_type(flag)
            non_fwd = bool(frec and 'non_forwarding_flag' in frec['tds'])
            expect = 'flag_true' if flag in fl else ('forward' if (M.machine_of(st) and not non_fwd) else 'flag_false')
            got = handlers_written(f)
            ok = got == {expect}
            R.ob('C17.table', ok, {'state': Facts.short(st, 60), 'flag': Facts.short(flag, 40), 'handler': sorted(got), 'expected': expect})
            if not ok: R.find('C17.table', f, 'handler:' + expect, 'flag table entry of state %s for flag %s is %s, required %s (state flag list: %s)' % (Facts.short(st, 60), Facts.short(flag, 40), sorted(got), expect, [Facts.short(x, 30) for x in fl]), instance=Facts.short(st, 100) + ' / ' + Facts.short(flag, 60))
        # ---- back / back11: folding over regions
        if be in ('back', 'back11') and f.cls == 'state_machine' and f.n == 'is_flag_active' and len(f.targs() or []) == 2:
            R.seen(f); R.anchor('flag-fold:' + be)
            ok = bool(f.d.get('const')); why = '' if ok else 'is_flag_active is not const'
            # first region 0, loop i = 1 .. nr_regions-1, each result folded with BinaryOp, reads only the active ids
            idx = []
            for i, n in enumerate(f.nodes):
                if n and n['k'] == 'sub':
                    ai = active_index(f, i)
                    if ai: idx.append(ai[0])
            consts = [const_of(f, x) for x in idx]
            if 0 not in consts: ok = False; why = 'region 0 is not consulted'
            loopvars = [f.nodes[x]['n'] for x in idx if f.nodes[x] and f.nodes[x]['k'] == 'ref' and f.nodes[x].get('dk') == 'local']
            if not loopvars: ok = False; why = 'no loop over the remaining regions'
            else:
                v = loopvars[0]
                init1 = any(vv['n'] == v and vv['hasinit'] and const_of(f, vv['init']) == 1 for m in f.nodes if m and m['k'] == 'decl' for vv in m['vars'])
                bound = any(b.get('tc') and f.nodes[b['tc']]['k'] == 'bin' and f.nodes[b['tc']]['op'] == '<' and f.nodes[f.nodes[b['tc']]['lhs']].get('n') == v for b in f.blocks)
                if not (init1 and bound): ok = False; why = 'loop over regions does not run from 1 to nr_regions-1'
            writes = [n for n in f.nodes if n and n['k'] == 'asg' and f.base_member(n['lhs'])]
            if writes: ok = False; why = 'is_flag_active writes a data member'
            # the fold accumulates: each step combines the ACCUMULATED value with the region's answer and stores it back
            for n in f.nodes:
                if not (n and n['k'] == 'asg' and n['op'] == '='): continue
                l = f.nodes[n['lhs']]
                if not (l and l['k'] == 'ref' and l.get('dk') == 'local'): continue
                r = f.nodes[n['rhs']]
                while r and r['k'] in ('icast', 'cast', 'paren'): r = f.nodes[r['e']]
                if r and r['k'] == 'call' and r.get('op') == '()' and len(r.get('args', [])) == 2:
                    a0 = f.nodes[r['args'][0]]
                    while a0 and a0['k'] in ('icast', 'cast', 'paren'): a0 = f.nodes[a0['e']]
                    if not (a0 and a0['k'] == 'ref' and a0.get('n') == l['n']):
                        ok = False; why = 'a fold step combines %s (not the accumulated value %s) with the region\'s answer: regions between the first and the last do not count' % (f.expr(r['args'][0]), l['n'])
            # every region takes part in the fold: the loop may be left before the bound only when the accumulated value is
            # absorbing for the operator of THIS instantiation (true for OR, false for AND)
            from rules_struct import cond_facts
            ta_ = f.targs() or []
            opn = str(ta_[1]) if len(ta_) > 1 else ''
            absorbing = True if 'Flag_OR' in opn or 'logical_or' in opn else False if 'Flag_AND' in opn or 'logical_and' in opn else None
            for p in f.paths(edge_bound=2):
                if f.aborts(p): continue
                last_bound = None; resfact = None
                for bi, b in enumerate(p[:-1]):
                    for c, t in cond_facts(f, f.bmap[b], p[bi + 1]):
                        if c['k'] == 'bin' and c['op'] == '<' and loopvars and (f.nodes[c['lhs']] or {}).get('n') == loopvars[0]: last_bound = t
                        elif c['k'] == 'ref' and c.get('dk') == 'local': resfact = t
                        else:
                            cid = next((k for k, x in enumerate(f.nodes) if x is c), None)
                            if cid is not None and any(f.nodes[d] and f.nodes[d]['k'] == 'ref' and f.nodes[d].get('dk') == 'local' for d in dependency_closure(f, cid)) and resfact is None: resfact = 'unknown'
                if last_bound is True:     # the function returned although the bound test last said "another region to go"
                    if absorbing is None or resfact != absorbing:
                        ok = False; why = 'the fold over the regions is left early although the accumulated value (%s) is not absorbing for %s: the remaining regions are not consulted' % (resfact, opn.split('::')[-1] or 'the operator')
            R.ob('C17.pure', ok, {'func': f.q})
            if not ok: R.find('C17.pure', f, 'fold', why)
        # ---- backmp11: OR / AND visitor predicates are complementary and the traversal is over the active configuration
        if be == 'backmp11' and f.cls == 'state_machine_base' and f.n == 'is_flag_active':
            R.seen(f); R.anchor('flag-query:backmp11')
            ok = bool(f.d.get('const'))
            vis = [n for i, n in f.calls() if n.get('n') == 'visit_if']
            mode = F.targs(vis[0].get('ta'))[0] if vis and vis[0].get('ta') else None
            if mode != 5: ok = False      # active_states | recursive
            R.ob('C17.pure', ok, {'func': f.q, 'visit_mode': mode})
            if not ok: R.find('C17.pure', f, 'mode', 'is_flag_active must be const and traverse the active configuration recursively (visit mode %s)' % mode)
    for r in F.records:
        if r['n'] == 'is_flag_active_visitor' and r['loc'].startswith('boost/msm/backmp11/'):
            a = F.targs(r.get('a')) or []
            if len(a) < 2: continue
            R.anchor('flag-visitor:' + str(a[1]).split('::')[-1])
            init = [fd for fd in r['fields'] if fd['n'] == 'm_result']
            iv = init[0].get('iv') if init else None
            expect = 0 if str(a[1]).endswith('flag_or') else 1
            ok = iv == expect
            R.ob('C17.visitor', ok, {'visitor': Facts.short(F.strs[r['t']], 80), 'initial_result': iv})
            if not ok: R.find('C17.visitor', ('boost/msm/backmp11/detail/state_visitor.hpp', 'boost::msm::backmp11::detail::is_flag_active_visitor'), 'init:' + str(a[1]).split('::')[-1], 'flag visitor %s starts with result %s, required %s' % (Facts.short(F.strs[r['t']], 80), iv, expect), where=r['loc'])
    for f in F.funcs:
        if f.cls == 'is_flag_active_visitor' and f.n == 'operator()' and backend_of(f) == 'backmp11' and f.blocks:
            a = f.cls_args('is_flag_active_visitor') or []
            if len(a) < 2: continue
            R.seen(f); R.anchor('flag-visitor-call:' + str(a[1]).split('::')[-1])
            vals = set()
            for n in f.nodes:
                if n and n['k'] == 'asg' and f.base_member(n['lhs']) == 'm_result':
                    r = f.nodes[n['rhs']]
                    vals.add(r.get('v') if r and r['k'] == 'lit' else '?')
            expect = {True} if str(a[1]).endswith('flag_or') else {False}
            ok = vals == expect
            R.ob('C17.visitor', ok, {'func': f.q, 'sets_result_to': sorted(map(str, vals))})
            if not ok: R.find('C17.visitor', f, 'set', 'flag visitor sets the result to %s, required %s' % (sorted(map(str, vals)), sorted(map(str, expect))))

def fn_params(t):
    """parameter type strings of a function-pointer / member-function type string 'R (*)(A, B)' -> ['A','B']"""
    from facts import split_targs
    k0 = t.find('(*)')
    if k0 < 0: k0 = t.find('::*)')
    if k0 < 0: return None
    i = t.find('(', t.find(')', k0) + 1)
    if i < 0: return None
    depth = 0; j = None
    for k in range(i, len(t)):
        if t[k] == '(': depth += 1
        elif t[k] == ')':
            depth -= 1
            if depth == 0: j = k; break
    if j is None: return None
    return split_targs(t[i + 1:j])

@rule('casts')
def casts(F, R):
    """C18.cast: a row executor stored in a dispatch cell through reinterpret_cast is later called through the cell's signature;
    when the executor's event parameter type differs from the cell's, the reference is passed without the derived-to-base
    adjustment.  Harmless only if the trigger is the event's primary base chain (offset 0); any other base is read at the wrong
    address."""
    M = Model(F)
    from rules_core import backend_of
    for f in F.funcs:
        if not f.blocks or backend_of(f) is None: continue
        for i, n in enumerate(f.nodes):
            if not n or n['k'] != 'cast' or n.get('cc') != 'CXXReinterpretCastExpr': continue
            to = F.strs[n['to']]
            src = n['e']; frm = F.strs[n['from']]
            inner = f.nodes[src]
            if inner and inner['k'] == 'cast' and inner.get('cc') == 'CXXReinterpretCastExpr':
                frm = F.strs[inner['from']]
            elif 'unsigned long' in to or 'uintptr' in to: continue
            pt, pf = fn_params(to), fn_params(frm)
            if not pt or not pf or '(*)' not in to: continue
            et, ef = strip_cvref(pt[-1]), strip_cvref(pf[-1])
            if not ef or ef == et and len(pt) == len(pf):
                R.seen(f); R.anchor('cell-cast:' + backend_of(f)); R.ob('C18.cast', True, {'func': f.q, 'event': Facts.short(et, 40)})
                continue
            if F.rec_by_type(et) is None and F.rec_by_type(ef) is None: continue       # integer-width / void* erasures: C20.erasure
            R.seen(f); R.anchor('cell-cast:' + backend_of(f))
            # primary base chain of the cell's event type
            chain = []; cur = et
            while True:
                rec = F.rec_by_type(cur)
                if not rec or not rec['bases']: break
                cur = F.strs[rec['bases'][0]['t']]; chain.append(cur)
                if rec['bases'][0]['virt']: chain.pop(); break
            ok = ef in chain
            R.ob('C18.cast', ok, {'func': f.q, 'cell_event': Facts.short(et, 40), 'executor_event': Facts.short(ef, 40), 'primary_base_chain': [Facts.short(c, 30) for c in chain]})
            if not ok:
                R.find('C18.cast', f, 'non-primary-base', 'executor taking %s is stored by reinterpret_cast in a cell called with %s: %s is not on the primary-base chain of %s, so the action reads the wrong subobject' % (Facts.short(ef, 50), Facts.short(et, 50), Facts.short(ef, 50), Facts.short(et, 50)), where=f.at(i), instance='%s <- %s' % (Facts.short(et, 60), Facts.short(ef, 60)))

# ------------------------------------------------------------------ dispatch plans (C01.plan, C07.forward, C18.filter)

def norm_transition(t):
    """('forward', Sub) | ('row', front-end row type) | ('chain', [...]) from a back-end transition type string"""
    head, args, rest = parse_type(t)
    rest = rest.strip()
    if rest.startswith('::'):
        h2, a2, r2 = parse_type(rest[2:])
        nm = h2.split('::')[-1]
        if nm == 'frow' and a2: return ('forward', a2[0])
        if nm == 'chain_row' and a2:
            seq = type_list(a2[0]) or []
            return ('chain', [norm_transition(x) for x in seq])
        if a2: return ('row', a2[0])
    # backmp11: transition_table_impl<SM>::transition<Row,A,G> / internal_transition / forward_transition<Sub> / transition_chain<SM,State,mp_list<...>,Event>
    nm = head.split('::')[-1]
    if nm == 'transition_chain' and args and len(args) >= 3:
        return ('chain', [norm_transition(x) for x in (type_list(args[2]) or [])])
    return ('other', t)

def flat(c):
    if c[0] == 'chain':
        out = []
        for x in c[1]: out.extend(flat(x))
        return out
    return [c]

@rule('plans')
def plans(F, R):
    """back / back11 favor_runtime_speed: for every instantiated dispatch_table<Fsm,Stt,Event>, the candidates stored for each state
    (decoded from the template arguments of the init_cell instantiations) equal the oracle computed from the front-end declarations:
    exactly the rows with that source whose trigger matches (same type, public base, Kleene), last-declared first, the state's own
    internal rows before table rows, a forwarding row first for a submachine that (recursively) has a row for the event."""
    M = Model(F)
    from rules_core import backend_of
    tables = {}     # (fsm type, event) -> {state: candidates}
    from rules_order import dependency_closure
    for f in F.funcs:
        # the constructor of dispatch_table<Fsm,Stt,Event,Policy> fills the cells with mpl::for_each<chained_rows>(init_cell(this)):
        # the sequence type argument of that call is the list of (chained) transitions actually installed
        if f.cls != 'dispatch_table' or 'ctor' not in (f.d.get('sp') or '') or backend_of(f) not in ('back', 'back11'): continue
        if 'favor_compile_time' in f.file or not f.blocks: continue
        da = f.cls_args('dispatch_table')
        if not da or len(da) < 3: continue
        fsm, ev = strip_cvref(str(da[0])), str(da[2])
        for i, n in f.calls():
            if n.get('n') != 'for_each' or not n.get('ta'): continue
            is_init = False
            for a_ in n['args']:
                for d in dependency_closure(f, a_):
                    x = f.nodes[d]
                    if x and x['k'] == 'ctor' and x.get('pc') == 'init_cell': is_init = True
            if not is_init: continue
            seq = type_list(str(F.targs(n['ta'])[0])) or []
            cells = tables.setdefault((fsm, ev), {})
            for tr in seq:
                c = norm_transition(tr)
                # a forwarding row installed for this table must carry the table's own event type (so that the submachine
                # receives the event itself, not a base-class slice or a Kleene wrapper of it)
                for x in ([tr] if c[0] != 'chain' else (type_list(parse_type(parse_type(tr)[2].strip()[2:])[1][0]) or [])):
                    h0, a0, r0 = parse_type(x)
                    r0 = r0.strip()
                    if r0.startswith('::'):
                        h2, a2, _ = parse_type(r0[2:])
                        if h2.split('::')[-1] == 'frow' and a2 and len(a2) >= 2:
                            okf = strip_cvref(a2[1]) == strip_cvref(ev)
                            R.ob('C18.frow-event', okf, {'machine': Facts.short(fsm, 50), 'event': Facts.short(ev, 30), 'forwarded_as': Facts.short(a2[1], 30)})
                            if not okf:
                                R.find('C18.frow-event', f, 'frow-event', 'the forwarding row installed for event %s forwards it as %s: the submachine receives a slice / wrapper and its exact and base-class rows stop matching' % (Facts.short(ev, 40), Facts.short(a2[1], 40)), instance='%s / %s' % (Facts.short(fsm, 80), Facts.short(ev, 40)))
                rec = F.rec_by_type(tr)
                st = F.strs[rec['tds']['current_state_type']] if rec and 'current_state_type' in rec['tds'] else None
                if st is None: continue
                st = strip_cvref(st)
                cells[st] = flat(c)      # mpl::for_each visits the sequence in order: a later element for the same state overwrites the cell
    memo = {}
    def handles(fe, ev, policy, depth=0):
        key = (fe, ev)
        if key in memo: return memo[key]
        memo[key] = False
        rows = M.rows(fe)
        if rows is None or depth > 5: return None
        r = False
        for row in rows + (M.rows(fe, 'internal_transition_table') or []):
            if row['evt'] and M.event_matches(row['evt'], ev, policy): r = True
        for s in M.states(fe):
            for row in (M.rows(s, 'internal_transition_table') or []):
                if row['evt'] and M.event_matches(row['evt'], ev, policy): r = True
            m = M.machine_of(s)
            if m and handles(m.fe, ev, policy, depth + 1): r = True
        memo[key] = r
        return r
    for (fsm, ev_raw), cells in sorted(tables.items()):
        ev = strip_cvref(ev_raw)
        m = M.machine_of(fsm)
        if m is None: continue
        rows = M.rows(m.fe)
        if rows is None: continue
        be = m.backend
        R.anchor('plan-table:' + be)
        for st in M.states(m.fe):
            exp = []
            sub = M.machine_of(st)
            if sub and handles(sub.fe, ev, 'frs'): exp.append(('forward', st))
            internal = [r for r in (M.rows(st, 'internal_transition_table') or []) if r['evt'] and M.event_matches(r['evt'], ev, 'frs')] if not sub else []
            exp += [('row', r['type']) for r in reversed(internal)]
            own = [r for r in rows if strip_cvref(M.source_state(r) or '') == st and r['evt'] and M.event_matches(r['evt'], ev, 'frs')]
            exp += [('row', r['type']) for r in reversed(own)]
            got = cells.get(st, [])
            ok = got == exp
            sample = {'machine': Facts.short(m.fe, 50), 'event': Facts.short(ev, 30), 'state': Facts.short(st, 40), 'plan': [(k, Facts.short(v, 50)) for k, v in got]}
            R.ob('C01.plan', ok, sample)
            if not ok:
                R.find('C01.plan', ('boost/msm/%s/dispatch_table.hpp' % be, 'boost::msm::%s::dispatch_table' % be), 'plan', 'candidates generated for state %s on event %s are %s, the declarations give %s' % (Facts.short(st, 50), Facts.short(ev, 40), [(k, Facts.short(v, 60)) for k, v in got], [(k, Facts.short(v, 60)) for k, v in exp]), where='boost/msm/%s/dispatch_table.hpp' % be, instance='%s / %s / %s' % (Facts.short(m.fe, 80), Facts.short(st, 60), Facts.short(ev, 40)))

TAGS_G = {'row_tag', 'g_row_tag', 'irow_tag', 'g_irow_tag', 'sm_i_row_tag', 'sm_g_i_row_tag'}
TAGS_A = {'row_tag', 'a_row_tag', 'irow_tag', 'a_irow_tag', 'sm_i_row_tag', 'sm_a_i_row_tag'}
TAGS_INTERNAL = {'irow_tag', 'a_irow_tag', 'g_irow_tag', '_irow_tag', 'sm_i_row_tag', 'sm_a_i_row_tag', 'sm_g_i_row_tag', 'sm__i_row_tag'}

@rule('rowtags')
def rowtags(F, R):
    """C14.rows: every front-end row class (member-function rows, row2 family, functor Row / Internal, state-local internal rows)
    carries the tag that matches what it provides: guard_call exists iff the tag is a guard tag, action_call iff an action tag, the tag
    is an internal one iff the row has no target (Target == Source / none); functor rows additionally agree with their Guard / Action
    typedefs (none <=> no call)."""
    for r in F.records:
        if 'row_type_tag' not in r['tds']: continue
        if not (r['loc'].startswith('boost/msm/front/') or r['org'] == 2): continue
        tag = F.strs[r['tds']['row_type_tag']].split('::')[-1]
        if tag not in TAGS_G | TAGS_A | TAGS_INTERNAL | {'_row_tag'}: continue
        meths = set(r['methods'])
        # behaviours may be inherited from another row template (e.g. an internal row written as a derived external one)
        todo = [F.strs[b['t']] for b in r['bases']]; k = 0
        while todo and k < 8:
            k += 1
            br = F.rec_by_type(todo.pop(0))
            if br is None: continue
            meths |= set(br['methods']); todo.extend(F.strs[b['t']] for b in br['bases'])
        fam = r['loc'].split(':')[0].split('/')[-1] + ':' + r['n']
        R.anchor('front-row:' + fam)
        hasg, hasa = 'guard_call' in meths, 'action_call' in meths
        ok = (hasg == (tag in TAGS_G)) and (hasa == (tag in TAGS_A))
        why = 'tag %s but guard_call=%s action_call=%s' % (tag, hasg, hasa)
        g = F.strs[r['tds']['Guard']] if 'Guard' in r['tds'] else None
        a = F.strs[r['tds']['Action']] if 'Action' in r['tds'] else None
        if ok and g is not None and (g.endswith('front::none')) != (tag not in TAGS_G): ok = False; why = 'tag %s but Guard typedef is %s' % (tag, Facts.short(g, 40))
        if ok and a is not None and (a.endswith('front::none')) != (tag not in TAGS_A): ok = False; why = 'tag %s but Action typedef is %s' % (tag, Facts.short(a, 40))
        MM = Model(F)
        src = F.strs[r['tds']['Source']] if 'Source' in r['tds'] else MM.member_type(F.strs[r['t']], 'Source')
        tgt = F.strs[r['tds']['Target']] if 'Target' in r['tds'] else MM.member_type(F.strs[r['t']], 'Target')
        if ok and src is not None and tgt is not None and tag in ('row_tag', 'a_row_tag', 'g_row_tag', '_row_tag', 'irow_tag', 'a_irow_tag', 'g_irow_tag', '_irow_tag'):
            internal = tgt.endswith('front::none') or (tgt == src and tag in TAGS_INTERNAL)
            if internal != (tag in TAGS_INTERNAL): ok = False; why = 'tag %s but Source=%s Target=%s' % (tag, Facts.short(src, 30), Facts.short(tgt, 30))
        R.ob('C14.rows', ok, {'row': Facts.short(F.strs[r['t']], 90), 'tag': tag, 'guard_call': hasg, 'action_call': hasa})
        if not ok:
            R.find('C14.rows', (r['loc'].split(':')[0], r['q']), 'tag:' + tag, 'front-end row %s: %s' % (Facts.short(F.strs[r['t']], 120), why), where=r['loc'], instance=Facts.short(F.strs[r['t']], 200))

# ------------------------------------------------------------------ sibling agreement back <-> back11 (C13.siblings)

def effect_tokens(F, E, f, depth=0, seen=None):
    """order-free abstract behaviour of a function, closed over its library helpers (so that extracting or inlining a helper does not
    change it): enumerators used, processing-flag writes with their value, queue operations, active-state writes, behaviour classes
    reached, event-processing entry points called, enumerators returned"""
    from rules_rtc import queue_ops, FLAG_MEMBER as FM
    from effects import leaf_class, PROCESS_ENTRY, ACTIVE_MEMBERS as AM
    seen = seen if seen is not None else set()
    if f.k in seen or depth > 4: return set()
    seen.add(f.k)
    toks = set()
    qn = {}
    for i, q, op in queue_ops(f): qn[i] = (q, op)
    # live blocks only (a statement under `if (<constant for this instantiation>)` and a tag-dispatched overload that does nothing are
    # the same behaviour); the folder sees through calls with one constant return and through const locals, so `if (helper())` and
    # `const bool b = helper(); if (b)` fold alike
    for i in f.linear_nodes(reachable_only=True):
        n = f.nodes[i]
        if not n: continue
        k = n['k']
        if k == 'ref' and n.get('dk') == 'enum': toks.add('enum:' + n['n'])
        elif k == 'ref' and n.get('dk') in ('method', 'func') and n.get('n') in PROCESS_ENTRY: toks.add('process:' + n['n'])    # &M::process_event_internal taken to be stored (bind) = calling it from a stored functor
        elif k == 'asg':
            m = f.base_member(n['lhs'])
            if m == FM:
                r = f.nodes[n['rhs']]
                toks.add('flag=%s' % (r.get('v') if r and r['k'] == 'lit' else '?'))
            elif m in AM: toks.add('write-active')
        elif k == 'ret' and n['e']:
            r = f.nodes[n['e']]
            if r and r['k'] == 'ref' and r.get('dk') == 'enum': toks.add('ret:' + r['n'])
        elif k == 'call':
            if i in qn: toks.add('queue:%s.%s' % qn[i])
            lc = leaf_class(F, n)
            if lc and lc != 'PROCESS': toks.add('behaviour:' + lc)
            elif lc == 'PROCESS' or n.get('n') in PROCESS_ENTRY: toks.add('process:' + n['n'])
            elif 'fk' in n and n.get('org') == 1:
                g = F.bykey.get(n['fk'])
                if g is not None and g.blocks and backend_of(g) == backend_of(f):
                    toks |= effect_tokens(F, E, g, depth + 1, seen)
            elif 'fk' not in n: toks.add('indirect-call')
        elif k in ('ctor', 'cast', 'InitListExpr', 'tmp', 'lambda') and isinstance(n.get('t'), int):
            # a functor object / closure of the library built here (to be stored or passed on): what its call operator does belongs
            # to this function's behaviour, wherever the code was written (`bind(pf, this, e, SOURCE)` vs a struct with operator())
            if not hasattr(F, '_callops'):
                F._callops = {}
                for g in F.funcs:
                    if g.n == 'operator()' and g.blocks and g.file.startswith('boost/msm/back'):
                        F._callops.setdefault(strip_cvref(F.class_type(g) or ''), []).append(g)
            for g in F._callops.get(strip_cvref(F.strs[n['t']]), ()):
                if backend_of(g) == backend_of(f): toks |= effect_tokens(F, E, g, depth + 1, seen)
    return toks

@rule('siblings')
def siblings(F, R):
    """exports, per function pattern of back / back11 state_machine.hpp (dispatch_table.hpp), the set of abstract path signatures over all
    instantiations in this TU; the aggregate compares the two back-ends"""
    from effects import Effects
    E = Effects(F)
    out = {}
    for f in F.funcs:
        be = backend_of(f)
        if be not in ('back', 'back11') or not f.blocks: continue
        if not (f.file.endswith('/state_machine.hpp') or f.file.endswith('/dispatch_table.hpp')): continue
        key = f.q.replace('boost::msm::back11::', 'B::').replace('boost::msm::back::', 'B::')
        nparams = len(f.d['params'])
        sigs = {tuple(sorted(effect_tokens(F, E, f)))}
        # compare like with like: the same front-end machine (back-end name normalised) and the same function template arguments
        def nrm(x):
            x = str(x).replace('boost::msm::back11::', 'boost::msm::back::')
            return strip_cvref(x)
        ca = f.cls_args('state_machine') or f.cls_args('dispatch_table') or []
        if len(ca) > 1 and any('favor_compile_time' in str(a) for a in ca): continue
        inst = (nrm(ca[0]) if ca else '') + ' | ' + ', '.join(nrm(t) for t in (f.targs() or [])) + ' | ' + ', '.join(nrm(a) for a in (f.cls_args() or []) if f.cls not in ('state_machine', 'dispatch_table'))
        out.setdefault(key + '/' + str(nparams), {}).setdefault(inst, {}).setdefault(be, set()).update(sigs)
        R.seen(f)
    R.export('siblings', {k: {inst: {b: sorted(v) for b, v in d.items()} for inst, d in dd.items() if len(d) == 2} for k, dd in out.items()})

# differences between back and back11 that are part of back11's design (perfect forwarding, upper-fsm pointer); token-level
SIBLING_ACCEPTED = {
}

from engine import aggregate
@aggregate('siblings_cmp')
def siblings_cmp(exports, M, tier):
    n = 0; pats = set()
    for tu, data in sorted(exports.get('siblings', {}).items()):
        for k, dd in sorted(data.items()):
            for inst, d in sorted(dd.items()):
                if 'back' not in d or 'back11' not in d: continue
                n += 1; pats.add(k)
                def norm(sig): return tuple(t for t in sig if t not in SIBLING_IGNORE_TOKENS)
                na, nb = set().union(*[set(norm(tuple(x))) for x in d['back']]), set().union(*[set(norm(tuple(x))) for x in d['back11']])
                ok = na == nb or k in SIBLING_ACCEPTED
                M.ob('C13.siblings', ok, {'function': k, 'instance': Facts.short(inst, 120), 'effect_tokens': sorted(na)[:12]} if n < 4 else None)
                if not ok:
                    M.find('C13.siblings', ('boost/msm/back11/state_machine.hpp', k.split('/')[0]), 'diverge', 'back and back11 instantiations of %s for the same machine and arguments differ in their abstract behaviour: only in back %s ; only in back11 %s' % (k, sorted(na - nb)[:6], sorted(nb - na)[:6]), where='boost/msm/back*/' + ('dispatch_table.hpp' if 'dispatch_table' in k else 'state_machine.hpp'), instance=Facts.short(inst, 200) + ' (' + tu + ')')
    M.anchor('sibling-patterns', len(pats))
    M.anchor('sibling-pairs', n)

SIBLING_IGNORE_TOKENS = {'call:forward', 'call:move'}

def components(t):
    """'a::b<x>::c<y,z>::d' -> [('a::b', [x]), ('c', [y,z]), ('d', None)]"""
    out = []
    rest = t
    while rest:
        head, args, rest2 = parse_type(rest)
        if args is None:
            out.append((head, None)); break
        out.append((head, args))
        rest = rest2.strip()
        if rest.startswith('::'): rest = rest[2:]
        else: break
    return out

def norm_mp11(t):
    comps = components(t)
    if not comps: return ('other', t)
    name, args = comps[-1]
    nm = name.split('::')[-1]
    if nm == 'forward_transition' and args: return ('forward', args[0])
    if nm in ('transition', 'internal_transition') and args: return ('row', args[0])
    if nm == 'transition_chain' and args and len(args) >= 3:
        return ('chain', [norm_mp11(x) for x in (type_list(args[2]) or [])])
    return ('other', t)

@rule('plans_mp11')
def plans_mp11(F, R):
    """backmp11 favor_runtime_speed (flat_fold and function_pointer_array share dispatch_base): merged_transitions of every
    instantiated dispatch_table<SM,Event> equals the oracle from the front-end declarations (same definition as for back)."""
    M = Model(F)
    memo = {}
    def handles(fe, ev, depth=0):
        key = (fe, ev)
        if key in memo: return memo[key]
        memo[key] = False
        rows = M.rows(fe)
        if rows is None or depth > 6: return None
        r = False
        for row in rows + (M.rows(fe, 'internal_transition_table') or []):
            if row['evt'] and M.event_matches(row['evt'], ev, 'frs'): r = True
        for s in M.states(fe):
            for row in (M.rows(s, 'internal_transition_table') or []):
                if row['evt'] and M.event_matches(row['evt'], ev, 'frs'): r = True
            m = M.machine_of(s)
            if m and handles(m.fe, ev, depth + 1): r = True
        memo[key] = r
        return r
    merged = {}
    for r in F.records:
        if r['n'] != 'dispatch_base' or not r['loc'].startswith('boost/msm/backmp11/detail/favor_runtime_speed.hpp'): continue
        if 'merged_transitions' not in r['tds']: continue
        comps = components(F.strs[r['t']])
        dt = [c for c in comps if c[0].split('::')[-1] == 'dispatch_table' and c[1]]
        if not dt: continue
        merged[(strip_cvref(dt[-1][1][0]), strip_cvref(dt[-1][1][1]))] = r
    # every (machine, event) the machine is asked to process: instantiations of do_process_event<Event> on state_machine_base<FE,Config,Derived>
    pairs = set(merged)
    from rules_core import backend_of
    for f in F.funcs:
        if f.n == 'do_process_event' and f.cls == 'state_machine_base' and backend_of(f) == 'backmp11':
            ca = f.cls_args('state_machine_base'); ta = f.targs()
            if ca and len(ca) >= 3 and ta:
                mm = M.machine_of(str(ca[2]))
                if mm and mm.policy == 'frs': pairs.add((strip_cvref(str(ca[2])), strip_cvref(str(ta[0]))))
    for (sm_t, ev) in sorted(pairs):
        r = merged.get((sm_t, ev))
        m = M.machine_of(sm_t)
        if m is None or m.policy != 'frs': continue
        rows = M.rows(m.fe)
        if rows is None: continue
        R.anchor('plan-table:backmp11')
        cells = {}
        loc = r['loc'] if r else 'boost/msm/backmp11/detail/favor_runtime_speed.hpp'
        for tr in ((type_list(F.strs[r['tds']['merged_transitions']]) or []) if r else []):
            c = norm_mp11(tr)
            rec = F.rec_by_type(tr)
            st = F.strs[rec['tds']['current_state_type']] if rec and 'current_state_type' in rec['tds'] else None
            if st is None: continue
            cells[strip_cvref(st)] = flat(c)
        for st in M.states(m.fe):
            exp = []
            sub = M.machine_of(st)
            if sub and handles(sub.fe, ev): exp.append(('forward', st))
            internal = [x for x in (M.rows(st, 'internal_transition_table') or []) if x['evt'] and M.event_matches(x['evt'], ev, 'frs')] if not sub else []
            exp += [('row', x['type']) for x in reversed(internal)]
            own = [x for x in rows if strip_cvref(M.source_state(x) or '') == st and x['evt'] and M.event_matches(x['evt'], ev, 'frs')]
            exp += [('row', x['type']) for x in reversed(own)]
            got = cells.get(st, [])
            ok = got == exp
            R.ob('C01.plan', ok, {'machine': Facts.short(m.fe, 50), 'event': Facts.short(ev, 30), 'state': Facts.short(st, 40), 'plan': [(k, Facts.short(v, 50)) for k, v in got]})
            if not ok:
                R.find('C01.plan', ('boost/msm/backmp11/detail/favor_runtime_speed.hpp', 'boost::msm::backmp11::detail::compile_policy_impl::dispatch_table'), 'plan', 'candidates generated for state %s on event %s are %s, the declarations give %s' % (Facts.short(st, 50), Facts.short(ev, 40), [(k, Facts.short(v, 60)) for k, v in got], [(k, Facts.short(v, 60)) for k, v in exp]), where=loc, instance='%s / %s / %s' % (Facts.short(m.fe, 80), Facts.short(st, 60), Facts.short(ev, 40)))

@rule('plans_fct')
def plans_fct(F, R):
    """back + favor_compile_time: the run-time chains built by the dispatch_table constructor.  Rows: the transitions for which
    init_cell::operator() is instantiated (the elements of the filtered view), in the order of the back-end table, pushed to the
    front (=> last-declared tried first); default cells from the helper<deferred, composite> selected per state."""
    M = Model(F)
    from rules_core import backend_of
    called = {}     # (fsm, event) -> set(transition type)
    defaults = {}   # (fsm, event) -> {state: (deferred, composite)}
    for f in F.funcs:
        if not f.file.endswith('back/favor_compile_time.hpp') or not f.blocks: continue
        da = f.cls_args('dispatch_table')
        if not da or len(da) < 3: continue
        key = (strip_cvref(str(da[0])), str(da[2]))
        if f.cls == 'init_cell' and f.n == 'operator()':
            if any(n.get('n') == 'init_event_base_case' for i, n in f.calls()):
                called.setdefault(key, set()).add(strip_cvref(str((f.targs() or [''])[0])))
        if f.cls == 'default_init_cell' and f.n == 'operator()':
            st = strip_cvref(str((f.targs() or [''])[0]))
            for i, n in f.calls():
                if n.get('n') == 'execute' and n.get('pc') == 'helper':
                    a = parse_type(F.strs[n['pt']])
                    comps = components(F.strs[n['pt']])
                    ha = comps[-1][1] if comps and comps[-1][1] else None
                    if ha and len(ha) >= 2:
                        defaults.setdefault(key, {})[st] = (ha[0].strip() in ('true', '1'), ha[1].strip() in ('true', '1'))
    for f in F.funcs:
        if f.cls != 'dispatch_table' or 'ctor' not in (f.d.get('sp') or '') or not f.file.endswith('back/favor_compile_time.hpp') or not f.blocks: continue
        da = f.cls_args('dispatch_table')
        fsm, ev_raw = strip_cvref(str(da[0])), str(da[2]); ev = strip_cvref(ev_raw)
        m = M.machine_of(fsm)
        if m is None: continue
        rows = M.rows(m.fe)
        if rows is None: continue
        evrec = F.rec_by_type(ev)
        if evrec and 'completion_event' in evrec['tds']: continue
        R.seen(f); R.anchor('plan-table:back-fct')
        stt = type_list(str(da[1])) or []
        got = {}
        for tr in stt:
            if tr not in called.get((fsm, ev_raw), set()): continue
            rec = F.rec_by_type(tr)
            st = strip_cvref(F.strs[rec['tds']['current_state_type']]) if rec and 'current_state_type' in rec['tds'] else None
            if st is None: continue
            got.setdefault(st, []).insert(0, norm_transition(tr))      # push_front
        dflt = defaults.get((fsm, ev_raw), {})
        def match(trig):
            trig = strip_cvref(trig)
            return trig == ev or trig in M.bases_of(ev)
        for st in M.states(m.fe):
            sub = M.machine_of(st)
            internal = [x for x in (M.rows(st, 'internal_transition_table') or []) if x['evt'] and match(x['evt'])] if not sub else []
            own = [x for x in rows if strip_cvref(M.source_state(x) or '') == st and x['evt'] and match(x['evt'])]
            exp = [('row', x['type']) for x in reversed(internal)] + [('row', x['type']) for x in reversed(own)]
            deferred = ev in [strip_cvref(x) for x in M.deferred(st)]
            exp_d = (deferred, bool(sub))
            g = got.get(st, [])
            okp = g == exp
            okd = dflt.get(st) is None or dflt.get(st) == exp_d      # states the back-end table does not list get no default cell
            R.ob('C01.plan', okp and okd, {'machine': Facts.short(m.fe, 50), 'event': Facts.short(ev, 30), 'state': Facts.short(st, 40), 'rows': [(k, Facts.short(v, 40)) for k, v in g], 'default(deferred,composite)': dflt.get(st)})
            if not okp:
                R.find('C01.plan', ('boost/msm/back/favor_compile_time.hpp', 'boost::msm::back::dispatch_table<favor_compile_time>'), 'plan', 'favor_compile_time chain for state %s on event %s holds %s, the declarations give %s' % (Facts.short(st, 50), Facts.short(ev, 40), [(k, Facts.short(v, 60)) for k, v in g], [(k, Facts.short(v, 60)) for k, v in exp]), where=f.loc, instance='%s / %s / %s' % (Facts.short(m.fe, 80), Facts.short(st, 60), Facts.short(ev, 40)))
            if not okd:
                R.find('C01.plan', ('boost/msm/back/favor_compile_time.hpp', 'boost::msm::back::dispatch_table<favor_compile_time>'), 'default-cell', 'default cell of state %s on event %s selected as (deferred, composite)=%s, the declarations give %s' % (Facts.short(st, 50), Facts.short(ev, 40), dflt.get(st), exp_d), where=f.loc, instance='%s / %s / %s' % (Facts.short(m.fe, 80), Facts.short(st, 60), Facts.short(ev, 40)))

@rule('fctshape')
def fctshape(F, R):
    """C01.plan (back + favor_compile_time, how the run-time chains are filled): the constructor fills the matching rows first and the
    default cells afterwards; rows are pushed to the front (last declared = first tried); a composite state's submachine call is pushed
    to the FRONT of what is already there (inner level first), no_transition / defer_transition to the BACK (tried only when no row
    consumed the event); the machine's own cell 0 gets call_no_transition in front."""
    from rules_core import backend_of
    from rules_order import dependency_closure
    for f in F.funcs:
        if not f.file.endswith('back/favor_compile_time.hpp') or not f.blocks: continue
        if f.cls == 'dispatch_table' and 'ctor' in (f.d.get('sp') or ''):
            order = f.linear_nodes()
            seq = []
            for i in order:
                n = f.nodes[i]
                if n and n['k'] == 'call' and n.get('n') == 'for_each':
                    kinds = set()
                    for a in n.get('args', []):
                        for d in dependency_closure(f, a):
                            x = f.nodes[d]
                            if x and x['k'] == 'ctor' and x.get('pc') in ('init_cell', 'default_init_cell'): kinds.add(x['pc'])
                    seq.append('+'.join(sorted(kinds)))
            if not seq: continue
            R.seen(f); R.anchor('fct-ctor')
            ok = seq == ['init_cell', 'default_init_cell']
            R.ob('C01.plan', ok, {'func': f.q, 'passes': seq})
            if not ok: R.find('C01.plan', f, 'fill-order', 'the favor_compile_time table must be filled with the matching rows first and the default cells afterwards (found passes %s): otherwise a submachine\'s own dispatch ends up behind the enclosing machine\'s rows and no_transition in front of them' % seq)
        ops = []
        for i, n in f.calls():
            if n.get('n') in ('push_front', 'push_back') and n.get('obj') and f.base_member(n['obj']) == 'one_state':
                what = None
                for d in dependency_closure(f, n['args'][0]) if n.get('args') else []:
                    x = f.nodes[d]
                    if x and x['k'] == 'ref' and x.get('dk') in ('method', 'func') and x['n'] in ('defer_transition', 'call_no_transition', 'call_submachine', 'default_eventless_transition', 'execute'): what = x['n']
                    if x and x['k'] == 'call' and x.get('n') == 'make_cell': what = 'row'
                ops.append((n['n'], what))
        if not ops: continue
        exp = None
        if f.cls == 'helper' and f.n == 'execute':
            ha = f.cls_args('helper') or []
            d_, c_ = (str(ha[0]).strip() in ('true', '1'), str(ha[1]).strip() in ('true', '1')) if len(ha) >= 2 else (None, None)
            if d_ is True: exp = [('push_back', 'defer_transition')]
            elif d_ is False and c_ is True: exp = [('push_front', 'call_submachine')] if any(o[1] == 'call_submachine' for o in ops) else [('push_front', 'call_no_transition')]
            elif d_ is False and c_ is False: exp = [('push_back', 'call_no_transition')]
        elif f.cls == 'default_init_cell' and f.n == 'operator()': exp = [('push_back', 'default_eventless_transition')]
        elif f.cls == 'init_cell' and f.n in ('init_event_base_case', 'init'): exp = [('push_front', ops[0][1])] if ops[0][1] in ('row', 'execute') else None
        if exp is None: continue
        R.seen(f); R.anchor('fct-fill:' + (f.cls if f.cls != 'helper' else 'helper'))
        ok = ops == exp
        R.ob('C01.plan', ok, {'func': f.q, 'operations': ops})
        if not ok: R.find('C01.plan', f, 'fill-op', '%s::%s fills the chain with %s, required %s' % (f.cls, f.n, ops, exp))

@rule('plans_mp11_table')
def plans_mp11_table(F, R):
    """backmp11 (all policies; favor_compile_time installs the cells in exactly this order): the back-end transition table
    computed for each machine, grouped by (state, trigger), lists the declared rows last-declared first with the state's own
    internal rows first; the favor_compile_time chain appends cells in table order and tries them front to back, the composite's
    process_event first (shape rules)."""
    M = Model(F)
    from rules_core import backend_of
    for r in F.records:
        if r['n'] != 'transition_table_impl' or not r['loc'].startswith('boost/msm/backmp11/') or 'transition_table' not in r['tds']: continue
        a = F.targs(r.get('a')) or []
        if not a: continue
        sm_t = strip_cvref(str(a[0]))
        m = M.machine_of(sm_t)
        if m is None: continue
        rows = M.rows(m.fe)
        if rows is None: continue
        R.anchor('mp11-table')
        tl = type_list(F.strs[r['tds']['transition_table']]) or []
        got = {}
        for tr in tl:
            rec = F.rec_by_type(tr)
            if not rec or 'current_state_type' not in rec['tds'] or 'transition_event' not in rec['tds']: continue
            st = strip_cvref(F.strs[rec['tds']['current_state_type']]); ev = strip_cvref(F.strs[rec['tds']['transition_event']])
            got.setdefault((st, ev), []).append(norm_mp11(tr))
        exp = {}
        for st in M.states(m.fe):
            sub = M.machine_of(st)
            internal = [] if sub else (M.rows(st, 'internal_transition_table') or [])
            for x in reversed(internal):
                if x['evt']: exp.setdefault((st, strip_cvref(x['evt'])), []).append(('row', x['type']))
        for x in reversed(rows):
            st = strip_cvref(M.source_state(x) or '')
            if x['evt']: exp.setdefault((st, strip_cvref(x['evt'])), []).append(('row', x['type']))
        for key in sorted(set(got) | set(exp)):
            g, e = got.get(key, []), exp.get(key, [])
            ok = g == e
            R.ob('C01.plan', ok, {'machine': Facts.short(m.fe, 50), 'state': Facts.short(key[0], 40), 'trigger': Facts.short(key[1], 30), 'rows': len(g)})
            if not ok:
                R.find('C01.plan', ('boost/msm/backmp11/detail/transition_table.hpp', 'boost::msm::backmp11::detail::transition_table_impl'), 'table', 'back-end table rows for state %s and trigger %s are %s, the declarations give %s' % (Facts.short(key[0], 50), Facts.short(key[1], 40), [(k, Facts.short(v, 60)) for k, v in g], [(k, Facts.short(v, 60)) for k, v in e]), where=r['loc'], instance='%s / %s / %s' % (Facts.short(m.fe, 80), Facts.short(key[0], 60), Facts.short(key[1], 40)))
    # shape of the favor_compile_time run-time chains
    for f in F.funcs:
        if not f.file.endswith('backmp11/favor_compile_time.hpp') or not f.blocks: continue
        if f.n == 'add_transition_cell' and f.cls in ('transition_chain', 'internal_transition_chain'):
            R.seen(f); R.anchor('fct-chain-add')
            ops = [n.get('n') for i, n in f.calls() if n.get('obj') and f.base_member(n['obj']) == 'm_transition_cells']
            ok = ops and all(o in ('emplace_back', 'push_back') for o in ops)
            R.ob('C01.plan', bool(ok), {'func': f.q, 'ops': ops})
            if not ok: R.find('C01.plan', f, 'chain-append', 'cells must be appended to the chain (table order = priority order); found %s' % ops)
        if f.n == 'execute' and f.cls in ('transition_chain', 'internal_transition_chain'):
            from rules_rtc import acc_writes
            R.seen(f); R.anchor('fct-chain-exec')
            ws = acc_writes(f, 'result')
            ok = bool(ws) and all(w[1] for w in ws)
            R.ob('C06.or', ok, {'func': f.q, 'writes': [w[2] for w in ws]})
            if not ok: R.find('C06.or', f, 'acc-write', 'the chain must OR each candidate\'s result into the accumulated result (a guard reject must survive a later not-handled): %s' % [w[2] for w in ws])
        if f.n == 'dispatch' and f.cls == 'state_dispatch_table':
            R.seen(f); R.anchor('fct-state-dispatch')
            order = f.linear_nodes()
            sub = [i for i in order if f.nodes[i] and f.nodes[i]['k'] == 'call' and 'fk' not in f.nodes[i] and f.nodes[i].get('fn') and f.base_member(f.nodes[i]['fn']) == 'm_call_process_event']
            find = [i for i in order if f.nodes[i] and f.nodes[i]['k'] == 'call' and f.nodes[i].get('n') == 'find']
            ok = len(sub) == 1 and len(find) == 1 and order.index(sub[0]) < order.index(find[0])
            R.ob('C01.plan', ok, {'func': f.q})
            if not ok: R.find('C01.plan', f, 'submachine-first', 'the composite state\'s own process_event must be tried before the state\'s transition chain')
            # the submachine's answer (e.g. a guard reject) survives the state's own chain: every later write of `result` is an OR or
            # passes the old value on
            from rules_order import dependency_closure
            writes = [i for i in order if f.nodes[i] and f.nodes[i]['k'] == 'asg' and (f.nodes[f.nodes[i]['lhs']] or {}).get('n') == 'result']
            lost = None
            for i in writes:
                n = f.nodes[i]
                if n['op'] == '|=': continue
                dep = dependency_closure(f, n['rhs'])
                from_sub = any(d in sub for d in dep)
                keeps = any(f.nodes[d] and f.nodes[d]['k'] == 'ref' and f.nodes[d].get('n') == 'result' for d in dep)
                if not from_sub and not keeps and sub and order.index(i) > order.index(sub[0]): lost = i
            R.ob('C06.or', lost is None, {'func': f.q, 'writes': [f.expr(i) for i in writes]})
            if lost is not None: R.find('C06.or', f, 'sub-result-lost', 'the result of the composite state\'s own dispatch is overwritten by %s: a guard reject inside the submachine is reported as "nothing matched" and no_transition is called' % f.expr(lost), where=f.at(lost))


@rule('anyevents')
def anyevents(F, R):
    """back + favor_compile_time: a submachine receives events as boost::any and re-types them by trying the event types of its
    own table AND of every machine nested below it; the set of types tried (instantiations of process_any_event_helper<Fsm>::operator())
    must contain every trigger declared at any depth below Fsm."""
    M = Model(F)
    tried = {}
    for f in F.funcs:
        if f.cls == 'process_any_event_helper' and f.n == 'operator()':
            a = f.cls_args('process_any_event_helper'); t = f.targs()
            if a and t: tried.setdefault(strip_cvref(str(a[0])), set()).add(strip_cvref(str(t[0])))
    for fsm, evs in sorted(tried.items()):
        m = M.machine_of(fsm)
        if m is None or M.rows(m.fe) is None: continue
        R.anchor('any-event-set')
        need = set()
        def collect(fe, depth=0):
            rows = M.rows(fe)
            if rows is None or depth > 6: return
            for r in rows + (M.rows(fe, 'internal_transition_table') or []):
                if r['evt'] and not M.is_kleene(r['evt']): need.add(strip_cvref(r['evt']))
            for s in M.states(fe):
                for r in (M.rows(s, 'internal_transition_table') or []):
                    if r['evt'] and not M.is_kleene(r['evt']): need.add(strip_cvref(r['evt']))
                sm = M.machine_of(s)
                if sm: collect(sm.fe, depth + 1)
        collect(m.fe)
        need = {e for e in need if not (F.rec_by_type(e) and 'completion_event' in F.rec_by_type(e)['tds'])}
        missing = sorted(need - evs)
        R.ob('C07.any-events', not missing, {'machine': Facts.short(m.fe, 60), 'tried': len(evs), 'declared_below': len(need)})
        if missing:
            R.find('C07.any-events', ('boost/msm/back/favor_compile_time.hpp', 'BOOST_MSM_BACK_GENERATE_PROCESS_EVENT'), 'missing-events', 'process_any_event of %s does not try event type(s) %s, which are triggers of machines nested below it: such events are never forwarded under favor_compile_time' % (Facts.short(m.fe, 60), [Facts.short(x, 40) for x in missing[:4]]), where='boost/msm/back/favor_compile_time.hpp', instance=Facts.short(m.fe, 160))

@rule('defaults')
def defaults(F, R):
    """C05.cell / C10.nt / C06.nt (back, back11 runtime-speed): the default cell installed for (state, event) when no row matches:
    defer_transition iff the state lists the event in deferred_events, default_eventless_transition for completion events (never a
    no_transition report), call_no_transition otherwise; and what those three cell functions do."""
    M = Model(F)
    from rules_core import backend_of
    from effects import Effects, leaf_class
    E = Effects(F)
    for f in F.funcs:
        be = backend_of(f)
        if be not in ('back', 'back11') or not f.blocks: continue
        if f.cls == 'default_init_cell' and f.n == 'operator()' and f.file.endswith('/dispatch_table.hpp'):
            da = f.cls_args('dispatch_table')
            if not da or len(da) < 3: continue
            ev = strip_cvref(str(da[2])); st = strip_cvref(str((f.targs() or [''])[0]))
            fsm = strip_cvref(str(da[0]))
            stored = None
            for n in f.nodes:
                if n and n['k'] == 'decl':
                    for v in n['vars']:
                        if v['hasinit']:
                            ini = f.nodes[v['init']]
                            if ini and ini['k'] == 'un' and ini['op'] == '&': stored = f.nodes[ini['e']].get('n')
            if stored is None: continue
            R.seen(f); R.anchor('default-cell:' + be)
            evrec = F.rec_by_type(ev)
            completion = bool(evrec and 'completion_event' in evrec['tds'])
            m = M.machine_of(fsm)
            if st == fsm: exp = 'default_eventless_transition' if completion else 'call_no_transition_internal'
            elif completion: exp = 'default_eventless_transition'
            else:
                if F.rec_by_type(st) is None and M.machine_of(st) is None: continue
                deferred = ev in [strip_cvref(x) for x in M.deferred(st)]
                # Kleene deferral: a state deferring boost::any defers every event
                if any(M.is_kleene(x) for x in M.deferred(st)): deferred = True
                exp = 'defer_transition' if deferred else 'call_no_transition'
            ok = stored == exp
            R.ob('C05.default-cell', ok, {'state': Facts.short(st, 50), 'event': Facts.short(ev, 30), 'cell': stored})
            if not ok:
                R.find('C05.default-cell', f, 'cell:' + exp, 'default cell of state %s for event %s is %s, the declarations require %s' % (Facts.short(st, 60), Facts.short(ev, 40), stored, exp), instance='%s / %s' % (Facts.short(st, 100), Facts.short(ev, 60)))
        if f.cls == 'state_machine' and f.n in ('default_eventless_transition', 'call_no_transition', 'call_no_transition_internal', 'defer_transition') and f.d.get('static'):
            R.seen(f); R.anchor('cell-fn:%s:%s' % (be, f.n))
            classes = set()
            for i, n in f.calls():
                classes |= set(E.call_classes(f, n))
            rets = {f.expr(n['e']) for n in f.nodes if n and n['k'] == 'ret' and n['e']}
            if f.n == 'default_eventless_transition':
                ok = not (classes & {'NO_TRANSITION', 'DEFER', 'GUARD', 'ACTION', 'ENTRY', 'EXIT'}) and rets == {'HANDLED_FALSE'}
            elif f.n == 'defer_transition':
                ok = 'DEFER' in classes and 'NO_TRANSITION' not in classes and rets == {'HANDLED_DEFERRED'}
            else:
                ok = not (classes & {'DEFER', 'GUARD', 'ACTION', 'ENTRY', 'EXIT'}) and rets == {'HANDLED_FALSE'}
            R.ob('C05.default-cell', ok, {'func': f.q, 'classes': sorted(classes & {'NO_TRANSITION', 'DEFER'}), 'returns': sorted(rets)})
            if not ok: R.find('C05.default-cell', f, 'cell-fn', '%s runs %s and returns %s' % (f.n, sorted(classes), sorted(rets)))
        if f.cls == 'handle_eventless_transitions_helper' and f.n == 'process_completion_event' and any(n.get('n') == 'process_event_internal' for i, n in f.calls()):
            R.seen(f); R.anchor('completion-helper:' + be)
            # only when the last step was handled; dispatches the first completion event as a direct call
            calls = [n for i, n in f.calls() if n.get('n') == 'process_event_internal']
            cond_ok = any(b.get('tc') and f.nodes[b['tc']].get('n') == 'handled' for b in f.blocks)
            arg = f.expr(calls[0]['args'][1]) if calls and len(calls[0]['args']) > 1 else ''
            ok = len(calls) == 1 and cond_ok and 'EVENT_SOURCE_DIRECT' in arg
            R.ob('C10.first', ok, {'func': f.q, 'source_arg': arg})
            if not ok: R.find('C10.first', f, 'completion-helper', 'the completion dispatch must happen only after a handled step, once, as a direct call (found guarded=%s, source=%s)' % (cond_ok, arg))

@rule('introspect')
def introspect(F, R):
    """C03.introspect: the introspection calls answer from the active-state array itself."""
    from rules_core import backend_of
    from effects import ACTIVE_MEMBERS
    from rules_rtc import active_index, const_of
    for f in F.funcs:
        be = backend_of(f)
        if be is None or not f.blocks: continue
        if f.cls in ('state_machine', 'state_machine_base') and f.n in ('current_state', 'get_active_state_ids'):
            R.seen(f); R.anchor('active-getter:%s' % be)
            rets = [n for n in f.nodes if n and n['k'] == 'ret' and n['e']]
            ok = bool(rets) and all(f.base_member(r['e']) in ACTIVE_MEMBERS for r in rets)
            R.ob('C03.introspect', ok, {'func': f.q})
            if not ok: R.find('C03.introspect', f, 'getter', '%s must return the machine\'s active-state array' % f.n)
        if be in ('back', 'back11') and f.cls == 'state_machine' and f.n == 'visit_current_states':
            R.seen(f); R.anchor('visit-current:' + be)
            idx = [active_index(f, i) for i, n in enumerate(f.nodes) if n and n['k'] == 'sub']
            idx = [x for x in idx if x]
            execs = [n for i, n in f.calls() if n.get('n') == 'execute' and n.get('obj') and f.base_member(n['obj']) == 'm_visitors']
            loopv = None
            for x in idx:
                iv = f.nodes[x[0]]
                if iv and iv['k'] == 'ref' and iv.get('dk') == 'local': loopv = iv['n']
            ok = len(execs) == 1 and loopv is not None
            if ok:
                init0 = any(v['n'] == loopv and v['hasinit'] and const_of(f, v['init']) == 0 for m in f.nodes if m and m['k'] == 'decl' for v in m['vars'])
                bound = any(b.get('tc') and f.nodes[b['tc']]['k'] == 'bin' and f.nodes[b['tc']]['op'] == '<' and f.nodes[f.nodes[b['tc']]['lhs']].get('n') == loopv for b in f.blocks)
                ok = init0 and bound
            R.ob('C03.introspect', ok, {'func': f.q})
            if not ok: R.find('C03.introspect', f, 'visit', 'visit_current_states must visit the active state of every region 0..nr_regions-1')
        if be in ('back', 'back11') and f.cls == 'get_state_id_helper' and f.n == 'operator()':
            # the state whose address is returned is the one whose id is compared
            ta = f.targs() or []
            st = strip_cvref(str(ta[0])) if ta else ''
            cmpc = None
            for n in f.nodes:
                if n and n['k'] == 'bin' and n['op'] == '==':
                    cmpc = const_of(f, n['lhs']) if const_of(f, n['lhs']) is not None else const_of(f, n['rhs'])
            if cmpc is None: continue
            R.seen(f); R.anchor('state-by-id:' + be)
            if not hasattr(F, '_gsid'):
                F._gsid = {}
                for r in F.records:
                    if r['n'] == 'get_state_id' and r.get('a') and 'value' in r['consts']:
                        a = F.targs(r['a'])
                        if len(a) >= 2: F._gsid.setdefault(strip_cvref(str(a[1])), set()).add(r['consts']['value'])
            vals = F._gsid.get(st, set())
            ok = cmpc in vals if len(vals) == 1 else True      # a state type used by several machines may have several ids: no oracle
            R.ob('C03.introspect', ok, {'func': f.q, 'state': Facts.short(st, 50), 'compared_id': cmpc, 'state_id': sorted(vals)})
            if not ok: R.find('C03.introspect', f, 'by-id', 'get_state_by_id returns state %s for id %s but that state\'s id is %s' % (Facts.short(st, 60), cmpc, sorted(vals)))

@rule('names')
def names(F, R):
    """C03.names: id <-> state agreement of the by-id helpers: get_state_id_helper (get_state_by_id) and the name tools of
    back/tools.hpp compare / index with get_state_id<stt, S>::value of the very state S whose object / typeid they deliver."""
    from rules_core import backend_of
    for f in F.funcs:
        if not f.blocks or f.n != 'operator()': continue
        tool = f.file.endswith('back/tools.hpp') and f.cls in ('fill_state_names', 'get_state_name')
        byid = backend_of(f) in ('back', 'back11') and f.cls == 'get_state_id_helper'
        if not (tool or byid): continue
        ta = f.targs() or []
        st = strip_cvref(str(ta[0])) if ta else None
        if not st: continue
        idstates = set()
        for n in f.nodes:
            if n and n['k'] == 'ref' and n.get('dk') in ('enum', 'smember') and n.get('n') == 'value' and 'ect' in n:
                h, a, r = parse_type(F.strs[n['ect']])
                if h.endswith('get_state_id') and a and len(a) >= 2: idstates.add(strip_cvref(a[1]))
        delivered = set()
        for n in f.nodes:
            if n and n['k'] == 'typeid' and 'ty' in n: delivered.add(strip_cvref(F.strs[n['ty']]))
            if n and n['k'] == 'call' and n.get('n') == 'at_key' and n.get('ta'):
                t0 = n['ta'][0]
                if isinstance(t0, dict) and 't' in t0: delivered.add(strip_cvref(F.strs[t0['t']]))
        R.seen(f); R.anchor('by-id:' + f.cls)
        ok = idstates == {st} and delivered == {st}
        R.ob('C03.names', ok, {'func': f.q, 'state': Facts.short(st, 60)})
        if not ok:
            R.find('C03.names', f, 'id-state', '%s<%s>: the id used is that of %s, the %s delivered is that of %s' % (f.cls, Facts.short(st, 50), sorted(Facts.short(x, 40) for x in idstates), 'name' if tool else 'state object', sorted(Facts.short(x, 40) for x in delivered)), instance=Facts.short(st, 120))

@rule('byid')
def byid(F, R):
    """C03.by-id (back / back11): get_state_by_id answers from the search over the machine's whole state list on every path (no bound
    derived from anything else - e.g. the number of table rows - decides before the search), and returns the search result."""
    from rules_core import backend_of
    from rules_struct import tokens_on_paths
    from rules_order import dependency_closure
    M = Model(F)
    for f in F.funcs:
        if backend_of(f) not in ('back', 'back11') or f.n != 'get_state_by_id' or f.cls != 'state_machine' or not f.blocks: continue
        R.seen(f); R.anchor('get-state-by-id:' + backend_of(f))
        def cl(i, n):
            if n['k'] == 'call' and n.get('n') == 'for_each' and any(f.nodes[d] and f.nodes[d]['k'] == 'ctor' and f.nodes[d].get('pc') == 'get_state_id_helper' for a in n.get('args', []) for d in dependency_closure(f, a)): return 'S'
            if n['k'] == 'call' and n.get('n') == 'get_state_by_id': return 'D'       # delegation to the other overload
            return None
        seqs = tokens_on_paths(f, cl)
        ok = bool(seqs) and all(s in (['S'], ['D']) for s in seqs)
        # the sequence searched is the machine's state list
        full = True
        m = M.machine_of(F.class_type(f))
        for i, n in f.calls():
            if n.get('n') == 'for_each' and n.get('ta') and m is not None:
                t0 = n['ta'][0]
                lst = type_list(F.strs[t0['t']]) if isinstance(t0, dict) and 't' in t0 else None
                want = M.states(m.fe)
                if lst is not None and want and M.rows(m.fe) is not None:
                    if not set(strip_cvref(x) for x in want) <= set(strip_cvref(x) for x in lst): full = False
        R.ob('C03.by-id', ok and full, {'func': f.q, 'paths': seqs})
        if not (ok and full):
            R.find('C03.by-id', f, 'search', 'get_state_by_id must search the whole state list on every path and return what it found (paths: %s%s): an id that current_state() reports would otherwise yield no state' % (seqs, '' if full else '; the searched sequence does not contain every state of the machine'))

@rule('owners')
def owners(F, R):
    """C09.owner: every back-end transition generated from a front-end row lives in the right cell and enters the right object:
    its current_state_type is the row's source - or, for an exit pseudostate source, the submachine owning it - and its
    next_state_type is the row's target - or, for direct / entry-point / fork targets, the submachine owning the named substates."""
    M = Model(F)
    def owner_of(t, kinds=('::exit_pt', '::entry_pt', '::direct')):
        """for Sub::exit_pt<X> / Sub::entry_pt<X> / Sub::direct<X>: the machine type Sub (backmp11: the Derived argument)"""
        head, args, rest = parse_type(t)
        r = rest.strip()
        if args is not None and any(r.startswith(k) for k in kinds):
            if head.endswith('::state_machine_base') and len(args) >= 3: return strip_cvref(args[2])
            return head + '<' + ', '.join(args) + '>'
        return None
    for r in F.records:
        if r['n'] not in ('row_', 'a_row_', 'g_row_', '_row_', 'transition') or not r['loc'].startswith('boost/msm/back'): continue
        if 'current_state_type' not in r['tds'] or 'next_state_type' not in r['tds']: continue
        a = F.targs(r.get('a')) or []
        if not a: continue
        rowrec = F.rec_by_type(str(a[0]))
        if not rowrec or 'Source' not in rowrec['tds'] or 'Target' not in rowrec['tds']: continue
        src = strip_cvref(F.strs[rowrec['tds']['Source']]); tgt = strip_cvref(F.strs[rowrec['tds']['Target']])
        cur = strip_cvref(F.strs[r['tds']['current_state_type']]); nxt = strip_cvref(F.strs[r['tds']['next_state_type']])
        be = 'backmp11' if 'backmp11' in r['loc'] else 'back11' if 'back11' in r['loc'] else 'back'
        R.anchor('transition-types:' + be)
        exp_cur = owner_of(src, ('::exit_pt',)) or src
        tl = type_list(tgt)
        if tl:   # fork: all named substates belong to one submachine
            owners_ = {owner_of(x, ('::entry_pt', '::direct')) for x in tl}
            exp_nxt = owners_.pop() if len(owners_) == 1 else None
        else:
            exp_nxt = owner_of(tgt, ('::entry_pt', '::direct')) or tgt
        # back keeps an explicit-entry state that is a row of its own machine as itself (get_owner returns the state); accept both
        def own_wrapper(x, inner):
            # back / back11 wrap a machine's own pseudo states: state_machine<..>::exit_pt<P> / entry_pt<P> for a row naming P
            h_, a_, r_ = parse_type(x)
            r_ = r_.strip()
            if a_ is not None and (r_.startswith('::exit_pt<') or r_.startswith('::entry_pt<')):
                ia = parse_type(r_[2:])[1]
                return bool(ia) and strip_cvref(ia[0]) == inner
            return False
        ok = (cur == exp_cur or own_wrapper(cur, src)) and (exp_nxt is None or nxt == exp_nxt or nxt == tgt or own_wrapper(nxt, tgt))
        R.ob('C09.owner', ok, {'row': Facts.short(str(a[0]), 80), 'current_state_type': Facts.short(cur, 50), 'next_state_type': Facts.short(nxt, 50)})
        if not ok:
            R.find('C09.owner', (r['loc'].split(':')[0], r['q']), 'owner', 'row %s: generated transition has source cell %s / target %s, the declaration requires %s / %s' % (Facts.short(str(a[0]), 100), Facts.short(cur, 60), Facts.short(nxt, 60), Facts.short(exp_cur, 60), Facts.short(str(exp_nxt), 60)), where=r['loc'], instance=Facts.short(str(a[0]), 200))

@rule('explicitidx')
def explicitidx(F, R):
    """C09.region: an explicitly entered substate is activated in the region it is declared in: the index used when writing the
    active-state array equals the state's declared zone_index (explicit_entry<N> / entry_pseudo_state<N>)."""
    from rules_core import backend_of
    from rules_rtc import active_index, const_of
    from effects import ACTIVE_MEMBERS
    def zone_of(t):
        todo = [strip_cvref(t)]; n = 0
        while todo and n < 24:
            n += 1
            rec = F.rec_by_type(todo.pop(0))
            if rec is None: continue
            if 'zone_index' in rec['consts']: return rec['consts']['zone_index']
            todo.extend(F.strs[b['t']] for b in rec['bases'])
        return None
    for f in F.funcs:
        be = backend_of(f)
        if be is None or not f.blocks: continue
        state_t = None
        if be == 'backmp11': pass
        elif be in ('back', 'back11') and f.n == 'operator()' and f.cls == 'fork_helper':
            ta = f.targs() or []
            if ta:
                rec = F.rec_by_type(strip_cvref(str(ta[0])))
                if rec and 'wrapped_entry' in rec['tds']: state_t = F.strs[rec['tds']['wrapped_entry']]
        elif be in ('back', 'back11') and f.n == 'operator()' and f.cls == 'direct_event_start_helper':
            pt = f.param_types()
            if pt:
                rec = F.rec_by_type(strip_cvref(pt[0]))
                ast = F.strs[rec['tds']['active_state']] if rec and 'active_state' in rec['tds'] else None
                if ast and type_list(ast) is None:
                    r2 = F.rec_by_type(strip_cvref(ast))
                    if r2 and 'wrapped_entry' in r2['tds']: state_t = F.strs[r2['tds']['wrapped_entry']]
        if state_t is None and be != 'backmp11': continue
        z = zone_of(state_t) if state_t else None
        for i, n in enumerate(f.nodes):
            if n and n['k'] == 'asg' and f.base_member(n['lhs']) in ACTIVE_MEMBERS:
                if be == 'backmp11':
                    # the state is the one whose id is stored: m_active_state_ids[k] = get_state_id<State>()
                    r = f.nodes[n['rhs']]
                    while r and r['k'] in ('icast', 'cast'): r = f.nodes[r['e']]
                    if not (r and r['k'] == 'call' and r.get('n') == 'get_state_id' and r.get('ta')): continue
                    a0 = r['ta'][0]
                    state_t = F.strs[a0['t']] if isinstance(a0, dict) and 't' in a0 else None
                    if state_t is None: continue
                    z = zone_of(state_t)
                ai = active_index(f, n['lhs'])
                k = const_of(f, ai[0]) if ai else None
                if k is None or z is None or z < 0: continue
                R.seen(f); R.anchor('explicit-region:' + be)
                ok = k == z
                R.ob('C09.region', ok, {'func': f.q, 'state': Facts.short(state_t, 60), 'declared_region': z, 'region_written': k})
                if not ok:
                    R.find('C09.region', f, 'region', 'explicitly entered state %s is declared in region %d but is activated in region %d' % (Facts.short(state_t, 60), z, k), where=f.at(i), instance=Facts.short(state_t, 160))

@rule('consume')
def consume(F, R):
    """C18.consume: while an event is being dispatched the library never moves out of it: an rvalue made from a parameter
    (std::move / std::forward) is only ever bound to another reference parameter (perfect forwarding down the dispatch chain); it is
    never the argument of a constructor call or of a by-value parameter.  (Later regions, the internal table, a re-deferral and the
    caller's own object all still read the event.)"""
    from rules_core import backend_of
    for f in F.funcs:
        be = backend_of(f)
        if be is None or not f.blocks or f.d.get('sp') in ('ctor', 'copy_ctor', 'move_ctor', 'move_assign', 'copy_assign'): continue
        if f.file.endswith('basic_polymorphic.hpp'): continue            # value semantics of the pool element itself: C20.poly / C20.block
        pts = dict(zip([p['n'] for p in f.d.get('params', [])], f.param_types()))
        sites = []
        for i, n in f.calls():
            if n.get('q') in ('std::move', 'std::forward') and n.get('args'):
                a = f.nodes[n['args'][0]]
                while a and a['k'] in ('icast', 'cast'): a = f.nodes[a['e']]
                if a and a['k'] == 'ref' and a.get('dk') == 'param' and 'isit' not in a['n'].lower() and a['n'] not in ('func', 'f', 'visitor', 'vis'):
                    sites.append((i, a['n']))
        if not sites: continue
        R.seen(f); R.anchor('rvalue-of-param:' + be)
        for i, pn in sites:
            # who consumes node i ?
            bad = None
            for j, m in enumerate(f.nodes):
                if not m or j == i: continue
                args = m.get('args') or []
                # look through implicit casts / temporaries between the consumer and the rvalue
                def reaches(a):
                    x = a
                    for _ in range(6):
                        if x == i: return True
                        y = f.nodes[x] if x else None
                        if not y or y['k'] not in ('icast', 'cast', 'tmp', 'bind', 'paren'): return False
                        x = y.get('e')
                    return False
                for k, a in enumerate(args):
                    if not reaches(a): continue
                    if m['k'] == 'ctor': bad = (j, 'constructs a %s from it' % Facts.short(F.strs[m['t']], 60))
                    elif m['k'] == 'call':
                        g = F.bykey.get(m.get('fk'))
                        gp = g.param_types() if g is not None else None
                        off = 0
                        if gp is not None and k - off < len(gp) and not gp[k - off].strip().endswith('&'): bad = (j, 'passes it to the by-value parameter %d of %s' % (k, m.get('n')))
                if m['k'] == 'decl':
                    for v in m['vars']:
                        if v.get('hasinit') and not v.get('ref') and reaches(v['init']): bad = (j, 'initialises the local %s from it' % v['n'])
            R.ob('C18.consume', bad is None, {'func': f.q, 'parameter': pn})
            if bad:
                R.find('C18.consume', f, 'moved:' + pn, 'the event parameter %s is turned into an rvalue and this function %s: the event is moved-from while later regions, the internal table, a re-deferral or the caller still read it' % (pn, bad[1]), where=f.at(bad[0]))

CONFIG_HELPERS = {'do_process_helper': 'no_exception_thrown', 'do_pre_msg_queue_helper': 'no_message_queue', 'do_allow_event_processing_after_transition': 'no_message_queue',
                  'do_post_msg_queue_helper': 'no_message_queue', 'enqueue_event_helper': 'no_message_queue', 'execute_queued_events_helper': 'no_message_queue',
                  'execute_single_queued_event_helper': 'no_message_queue', 'do_handle_prio_msg_queue_deferred_queue': 'event_queue_before_deferred_queue'}
CONFIG_TYPEDEF_ONLY = {'event_queue_before_deferred_queue'}      # looked up with has_xxx on the front-end only, not in `configuration`

@rule('config')
def config(F, R):
    """C12.config: which variant of a configurable helper a machine uses is decided by the option that helper is about, as the
    machine's front-end declares it (typedef in the front-end or an element of its `configuration` sequence): the exception-containing
    dispatch (try / catch) is used unless no_exception_thrown is declared; the queueing helpers follow no_message_queue.  backmp11:
    process_event_internal / process_completion_transition contain the try block exactly when no_exception_thrown is not declared."""
    from rules_core import backend_of
    M = Model(F)
    def declares(fe, opt): return M.declares_option(fe, opt, through_configuration=opt not in CONFIG_TYPEDEF_ONLY)
    for f in F.funcs:
        be = backend_of(f)
        if be is None or not f.blocks or f.cls not in ('state_machine', 'state_machine_base'): continue
        m = M.machine_of(F.class_type(f))
        if m is None or F.rec_by_type(m.fe) is None: continue
        if be in ('back', 'back11') and f.n == 'do_handle_prio_msg_queue_deferred_queue':
            # the two variants: message queue first (option declared) / deferred queue first (default)
            first_msgq = any('bool_<true>' in F.strs[p['t']] for p in f.d['params'])
            order = [n.get('n') for i, n in sorted(f.calls(), key=lambda x: f.linear_nodes().index(x[0]) if x[0] in f.linear_nodes() else 0) if n.get('n') in ('do_post_msg_queue_helper', 'do_handle_deferred')]
            want_order = ['do_post_msg_queue_helper', 'do_handle_deferred'] if first_msgq else ['do_handle_deferred', 'do_post_msg_queue_helper']
            R.seen(f); R.anchor('prio-variant:%s:%s' % (be, 'msgq-first' if first_msgq else 'deferred-first'))
            ok = order == want_order
            # which queue is drained for which event source: the queue an event was taken from is not drained from inside its own
            # dispatch; in the message-queue-first variant the deferred queue additionally waits for events taken from the message queue
            # (and vice versa in the default variant)
            from rules_struct import cond_facts
            MQ = DQ = None
            for n in f.nodes:
                if n and n['k'] == 'ref' and n.get('dk') == 'enum':
                    if n['n'] == 'EVENT_SOURCE_MSG_QUEUE': MQ = n.get('v')
                    if n['n'] == 'EVENT_SOURCE_DEFERRED': DQ = n.get('v')
            def ev(nid, src):
                n = f.nodes[nid] if nid else None
                if n is None: return None
                k = n['k']
                if k in ('icast', 'cast', 'paren'): return ev(n['e'], src)
                if k == 'lit': return int(n['v']) if isinstance(n.get('v'), (int, bool)) else None
                if k == 'ref': return n['v'] if n.get('dk') == 'enum' and 'v' in n else (src if n.get('dk') == 'param' and n['n'] == 'source' else None)
                if k == 'un' and n['op'] == '!':
                    x = ev(n['e'], src); return None if x is None else int(not x)
                if k in ('bin', 'call') and n.get('op') in ('&', '|', '==', '!=', '&&', '||'):
                    ops = [n['lhs'], n['rhs']] if k == 'bin' else list(n.get('args', []))
                    if len(ops) != 2: return None
                    a, b = ev(ops[0], src), ev(ops[1], src)
                    if a is None or b is None: return None
                    return {'&': a & b, '|': a | b, '==': int(a == b), '!=': int(a != b), '&&': int(bool(a) and bool(b)), '||': int(bool(a) or bool(b))}[n['op']]
                return None
            if MQ is not None and DQ is not None:
                done_ = False
                for p in f.paths(edge_bound=1):
                    if f.aborts(p) or done_: continue
                    conds = []
                    for bi, b in enumerate(p[:-1]):
                        for c, t in cond_facts(f, f.bmap[b], p[bi + 1]):
                            cid = next((k for k, x in enumerate(f.nodes) if x is c), None)
                            if cid is not None: conds.append((cid, t))
                    did = [f.nodes[i].get('n') for i in f.path_nodes(p) if f.nodes[i] and f.nodes[i]['k'] == 'call' and f.nodes[i].get('n') in ('do_post_msg_queue_helper', 'do_handle_deferred')]
                    # every event source consistent with the branch outcomes of this path
                    for msgq in (0, 1):
                        for defq in (0, 1):
                            src = (MQ if msgq else 0) | (DQ if defq else 0)
                            vals = [(ev(cid, src), t) for cid, t in conds]
                            if any(v is None for v, t in vals) or any(bool(v) != t for v, t in vals): continue
                            if first_msgq: exp_m, exp_d = (not msgq), (not msgq and not defq)
                            else: exp_d, exp_m = (not defq), (not defq and not msgq)
                            okp = (('do_post_msg_queue_helper' in did) == exp_m) and (('do_handle_deferred' in did) == exp_d)
                            R.ob('C12.config', okp, {'func': f.q, 'from_message_queue': bool(msgq), 'from_deferred_queue': bool(defq), 'drains': did})
                            if not okp and not done_:
                                done_ = True
                                R.find('C12.config', f, 'prio-sources', 'in the %s variant an event taken from %s drains %s afterwards; required: message queue %s, deferred queue %s (the queue an event came from is not drained from inside its own dispatch, the other one is)' % ('message-queue-first' if first_msgq else 'default', ' and '.join(x for x, y in (('the message queue', msgq), ('the deferred queue', defq)) if y) or 'neither queue', did or 'nothing', exp_m, exp_d))
            # C05.prio-arming: when the message queue is drained BEFORE the deferred queue is looked at, the events just taken from the
            # message queue may have changed the configuration (they do not re-offer deferred events themselves: they come from the
            # message queue).  The re-offer that follows must therefore be armed by their outcome as well; if its arming flag depends on
            # nothing but the result of the event that was processed before the drain, deferred events stay pending in a configuration
            # that no longer defers them until some later event is handled
            if first_msgq and ok:
                from rules_order import dependency_closure
                for i, n in f.calls():
                    if n.get('n') != 'do_handle_deferred' or not n.get('args'): continue
                    deps = dependency_closure(f, n['args'][0])
                    names = {f.nodes[d]['n'] for d in deps if f.nodes[d] and f.nodes[d]['k'] == 'ref' and f.nodes[d].get('dk') in ('param', 'local')}
                    mems = {f.nodes[d]['n'] for d in deps if f.nodes[d] and f.nodes[d]['k'] == 'mem'}
                    calls_ = {f.nodes[d].get('n') for d in deps if f.nodes[d] and f.nodes[d]['k'] == 'call' and not f.nodes[d].get('op')}
                    only_param = names <= {p_['n'] for p_ in f.d['params']} and not mems and not calls_
                    R.anchor('prio-arming:' + be)
                    R.ob('C05.prio-arming', not only_param, {'func': f.q, 'armed_by': f.expr(n['args'][0])})
                    if only_param:
                        R.find('C05.prio-arming', f, 'direct-result-only:' + be, 'with event_queue_before_deferred_queue the message queue is drained first and the deferred events are re-offered afterwards, armed by %s - the outcome of the event processed before the drain alone: a state change made by one of the queued events does not re-offer the deferred events, they stay pending although the new configuration does not defer them' % f.expr(n['args'][0]), where=f.at(i))
            R.ob('C12.config', ok, {'func': f.q, 'order': order})
            if not ok: R.find('C12.config', f, 'prio-order', 'the %s variant of do_handle_prio_msg_queue_deferred_queue runs %s, required %s' % ('event_queue_before_deferred_queue' if first_msgq else 'default', order, want_order))
        if be in ('back', 'back11'):
            for i, n in f.calls():
                opt = CONFIG_HELPERS.get(n.get('n'))
                if not opt or n.get('pc') != 'state_machine': continue
                tag = None
                for a in n.get('args', []):
                    x = f.nodes[a]
                    t = strip_cvref(F.strs[x['t']]) if x and 't' in x else ''
                    h, ta, r = parse_type(t)
                    if h in ('mpl_::bool_', 'boost::mpl::bool_', 'std::integral_constant') and ta: tag = ta[-1] in ('true', '1')
                if tag is None: continue
                want = declares(m.fe, opt)
                R.seen(f); R.anchor('config-tag:%s:%s' % (be, n['n']))
                if want: R.anchor('config-on:%s:%s' % (be, opt))
                ok = tag == want
                R.ob('C12.config', ok, {'func': f.q, 'helper': n['n'], 'option': opt, 'declared': want, 'variant_selected': tag})
                if not ok:
                    R.find('C12.config', f, 'variant:' + n['n'], 'machine %s %s %s but %s is called with the variant for %s=%s%s' % (Facts.short(m.fe, 50), 'declares' if want else 'does not declare', opt, n['n'], opt, str(tag).lower(),
                           ': behaviours\' exceptions escape process_event and exception_caught is never called' if n['n'] == 'do_process_helper' and tag else ''), where=f.at(i), instance=Facts.short(m.fe, 120))
                if n['n'] == 'do_process_helper':
                    g = F.bykey.get(n.get('fk'))
                    if g is not None and g.blocks:
                        has_try = bool(g.d.get('tries'))
                        ok2 = has_try == (not want)
                        R.ob('C12.config', ok2, {'func': g.q, 'contains_try': has_try, 'no_exception_thrown': want})
                        if not ok2: R.find('C12.config', f, 'try:' + n['n'], 'machine %s %s no_exception_thrown but the dispatch helper it calls %s a try block' % (Facts.short(m.fe, 50), 'declares' if want else 'does not declare', 'contains' if has_try else 'has no'), where=f.at(i), instance=Facts.short(m.fe, 120))
        elif f.n in ('process_event_internal', 'process_completion_transition'):
            want = M.declares_option(m.fe, 'no_exception_thrown', through_configuration=False)
            if not any(nn.get('n') in ('do_process_event', 'process_event_internal', 'execute', 'dispatch') for i, nn in f.calls()): continue
            has_try = bool(f.d.get('tries'))
            R.seen(f); R.anchor('config-try:backmp11:' + f.n)
            if want: R.anchor('config-on:backmp11:no_exception_thrown')
            ok = has_try == (not want)
            R.ob('C12.config', ok, {'func': f.q, 'contains_try': has_try, 'no_exception_thrown': want})
            if not ok: R.find('C12.config', f, 'try:' + f.n, 'machine %s %s no_exception_thrown but %s %s a try block' % (Facts.short(m.fe, 50), 'declares' if want else 'does not declare', f.n, 'contains' if has_try else 'has no'), instance=Facts.short(m.fe, 120))

def FKEY(F, f):
    if not hasattr(F, '_revkey'): F._revkey = {id(v): k for k, v in F.bykey.items()}
    return F._revkey.get(id(f))

@rule('fpatable')
def fpatable(F, R):
    """C13.fpa (backmp11, function_pointer_array strategy): the evaluated constexpr cell table of dispatch_table<SM,Event> holds, at
    the state id of every merged transition's source state, that transition's executor (through the Kleene converter when its
    trigger is a Kleene type) and a null cell everywhere else - i.e. it dispatches exactly what the flat_fold strategy dispatches
    from the same merged_transitions (whose content C01.plan compares with the declarations)."""
    from rules_core import backend_of
    M = Model(F)
    ids = {}
    for f in F.funcs:
        if f.n == 'get_state_id' and f.cls == 'state_machine_base' and backend_of(f) == 'backmp11' and f.blocks:
            ca = f.cls_args('state_machine_base'); ta = f.targs()
            if ca and len(ca) >= 3 and ta:
                v = F.const_return(FKEY(F, f))
                if v is not None: ids[(strip_cvref(str(ca[2])), strip_cvref(str(ta[0])))] = v
    for r in F.records:
        if r['n'] != 'dispatch_impl' or not r.get('ptabs') or not r['loc'].startswith('boost/msm/backmp11/'): continue
        comps = components(F.strs[r['t']])
        dt = [c for c in comps if c[0].split('::')[-1] == 'dispatch_table' and c[1]]
        if not dt or not r['bases']: continue
        sm_t = strip_cvref(dt[-1][1][0]); ev = strip_cvref(dt[-1][1][1])
        base = F.rec_by_type(F.strs[r['bases'][0]['t']])
        if base is None or 'merged_transitions' not in base['tds']: continue
        cells = list(r['ptabs'].values())[0]
        R.anchor('fpa-table')
        expect = {}; unknown = False
        for tr in (type_list(F.strs[base['tds']['merged_transitions']]) or []):
            rec = F.rec_by_type(tr)
            if rec is None or 'current_state_type' not in rec['tds']: unknown = True; continue
            st = strip_cvref(F.strs[rec['tds']['current_state_type']])
            te = strip_cvref(F.strs[rec['tds']['transition_event']]) if 'transition_event' in rec['tds'] else ev
            sid = ids.get((sm_t, st))
            if sid is None: unknown = True; continue
            expect[sid] = (tr, M.is_kleene(te))
        if unknown:
            R.note('fpa table of %s / %s: state ids or transition records not available, not compared' % (Facts.short(sm_t, 60), Facts.short(ev, 30))); continue
        bad = []
        for i, c in enumerate(cells):
            e = expect.get(i)
            if e is None:
                if c is not None: bad.append('cell %d holds %s but no transition leaves the state with that id on this event' % (i, c if isinstance(c, str) else c.get('n')))
                continue
            tr, kle = e
            if c is None or isinstance(c, str): bad.append('cell %d is empty but the merged transitions contain %s' % (i, Facts.short(tr, 80))); continue
            if kle: ok = c['n'] == 'convert_event_and_execute' and [strip_cvref(F.strs[t]) for t in c.get('ta', [])][:1] == [strip_cvref(tr)]
            else: ok = c['n'] == 'execute' and strip_cvref(F.strs[c['pt']]) == strip_cvref(tr)
            if not ok: bad.append('cell %d holds %s of %s, expected the executor of %s' % (i, c['n'], Facts.short(F.strs[c['pt']], 80) if 'pt' in c else '?', Facts.short(tr, 80)))
        for sid in expect:
            if sid >= len(cells): bad.append('state id %d is beyond the table (%d cells)' % (sid, len(cells)))
        R.ob('C13.fpa', not bad, {'machine': Facts.short(sm_t, 60), 'event': Facts.short(ev, 30), 'cells': len(cells), 'filled': len(expect)})
        if bad:
            R.find('C13.fpa', ('boost/msm/backmp11/detail/favor_runtime_speed.hpp', 'boost::msm::backmp11::detail::compile_policy_impl::dispatch_table::dispatch_impl<function_pointer_array>'), 'cells', 'function_pointer_array table for %s on %s: %s' % (Facts.short(sm_t, 60), Facts.short(ev, 30), '; '.join(bad[:3])), where=r['loc'], instance='%s / %s' % (Facts.short(sm_t, 100), Facts.short(ev, 40)))
    # the two dispatch functions themselves
    for f in F.funcs:
        if backend_of(f) != 'backmp11' or not f.blocks: continue
        # flat_fold: one closure instance per merged transition T: if (active id == id of T's source) result = T's executor(sm, region_id, event)
        ctx = f.d['ctx']
        if f.n == 'operator()' and len(ctx) >= 3 and ctx[-2].get('f') == 'dispatch' and ctx[-3].get('c') == 'dispatch_impl' and 'lck' in ctx[-1]:
            pt = f.param_types()
            if not pt: continue
            T = strip_cvref(pt[0])
            rec = F.rec_by_type(T)
            if rec is None or 'current_state_type' not in rec['tds']: continue
            st = strip_cvref(F.strs[rec['tds']['current_state_type']])
            R.seen(f); R.anchor('flat-fold-step')
            why = []
            ex = [(i, n) for i, n in f.calls() if n.get('n') in ('execute', 'convert_event_and_execute')]
            if len(ex) != 1: why.append('%d executor calls' % len(ex))
            else:
                i, n = ex[0]
                if n['n'] == 'execute' and strip_cvref(F.strs[n['pt']]) != T: why.append('executes %s instead of its own transition' % Facts.short(F.strs[n['pt']], 60))
                if n['n'] == 'convert_event_and_execute' and [strip_cvref(F.strs[a['t']]) for a in n.get('ta', []) if isinstance(a, dict) and 't' in a][:1] != [T]: why.append('converts for another transition')
                asg = [m for m in f.nodes if m and m['k'] == 'asg' and m['rhs'] == i and (f.nodes[m['lhs']] or {}).get('n') == 'result']
                if not asg: why.append('the executor\'s result is not stored in the captured result')
            # the comparison guarding it: active id == id of the transition's source state
            cmp_ok = False
            for b in f.blocks:
                if not b.get('tc'): continue
                c = f.nodes[b['tc']]
                if c and c['k'] == 'bin' and c['op'] == '==':
                    for side in (c['lhs'], c['rhs']):
                        x = f.nodes[side]
                        while x and x['k'] in ('icast', 'cast'): x = f.nodes[x['e']]
                        if x and x['k'] == 'ref' and x.get('dk') == 'local':
                            for dn in f.nodes:
                                if dn and dn['k'] == 'decl':
                                    for v in dn['vars']:
                                        if v['n'] == x['n'] and v.get('hasinit'):
                                            iv = f.nodes[v['init']]
                                            while iv and iv['k'] in ('icast', 'cast'): iv = f.nodes[iv['e']]
                                            if iv and iv['k'] == 'call' and iv.get('n') == 'get_state_id' and iv.get('ta') and strip_cvref(F.strs[iv['ta'][0]['t']]) == st: cmp_ok = True
            if not cmp_ok: why.append('the executor is not guarded by "active state id == id of the transition\'s source state"')
            R.ob('C13.fpa', not why, {'func': f.q, 'transition': Facts.short(T, 80)})
            if why: R.find('C13.fpa', f, 'flat-fold', 'flat_fold step for %s: %s' % (Facts.short(T, 80), '; '.join(why)), instance=Facts.short(T, 160))
            continue
        if f.cls == 'dispatch_impl' and f.n == 'dispatch':
            strat = ' '.join(str(x) for x in (f.cls_args('dispatch_impl') or []))
            if 'function_pointer_array' in strat:
                R.seen(f); R.anchor('fpa-dispatch')
                from rules_rtc import active_index
                # cell = cells[m_active_state_ids[region_id]]; called with (sm, region_id, event); else HANDLED_FALSE
                pn = [p['n'] for p in f.d['params']]
                ind = [n for i, n in f.calls() if 'fk' not in n and n.get('fn')]
                ok = len(ind) == 1
                if ok:
                    got = []
                    for a in ind[0]['args']:
                        x = f.nodes[a]
                        while x and x['k'] in ('icast', 'cast'): x = f.nodes[x['e']]
                        got.append(x['n'] if x and x['k'] == 'ref' else None)
                    ok = got == pn
                # the cell index is the region's active state id
                reads_active = False
                for i2, n2 in enumerate(f.nodes):
                    if not n2: continue
                    idx = None
                    if n2['k'] == 'sub': idx = n2['i']
                    elif n2['k'] == 'call' and n2.get('op') == '[]' and n2.get('args'): idx = n2['args'][-1]
                    if idx is None or active_index(f, i2): continue
                    from rules_order import dependency_closure
                    for d in dependency_closure(f, idx):
                        if f.nodes[d] and f.nodes[d]['k'] in ('sub', 'call') and active_index(f, d): reads_active = True
                rets = {f.expr(n['e']) for n in f.nodes if n and n['k'] == 'ret' and n.get('e')}
                ok = ok and reads_active and any('HANDLED_FALSE' in x for x in rets)
                R.ob('C13.fpa', ok, {'func': f.q})
                if not ok: R.find('C13.fpa', f, 'dispatch', 'function_pointer_array dispatch must call the cell of the region\'s active state with (sm, region_id, event) and answer HANDLED_FALSE for an empty cell')

@rule('chainexec')
def chainexec(F, R):
    """C01.chain: a conflict chain tries its candidates in the order of the sequence it was built with (the plan rules compare that
    sequence with the declarations): back / back11 execute_helper::execute<Sequence> runs the FIRST element's executor and recurses on
    the sequence without it; backmp11 transition_chain::execute hands its own Transitions list to mp_for_each_until and every closure
    instance runs the executor of its own transition."""
    from rules_core import backend_of
    for f in F.funcs:
        be = backend_of(f)
        if be is None or not f.blocks: continue
        if be in ('back', 'back11') and f.cls == 'execute_helper' and f.n == 'execute' and 'chain_row' in f.classes:
            ta = f.targs()
            L = type_list(str(ta[0])) if ta else None
            if not L: continue          # the empty-sequence overload
            R.seen(f); R.anchor('chain-exec:' + be)
            calls = [(i, n) for i, n in f.calls() if n.get('n') == 'execute']
            row = [n for i, n in calls if n.get('pc') != 'execute_helper']
            rec = [n for i, n in calls if n.get('pc') == 'execute_helper']
            why = []
            if len(row) != 1 or strip_cvref(F.strs[row[0]['pt']]) != strip_cvref(L[0]): why.append('the executor tried here is not the first element of the sequence')
            if len(rec) != 1: why.append('%d recursive calls' % len(rec))
            else:
                rta = rec[0].get('ta') or []
                RL = type_list(F.strs[rta[0]['t']]) if rta and isinstance(rta[0], dict) and 't' in rta[0] else None
                if RL is None or [strip_cvref(x) for x in RL] != [strip_cvref(x) for x in L[1:]]: why.append('the recursion does not continue with the rest of the sequence in order')
            # the chain stops at a candidate that consumed the event: the test deciding whether the next candidate is tried masks the
            # first candidate's result with a constant that contains both the handled and the deferred bit (an inner level that
            # deferred the event has consumed it; HANDLED_TRUE = 1, HANDLED_DEFERRED = 4)
            if len(row) == 1 and len(L) > 1:
                res_locals = {v['n'] for i, n in enumerate(f.nodes) if n and n['k'] == 'decl' for v in n['vars'] if v.get('hasinit') and f.nodes[v['init']] is row[0]}
                masks = []
                for i, n in enumerate(f.nodes):
                    if not n or n.get('op') != '&' or n['k'] not in ('call', 'bin'): continue
                    ops = n['args'] if n['k'] == 'call' else [n['lhs'], n['rhs']]
                    if len(ops) != 2: continue
                    def strip(j):
                        m = f.nodes[j]
                        while m and m['k'] in ('icast', 'cast', 'paren'): j = m['e']; m = f.nodes[j]
                        return j, m
                    (ja, a), (jb, b) = strip(ops[0]), strip(ops[1])
                    for (jx, x), (jy, y) in (((ja, a), (jb, b)), ((jb, b), (ja, a))):
                        if x and x['k'] == 'ref' and x.get('dk') == 'local' and x['n'] in res_locals:
                            masks.append((i, f.eval_const(jy)))
                R.anchor('chain-stop:' + be)
                if not masks: why.append('no bit test on the result of the first candidate decides whether the next one is tried')
                else:
                    # the tests may be written as one mask or one test per bit: what counts is the union of the tested bits
                    known = [m for i, m in masks if m is not None]
                    m = 0
                    for x in known: m |= x
                    if not known or (m & 5) != 5:
                        i = masks[0][0]
                        why.append('the test(s) %s at %s do not treat %s as consumed: the next candidate (a lower-priority or outer row) is tried although this one %s' % (' , '.join(f.expr(j) for j, _m in masks), f.at(i), 'a deferred event' if known and not (m & 4) else 'a taken transition' if known and not (m & 1) else 'the result bits', 'deferred the event' if known and not (m & 4) else 'was taken'))
            order = f.linear_nodes()
            R.ob('C01.chain', not why, {'func': f.q, 'candidates': len(L)})
            if why: R.find('C01.chain', f, 'order', 'conflict chain of %d candidates: %s (table priority is lost)' % (len(L), '; '.join(why)))
        if be == 'backmp11' and f.cls == 'transition_chain' and f.n == 'execute' and f.file.endswith('transition_table.hpp'):
            ca = f.cls_args('transition_chain') or []
            R.seen(f); R.anchor('chain-exec:backmp11')
            fe = [n for i, n in f.calls() if n.get('n') in ('mp_for_each_until', 'mp_for_each')]
            ok = len(fe) == 1 and len(ca) >= 3
            if ok:
                t0 = fe[0].get('ta', [{}])[0]
                ok = isinstance(t0, dict) and 't' in t0 and [strip_cvref(x) for x in (type_list(F.strs[t0['t']]) or [])] == [strip_cvref(x) for x in (type_list(str(ca[2])) or ['?'])] and fe[0]['n'] == 'mp_for_each_until'
            R.ob('C01.chain', ok, {'func': f.q})
            if not ok: R.find('C01.chain', f, 'order', 'transition_chain::execute must walk its own Transitions list in order with mp_for_each_until (stop at the first taken / deferred candidate)')
        # run-time chains of the compile-time-favouring policies: cells are tried in container order, front to back (the plan rules
        # check the order of insertion)
        fct = None
        if be == 'back' and f.file.endswith('back/favor_compile_time.hpp') and f.cls == 'chain_row' and f.n == 'operator()': fct = 'one_state'
        if be == 'backmp11' and f.file.endswith('backmp11/favor_compile_time.hpp') and f.cls in ('transition_chain', 'internal_transition_chain') and f.n == 'execute': fct = 'm_transition_cells'
        if fct:
            R.seen(f); R.anchor('chain-exec:%s-fct' % be)
            names = [n.get('n') for i, n in f.calls() if n.get('obj') and f.base_member(n['obj']) == fct]
            fwd = ('begin' in names or 'cbegin' in names) and ('end' in names or 'cend' in names)
            back_ = [x for x in names if x in ('rbegin', 'rend', 'crbegin', 'crend')]
            dec = any(n and n['k'] in ('un', 'call') and n.get('op') in ('--', 'pre--', 'post--') for n in f.nodes)
            ok = fwd and not back_ and not dec
            R.ob('C01.chain', ok, {'func': f.q, 'container': fct, 'iterator_calls': sorted(set(x for x in names if x))})
            if not ok: R.find('C01.chain', f, 'direction', 'the run-time chain must be walked front to back over %s (found iterator calls %s%s): the candidates would be tried in reverse table priority' % (fct, sorted(set(x for x in names if x)), ', decrement' if dec else ''))
        ctx = f.d['ctx']
        if be == 'backmp11' and f.n == 'operator()' and len(ctx) >= 3 and ctx[-2].get('f') == 'execute' and ctx[-3].get('c') == 'transition_chain' and 'lck' in ctx[-1] and f.file.endswith('transition_table.hpp'):
            pt = f.param_types()
            if not pt: continue
            T = strip_cvref(pt[0])
            R.seen(f); R.anchor('chain-step:backmp11')
            ex = [n for i, n in f.calls() if n.get('n') == 'execute']
            ok = len(ex) == 1 and strip_cvref(F.strs[ex[0]['pt']]) == T
            # stops (returns true) exactly when the handled / deferred bits are set
            rets = [f.eval_const(n['e']) for n in f.nodes if n and n['k'] == 'ret' and n.get('e')]
            ok = ok and sorted(x for x in rets if x is not None) == [0, 1]
            R.ob('C01.chain', ok, {'func': f.q, 'transition': Facts.short(T, 70)})
            if not ok: R.find('C01.chain', f, 'step', 'a chain step must run the executor of its own transition once and stop the chain exactly when it was taken or deferred', instance=Facts.short(T, 150))

ROW_NAME_TAG = {'row': 'row_tag', 'a_row': 'a_row_tag', 'g_row': 'g_row_tag', '_row': '_row_tag', 'irow': 'irow_tag', 'a_irow': 'a_irow_tag', 'g_irow': 'g_irow_tag', '_irow': '_irow_tag',
                'row2': 'row_tag', 'a_row2': 'a_row_tag', 'g_row2': 'g_row_tag', '_row2': '_row_tag', 'irow2': 'irow_tag', 'a_irow2': 'a_irow_tag', 'g_irow2': 'g_irow_tag', '_irow2': '_irow_tag',
                'internal': 'sm_i_row_tag', 'a_internal': 'sm_a_i_row_tag', 'g_internal': 'sm_g_i_row_tag', '_internal': 'sm__i_row_tag'}

@rule('rownames')
def rownames(F, R):
    """C14.rows (name <-> kind): the documented row templates of the member-function front-end, the row2 family and internal_row.hpp are
    what their names say - the tag a back-end sees for `g_irow2<...>` (own or inherited typedef) is g_irow_tag, etc.  The tag decides
    which executor the back-end generates (external rows exit and re-enter, internal ones do not)."""
    M = Model(F)
    for r in F.records:
        loc = r['loc'].split(':')[0]
        if loc not in ('boost/msm/front/state_machine_def.hpp', 'boost/msm/front/row2.hpp', 'boost/msm/front/internal_row.hpp'): continue
        want = ROW_NAME_TAG.get(r['n'])
        if want is None or not r.get('a'): continue
        t = F.strs[r['t']]
        tag = M.member_type(t, 'row_type_tag')
        if tag is None: continue
        tag = tag.split('::')[-1]
        R.anchor('row-name:%s:%s' % (loc.split('/')[-1], r['n']))
        ok = tag == want
        R.ob('C14.rows', ok, {'row': Facts.short(t, 90), 'tag': tag, 'expected_from_name': want})
        if not ok:
            R.find('C14.rows', (loc, r['q']), 'name:' + r['n'], 'front-end row template %s carries %s, its documented kind is %s: the back-end builds %s' % (r['n'], tag, want, 'an external transition (exit and entry run) for an internal row' if 'irow' in want or 'i_row' in want else 'the wrong executor'), where=r['loc'], instance=Facts.short(t, 200))

@rule('policysel')
def policysel(F, R):
    """C19.select: the active-state-switch policy a back-end uses for a machine (its `active_state_switching` typedef, which the
    executors' four writes go through - C19.slots / C19.policies) is the one the front-end declares: the element of its `configuration`
    sequence that carries an `active_state_switch_policy` typedef (back, back11), else the front-end's own / inherited
    `active_state_switch_policy` typedef (default: switch after entry)."""
    from rules_core import backend_of
    M = Model(F)
    done = set()
    for r in F.records:
        if 'active_state_switching' not in r['tds'] or not r['loc'].startswith('boost/msm/back'): continue
        t = F.strs[r['t']]
        m = M.machine_of(t)
        if m is None:
            h, a, rest = parse_type(t)
            if h.endswith('transition_table_impl') and a: m = M.machine_of(a[0])
        if m is None or F.rec_by_type(m.fe) is None or t in done: continue
        done.add(t)
        got = strip_cvref(F.strs[r['tds']['active_state_switching']])
        want = None
        if m.backend in ('back', 'back11'):
            for c in M.seq(m.fe, 'configuration') or []:
                cr = F.rec_by_type(strip_cvref(c))
                if cr and 'active_state_switch_policy' in cr['tds']: want = strip_cvref(F.strs[cr['tds']['active_state_switch_policy']]); break
        if want is None:
            w = M.member_type(m.fe, 'active_state_switch_policy')
            want = strip_cvref(w) if w else 'boost::msm::active_state_switch_after_entry'
        R.anchor('policy-select:' + m.backend)
        if not want.endswith('active_state_switch_after_entry'): R.anchor('policy-select-nondefault:' + m.backend)
        ok = got == want
        R.ob('C19.select', ok, {'machine': Facts.short(m.fe, 60), 'declared': want.split('::')[-1], 'used': got.split('::')[-1]})
        if not ok:
            R.find('C19.select', (r['loc'].split(':')[0], r['q']), 'policy', 'machine %s declares %s but the back-end switches the active state with %s' % (Facts.short(m.fe, 60), want.split('::')[-1], got.split('::')[-1]), where=r['loc'], instance=Facts.short(m.fe, 150))

@rule('cvkeys')
def cvkeys(F, R):
    """C18.cv-key: an event is the same event whether it was submitted as an rvalue, an lvalue or a const lvalue.  The library's
    type-level lookups keyed by the event type (is this event deferred by the state, is it a completion / Kleene event, ...) must not
    depend on cv / reference qualifiers of that argument: whenever a metafunction of the library is instantiated for argument lists that
    differ only in such qualifiers, its `type` / `value` results agree."""
    import collections
    groups = collections.defaultdict(dict)
    for r in F.records:
        if not r['loc'].startswith('boost/msm/') or not r.get('a'): continue
        if 'type' not in r['tds'] and 'value' not in r['consts']: continue
        t = F.strs[r['t']]
        h, a, rest = parse_type(t)
        if not a or rest.strip(): continue
        key = (h, tuple(strip_cvref(x) for x in a))
        groups[key][tuple(a)] = (F.strs[r['tds']['type']] if 'type' in r['tds'] else None, r['consts'].get('value'), r['loc'])
    for key, vs in groups.items():
        if len(vs) < 2: continue
        R.anchor('cv-variants')
        outs = {(v[0], v[1]) for v in vs.values()}
        ok = len(outs) == 1
        R.ob('C18.cv-key', ok, {'metafunction': key[0], 'arguments': [Facts.short(x, 40) for x in key[1]], 'variants': len(vs)})
        if not ok:
            loc = list(vs.values())[0][2]
            R.find('C18.cv-key', (loc.split(':')[0], key[0]), 'cv:' + key[0].split('::')[-1], '%s gives different answers for argument lists that differ only in cv / reference qualifiers: %s' % (key[0], ['%s -> %s' % (Facts.short(k[-1], 40), Facts.short(str(v[0] if v[0] is not None else v[1]), 40)) for k, v in vs.items()]), where=loc, instance=' / '.join(Facts.short(x, 60) for x in key[1]))


@rule('defervisit')
def defervisit(F, R):
    """C05.any-defers (backmp11, both compile policies): "the event is deferred if ANY active state defers it": the deferral visitors
    OR each state's answer into their result (never overwrite it with the answer of the last visited state)."""
    from rules_rtc import acc_writes
    for f in F.funcs:
        if not f.blocks or f.n != 'operator()' or f.cls != 'is_event_deferred_visitor' or not f.file.startswith('boost/msm/backmp11/'): continue
        R.seen(f); R.anchor('defer-visitor:' + ('fct' if f.file.endswith('favor_compile_time.hpp') else 'frs'))
        ws = acc_writes(f, 'm_result')
        ok = bool(ws) and all(w[1] for w in ws)
        R.ob('C05.any-defers', ok, {'func': f.q, 'writes': [w[2] for w in ws]})
        if not ok: R.find('C05.any-defers', f, 'overwrite', 'the deferral visitor must OR every visited state\'s answer into its result; found %s: with several deferring states active the answer is that of the last one visited' % [w[2] for w in ws])

@rule('internalgate')
def internalgate(F, R):
    """C18.internal-gate (back / back11): the machine's own internal_transition_table is consulted for an event exactly when one of
    its rows is a candidate for that event - trigger equal to the event's type, a public base class of it, or a Kleene type.  The gate
    is the tag process_fsm_internal_table<Event>::process passes to do_process; the oracle is computed from the front-end's table."""
    from rules_core import backend_of
    M = Model(F)
    for f in F.funcs:
        be = backend_of(f)
        if be not in ('back', 'back11') or f.cls != 'process_fsm_internal_table' or f.n != 'process' or not f.blocks: continue
        ca = f.cls_args('process_fsm_internal_table') or []
        if not ca: continue
        ev = strip_cvref(str(ca[0]))
        mt = None
        for c in reversed([c for c in f.d['ctx'] if 'c' in c]):
            m = M.machine_of(F.strs[c['t']])
            if m: mt = m; break
        if mt is None: continue
        rows = M.rows(mt.fe, 'internal_transition_table')
        if rows is None: continue
        tag = None
        for i, n in f.calls():
            if n.get('n') != 'do_process': continue
            for a in n.get('args', []):
                x = f.nodes[a]
                t = strip_cvref(F.strs[x['t']]) if x and 't' in x else ''
                h, ta, r = parse_type(t)
                if h in ('mpl_::bool_', 'boost::mpl::bool_', 'std::integral_constant') and ta: tag = ta[-1] in ('true', '1')
                elif t.endswith('::is_event_processable') or 'not_<' in t or 'has_key<' in t:
                    # the tag type is a metafunction result: read its value from the callee's parameter type
                    g = F.bykey.get(n.get('fk'))
                    if g is not None:
                        pt = g.param_types()
                        if pt: tag = 'true' in pt[-1] and 'false' not in pt[-1]
        if tag is None:
            # fall back: which do_process overload is called (its last parameter is mpl::true_ / mpl::false_)
            for i, n in f.calls():
                if n.get('n') == 'do_process':
                    g = F.bykey.get(n.get('fk'))
                    if g is not None and g.param_types():
                        last = g.param_types()[-1]
                        tag = ('bool_<true>' in last) or ('true_' in last and 'false_' not in last)
        if tag is None: continue
        want = any(r['evt'] and M.event_matches(r['evt'], ev, 'frs') for r in rows)
        R.seen(f); R.anchor('internal-gate-oracle:' + be)
        if want: R.anchor('internal-gate-open:' + be)
        ok = tag == want
        R.ob('C18.internal-gate', ok, {'machine': Facts.short(mt.fe, 50), 'event': Facts.short(ev, 40), 'table_has_candidate': want, 'table_consulted': tag})
        if not ok:
            R.find('C18.internal-gate', f, 'gate', 'machine %s: its internal_transition_table %s a candidate row for event %s (type, base class or Kleene trigger) but the table is %s' % (Facts.short(mt.fe, 50), 'has' if want else 'has no', Facts.short(ev, 40), 'consulted' if tag else 'skipped'), instance='%s / %s' % (Facts.short(mt.fe, 100), Facts.short(ev, 60)))

@rule('deferslice')
def deferslice(F, R):
    """C05.defer-slice: a Defer action stores a copy of the event object IT RECEIVES.  A row's action receives the event converted to
    the row's trigger type, so when a Defer row is reached with an event whose type is a proper derived class of its trigger
    (base-class trigger, run-time-speed policies) the stored copy is the base part only: on re-offer the derived-class rows no longer
    match and the payload of the derived part is gone.  Reported per back-end at the Defer functor; listed as a known finding."""
    from rules_core import backend_of
    M = Model(F)
    def row_defers(tr):
        comps = components(tr)
        if not comps or not comps[-1][1]: return None
        row = comps[-1][1][0]
        rec = F.rec_by_type(row)
        act = F.strs[rec['tds']['Action']] if rec and 'Action' in rec['tds'] else ''
        return ('boost::msm::front::Defer' in act), row
    hits = {}
    for f in F.funcs:
        be = backend_of(f)
        if be is None or not f.blocks: continue
        tr = ev = None
        if be in ('back', 'back11') and f.cls == 'call_with_base_event' and f.n == 'execute':
            ca = f.cls_args('call_with_base_event') or []; da = f.cls_args('dispatch_table') or []
            if ca and len(da) >= 3: tr, ev = strip_cvref(str(ca[0])), strip_cvref(str(da[2]))
        ctx = f.d['ctx']
        if be == 'backmp11' and f.n == 'operator()' and len(ctx) >= 3 and ctx[-2].get('f') == 'dispatch' and ctx[-3].get('c') == 'dispatch_impl' and f.param_types():
            tr = strip_cvref(f.param_types()[0])
            for c in ctx:
                if c.get('c') == 'dispatch_table' and c.get('a') and len(c['a']) >= 2:
                    a1 = c['a'][1]; ev = strip_cvref(F.strs[a1['t']]) if isinstance(a1, dict) and 't' in a1 else None
        if not tr or not ev: continue
        rd = row_defers(tr)
        if not rd or not rd[0]: continue
        rec = F.rec_by_type(tr)
        te = strip_cvref(F.strs[rec['tds']['transition_event']]) if rec and 'transition_event' in rec['tds'] else None
        R.anchor('defer-row-dispatch:' + be)
        if te is None or te == ev or M.is_kleene(te): continue
        if te in M.bases_of(ev): hits.setdefault(be, []).append((ev, te, rd[1]))
    if not hits: return
    # report at the Defer functor (one site per back-end family)
    for f in F.funcs:
        if f.q == 'boost::msm::front::Defer::operator()' and f.blocks:
            for be, lst in sorted(hits.items()):
                ev, te, row = lst[0]
                R.ob('C05.defer-slice', False, {'back_end': be, 'event': Facts.short(ev, 40), 'trigger': Facts.short(te, 40)})
                R.find('C05.defer-slice', f, 'base-trigger:' + be, 'a Defer row with trigger %s is reached with the derived event %s (%s): Defer stores a copy of the %s part only, the re-offered event no longer matches rows on %s and its payload is lost' % (Facts.short(te, 40), Facts.short(ev, 40), be, Facts.short(te, 40), Facts.short(ev, 40)), instance='%s / %s' % (Facts.short(row, 120), Facts.short(ev, 40)))
            break

@rule('deferresult')
def deferresult(F, R):
    """C05.defer-result: a transition whose action defers the event reports HANDLED_DEFERRED - never HANDLED_TRUE, which would start a
    new deferral sequence and re-offer the event at once (endlessly, while the deferring state stays active).  Which actions defer is
    declared by the front-end: a functor with a `deferring_action` typedef (front::Defer has one) or an ActionSequence_ whose
    `some_deferring_actions` is true.  Checked where each back-end turns the action into a result: backmp11
    invoke_action_functor<Action>::execute, back / back11 the functor rows' action_call."""
    def defers(t):
        rec = F.rec_by_type(strip_cvref(t))
        if rec is None: return None
        if 'deferring_action' in rec['tds']: return True
        if 'some_deferring_actions' in rec['tds']: return 'bool_<true>' in F.strs[rec['tds']['some_deferring_actions']]
        return False
    for f in F.funcs:
        if not f.blocks: continue
        act = None; where = None
        if f.cls == 'invoke_action_functor' and f.n == 'execute' and f.file.startswith('boost/msm/backmp11/'):
            ca = f.cls_args('invoke_action_functor') or []
            act = str(ca[0]) if ca else None; where = 'backmp11'
        elif f.n == 'action_call' and f.file == 'boost/msm/front/functor_row.hpp':
            rec = F.rec_by_type(F.class_type(f))
            act = F.strs[rec['tds']['Action']] if rec and 'Action' in rec['tds'] else None; where = 'functor-row'
        if not act: continue
        d = defers(act)
        if d is None: continue
        rets = set()
        def value_of(nid, depth=0):
            """the enumerator a return expression yields in THIS instantiation (conditional operators on constant conditions are folded)"""
            n = f.nodes[nid] if nid else None
            while n and n['k'] in ('icast', 'cast', 'paren'): nid = n['e']; n = f.nodes[nid]
            if n is None or depth > 4: return '?'
            if n['k'] == 'cond':
                c = f.eval_const(n['c'])
                if c is None: return '{%s|%s}' % (value_of(n['a'], depth + 1), value_of(n['b'], depth + 1))
                return value_of(n['a'] if c else n['b'], depth + 1)
            if n['k'] == 'ref' and n.get('dk') == 'enum' and n['n'].startswith('HANDLED_'): return n['n']
            c = n.get('v') if n['k'] == 'ref' and 'v' in n else f.eval_const(nid)
            return {4: 'HANDLED_DEFERRED', 1: 'HANDLED_TRUE', 0: 'HANDLED_FALSE', 2: 'HANDLED_GUARD_REJECT'}.get(c, f.expr(nid))
        for n in f.nodes:
            if n and n['k'] == 'ret' and n.get('e'):
                v = value_of(n['e'])
                rets.add('HANDLED_DEFERRED' if v in ('HANDLED_DEFERRED',) else 'HANDLED_TRUE' if v == 'HANDLED_TRUE' else v)
        R.seen(f); R.anchor('action-result:' + where)
        if d: R.anchor('action-result-deferring:' + where)
        want = {'HANDLED_DEFERRED'} if d else {'HANDLED_TRUE'}
        ok = rets == want
        R.ob('C05.defer-result', ok, {'action': Facts.short(act, 70), 'defers': d, 'returns': sorted(rets)})
        if not ok:
            R.find('C05.defer-result', f, 'deferring' if d else 'plain', 'action %s %s the event (front-end declaration) but the transition reports %s: %s' % (Facts.short(act, 70), 'defers' if d else 'does not defer', sorted(rets), 'the deferred event is re-offered at once, again and again, while the deferring state is active' if d else 'an event that was consumed is treated as still pending'), instance=Facts.short(act, 160))

def _last_targs(s, name):
    """template arguments of the LAST occurrence of `name<` in a type string"""
    i = s.rfind(name + '<')
    if i < 0: return None
    h, a, _r = parse_type(s[i:])
    return a

@rule('fctinstall')
def fctinstall(F, R):
    """C01.plan (backmp11 favor_compile_time, how the run-time dispatch tables are filled from the back-end transition table): the
    table constructor installs one cell per row of the back-end transition table, in table order, each into the chain of the state
    the cell itself names (`tables[c.state_id].add(c)`).  The constructor exists in two forms selected by compiler (a range-for over
    a value array; mp_for_each with a generic lambda for g++): both are analysed, the second one through the G corpus.
    Clauses: [install-index] index and argument of every install site agree; [install-cells] the cell constants instantiated for a
    machine point to exactly the rows of its back-end table (multiset, through the template arguments of the cell function);
    [install-order] the list the constructor walks has one element per row with the rows' triggers in table order."""
    tables = {}
    for r in F.records:
        if r['n'] == 'transition_table_impl' and r['loc'].startswith('boost/msm/backmp11/') and 'transition_table' in r['tds']:
            a = F.targs(r.get('a')) or []
            if a: tables[strip_cvref(str(a[0]))] = [strip_cvref(x) for x in (type_list(F.strs[r['tds']['transition_table']]) or [])]
    def sm_of(t):
        j = t.find('::init_cell_constant<')
        a = _last_targs(t[:j] if j >= 0 else t, 'dispatch_table')
        return strip_cvref(a[0]) if a else None
    def table_of(sm):
        if sm in tables: return tables[sm]
        rec = F.rec_by_type(sm) if sm else None
        for k_, v_ in tables.items():
            if rec and any(strip_cvref(F.strs[b['t']]) == k_ for b in rec['bases']): return v_
        return None
    def trigger_of(tr):
        rec = F.rec_by_type(tr)
        return strip_cvref(F.strs[rec['tds']['transition_event']]) if rec and 'transition_event' in rec['tds'] else None
    # the cell constants per machine, with the transition each one executes
    cells = {}
    for r in F.records:
        if r['n'] != 'init_cell_constant' or not r['loc'].startswith('boost/msm/backmp11/favor_compile_time.hpp'): continue
        a = [str(x) for x in (F.targs(r.get('a')) or [])]
        c = _last_targs(a[2], 'convert_event_and_execute') if len(a) > 2 else None
        sm = sm_of(F.strs[r['t']])
        if sm and c and len(c) > 1: cells.setdefault(sm, []).append(strip_cvref(c[1]))
    walked = {}
    for f in F.funcs:
        if not f.file.endswith('backmp11/favor_compile_time.hpp') or not f.blocks: continue
        own = f.cls == 'dispatch_table' and 'ctor' in (f.d.get('sp') or '')
        outer = [c.get('k') for c in f.d.get('ctx', []) if c.get('f') == 'dispatch_table']
        if not own and not outer: continue
        key = f.k if own else outer[-1]
        for i, n in f.calls():
            if n.get('n') != 'add_transition_cell' or not n.get('obj') or not n.get('args'): continue
            if f.base_member(n['obj']) != 'm_state_dispatch_tables': continue
            R.seen(f); R.anchor('fct-install-site')
            obj = f.expr(n['obj']).replace(' ', '').replace('this->', ''); arg = f.expr(n['args'][0]).replace(' ', '')
            ok = obj == 'm_state_dispatch_tables[%s.state_id]' % arg
            R.ob('C01.plan', ok, {'func': f.q, 'site': f.expr(i)[:120]})
            if not ok: R.find('C01.plan', f, 'install-index', 'the cell %s is installed through %s: it must go into the chain of the state the cell itself names (tables[c.state_id])' % (arg, obj), where=f.at(i))
            d = walked.setdefault(key, {'ordered': None, 'set': []})
            if own:
                for x in f.nodes:
                    if x and x['k'] == 'decl':
                        for v in x['vars']:
                            t = F.strs[v['t']]
                            if 'value_array<' in t and '::init_cell_constant<' in t:
                                h, aa, _r = parse_type(t[t.find('value_array<'):])
                                lst = type_list(aa[0]) if aa else None
                                d['ordered'] = [(_last_targs(e, 'init_cell_constant') or [None])[0] for e in (lst or [])]
            else:
                pt = f.param_types()
                if pt: d['set'].append((_last_targs(pt[0], 'init_cell_constant') or [None])[0])
    for key, d in walked.items():
        g = F.bykey.get(key)
        if g is None: continue
        a = g.cls_args('dispatch_table') or []
        sm = strip_cvref(str(a[0])) if a else None
        tl = table_of(sm)
        if tl is None: continue
        trig = [trigger_of(t) for t in tl]
        if any(t is None for t in trig): continue
        R.anchor('fct-install-table')
        got = cells.get(sm, [])
        ok = sorted(got) == sorted(tl)
        R.ob('C01.plan', ok, {'machine': Facts.short(sm or '', 60), 'cell_constants': len(got), 'table_rows': len(tl)})
        if not ok:
            missing = [Facts.short(x, 70) for x in tl if x not in got][:3]; extra = [Facts.short(x, 70) for x in got if x not in tl][:3]
            R.find('C01.plan', g, 'install-cells', 'the cell constants generated for %s execute %d transitions, its back-end transition table has %d rows (missing %s, extra %s)' % (Facts.short(sm or '', 50), len(got), len(tl), missing, extra))
        if d['ordered'] is not None:
            w = [strip_cvref(x) if x else x for x in d['ordered']]
            ok2 = w == trig; how = 'range-for over the value array: triggers in order'
        else:
            w = sorted(strip_cvref(x) if x else '' for x in d['set'])
            ok2 = w == sorted(trig); how = 'g++ form: one lambda instantiation per cell (multiset of triggers)'
        R.ob('C01.plan', ok2, {'machine': Facts.short(sm or '', 60), 'walked': len(w), 'compared': how})
        if not ok2:
            R.find('C01.plan', g, 'install-order', 'the constructor of the favor_compile_time tables of %s walks %d cells with triggers %s, the back-end table has %d rows with triggers %s (%s): a row is skipped, installed twice or in another priority order' % (Facts.short(sm or '', 50), len(w), [Facts.short(x or '?', 24) for x in w][:8], len(trig), [Facts.short(x, 24) for x in (trig if d['ordered'] is not None else sorted(trig))][:8], how))

@rule('deferonce')
def deferonce(F, R):
    """C05.defer-once (back, back11): state-declared deferral is executed per region - the cell of (active state, event) of EVERY
    region whose active state lists the event calls defer_transition, and each call stores a copy.  For a machine in which states of
    two different regions defer the same event (front-end oracle; regions = states reachable from each initial state over the rows)
    the event is therefore stored twice and later dispatched twice, unless the cell function refuses to store a second copy.  The
    rule reports the cell function when such a machine exists and every path through it stores the event."""
    from rules_core import backend_of
    M = Model(F)
    overlap = {}      # (machine type) -> {event: (state1, state2)}
    for f in F.funcs:
        be = backend_of(f)
        if be not in ('back', 'back11') or not f.blocks or f.cls != 'state_machine' or f.n != 'defer_transition': continue
        mt = F.class_type(f)
        m = M.machine_of(mt)
        ta = f.targs() or []
        if m is None or not ta: continue
        rows = M.rows(m.fe); ini = M.initial_states(m.fe)
        if rows is None or not ini: continue
        ev = strip_cvref(str(ta[0]))
        if mt not in overlap:
            # region membership
            adj = {}
            for r in rows:
                s = strip_cvref(M.source_state(r) or ''); t = r['target']
                if not s or t is None or t == 'boost::msm::front::none': continue
                adj.setdefault(s, set()).add(strip_cvref(t))
            reg = {}
            for k, i0 in enumerate(ini):
                todo = [strip_cvref(i0)]
                while todo:
                    x = todo.pop()
                    if x in reg: continue
                    reg[x] = k; todo.extend(adj.get(x, ()))
            ov = {}
            byev = {}
            for st in M.states(m.fe):
                for e in M.deferred(st): byev.setdefault(strip_cvref(e), []).append(strip_cvref(st))
            for e, sts in byev.items():
                rs = {}
                for st in sts:
                    if st in reg: rs.setdefault(reg[st], st)
                if len(rs) >= 2: ov[e] = tuple(sorted(rs.values()))[:2]
            overlap[mt] = ov
        if len(ini) >= 2: R.anchor('defer-cell-multiregion:' + be)
        pair = overlap[mt].get(ev)
        if not pair: continue
        R.seen(f); R.anchor('defer-overlap:' + be)
        stores = [i for i, n in f.calls() if n.get('n') == 'defer_event']
        always = bool(stores)
        for p in f.paths(edge_bound=1):
            if f.aborts(p): continue
            if not any(i in stores for i in f.path_nodes(p)): always = False
        R.ob('C05.defer-once', not always, {'func': f.q, 'machine': Facts.short(m.fe, 60), 'event': Facts.short(ev, 40), 'regions_deferring': [Facts.short(x, 40) for x in pair]})
        if always:
            R.find('C05.defer-once', f, 'per-region:' + be, 'the deferral cell stores the event on every path, and it is the cell of every region whose active state defers the event: in %s the states %s and %s of two regions both defer %s, which is then stored twice and later dispatched twice' % (Facts.short(m.fe, 50), Facts.short(pair[0], 40), Facts.short(pair[1], 40), Facts.short(ev, 40)), instance='%s / %s' % (Facts.short(m.fe, 100), Facts.short(ev, 60)))

@rule('basethunk')
def basethunk(F, R):
    """C18.base-ref (back, back11): a dispatch cell that calls a transition whose trigger is not the event's own type goes through a
    thunk.  For a Kleene trigger the thunk builds the `any` (a copy of the event with its dynamic type inside); for a trigger that
    is a BASE CLASS of the event the transition must receive the submitted object itself, converted by reference - a thunk that
    constructs an object of the trigger type from it hands guard, exit, action and entry a sliced copy (dynamic type, derived payload
    and object identity lost)."""
    from rules_core import backend_of
    M = Model(F)
    for f in F.funcs:
        be = backend_of(f)
        if be not in ('back', 'back11') or not f.blocks or f.n != 'execute' or not f.file.endswith('/dispatch_table.hpp'): continue
        if 'dispatch_table' not in f.classes or f.cls == 'dispatch_table': continue
        da = f.cls_args('dispatch_table'); ta = f.cls_args(f.cls)
        if not da or len(da) < 3 or not ta: continue
        ev = strip_cvref(str(da[2])); tr = strip_cvref(str(ta[0]))
        rec = F.rec_by_type(tr)
        if not rec or 'transition_event' not in rec['tds']: continue
        trig = strip_cvref(F.strs[rec['tds']['transition_event']])
        if trig == ev or M.is_kleene(trig): continue
        calls = [(i, n) for i, n in f.calls() if n.get('n') == 'execute' and len(n.get('args', [])) >= 4]
        if not calls: continue
        R.seen(f); R.anchor('base-trigger-thunk:' + be)
        pnames = {p['n'] for p in f.d['params']}
        for i, n in calls:
            x = f.nodes[n['args'][3]]
            while x and x['k'] in ('icast', 'cast', 'paren') and x.get('ck') in (None, 'DerivedToBase', 'UncheckedDerivedToBase', 'NoOp', 'LValueToRValue'): x = f.nodes[x['e']]
            ok = bool(x) and x['k'] == 'ref' and x.get('dk') == 'param' and x['n'] in pnames
            R.ob('C18.base-ref', ok, {'func': f.q, 'event': Facts.short(ev, 40), 'trigger': Facts.short(trig, 40), 'passes': f.expr(n['args'][3])})
            if not ok:
                R.find('C18.base-ref', f, 'sliced-copy:' + be, 'the cell thunk %s hands a transition triggered by %s - a base class of the processed event %s - the expression %s instead of the submitted event itself: guard, exit, action and entry receive a sliced copy (dynamic type, derived payload and identity lost)' % (f.cls, Facts.short(trig, 40), Facts.short(ev, 40), f.expr(n['args'][3])), where=f.at(i), instance='%s / %s' % (Facts.short(tr, 100), Facts.short(ev, 40)))
