"""Behaviour classes of calls and bottom-up effect summaries over the resolved call graph.

Classification is by the documented front/back interface (internals documentation: guard_call,
action_call, on_entry, on_exit, no_transition, exception_caught, defer_event) plus the few
back-end wrappers listed here; the role tables are guarded by vacuity floors in props.py."""
from rules_core import backend_of

ACTIVE_MEMBERS = ('m_states', 'm_active_state_ids')
FLAG_MEMBER = 'm_event_processing'

# calls at which event *dispatch* starts: summaries do not descend into them (class PROCESS)
PROCESS_ENTRY = {'process_event', 'process_event_internal', 'process_any_event', 'process_completion_event',
                 'process_message_queue', 'do_handle_deferred', 'process_event_pool', 'do_process_event_pool',
                 'process_completion_transition', 'execute_queued_events', 'do_post_msg_queue_helper',
                 'execute_single_queued_event', 'try_process', 'try_process_impl', 'do_process_event',
                 'do_process_helper', 'enqueue_event', 'process_internal'}

def callee_file(n):
    cl = n.get('cl', '')
    return cl.rpartition(':')[0]

def callee_is_backend(n):
    f = callee_file(n)
    return f.startswith('boost/msm/back/') or f.startswith('boost/msm/back11/') or f.startswith('boost/msm/backmp11/')

def leaf_class(F, n):
    """behaviour class of a call node by the name of its (resolved) callee, or None"""
    if n['k'] not in ('call',) or 'fk' not in n: return None
    nm = n['n']; pc = n.get('pc', '')
    be = callee_is_backend(n)
    if nm == 'guard_call': return 'GUARD'
    if nm == 'action_call': return 'ACTION'
    if pc == 'invoke_guard_functor' and nm == 'execute':
        return None if 'front::none>' in F.strs[n['pt']] else 'GUARD'
    if pc == 'invoke_action_functor' and nm == 'execute':
        pt = F.strs[n['pt']]
        if 'front::none>' in pt: return None
        if 'front::Defer>' in pt: return 'DEFER'
        return 'ACTION'
    if not be:
        if nm == 'on_exit': return 'EXIT'
        if nm == 'on_entry': return 'ENTRY'
        if nm == 'no_transition': return 'NO_TRANSITION'
        if nm == 'exception_caught': return 'EXCEPTION_CAUGHT'
    if nm == 'defer_event' and be: return 'DEFER'
    if nm == 'forward_event': return 'FORWARD_EXIT'
    if nm in PROCESS_ENTRY and be: return 'PROCESS'
    return None

class Effects:
    def __init__(self, F):
        self.F = F
        self.memo = {}
    def local(self, f):
        """direct effects of one function body: leaf classes, member writes/reads"""
        eff = set()
        for i in f.linear_nodes():
            n = f.nodes[i]
            if not n: continue
            if n['k'] == 'call':
                c = leaf_class(self.F, n)
                if c: eff.add(c)
            elif n['k'] == 'asg':
                m = f.base_member(n['lhs'])
                if m in ACTIVE_MEMBERS: eff.add('W_ACTIVE')
                if m == FLAG_MEMBER: eff.add('W_FLAG')
            elif n['k'] == 'mem' and n.get('dk') == 'field':
                if n['n'] in ACTIVE_MEMBERS and n.get('rv'): eff.add('R_ACTIVE')
        return eff
    def summary(self, fk, depth=0, stack=None):
        """set of classes the function may exhibit (transitively through resolved calls into msm code);
        results are memoised unless the computation was cut by a recursion cycle or the depth bound"""
        if fk in self.memo: return self.memo[fk]
        f = self.F.bykey.get(fk)
        if f is None or not f.blocks: return frozenset()
        stack = stack if stack is not None else set()
        if fk in stack or depth > 14:
            self.cut = True
            return frozenset()
        stack.add(fk)
        outer_cut = getattr(self, 'cut', False)
        self.cut = False
        eff = set(self.local(f))
        # any read of the active arrays (not only rvalue loads) counts for R_ACTIVE in summaries
        for n in f.nodes:
            if n and n['k'] == 'mem' and n.get('dk') == 'field' and n['n'] in ACTIVE_MEMBERS: eff.add('R_ACTIVE')
        for i, n in f.calls():
            if n['k'] == 'call' and leaf_class(self.F, n): continue
            k = n.get('fk')
            if k is None: continue
            eff |= self.summary(k, depth + 1, stack)
            # lambdas / functors passed to for_each-like algorithms: their call operator runs
            for a in n.get('args', []):
                an = f.nodes[a]
                if an and an['k'] == 'lambda': eff |= self.lambda_summary(an, depth + 1, stack)
                if an and an['k'] == 'ctor' and an.get('org') == 1:
                    eff |= self.functor_summary(an, depth, stack)
        stack.discard(fk)
        r = frozenset(eff)
        if not self.cut or not stack: self.memo[fk] = r
        self.cut = self.cut or outer_cut
        return r
    def lambda_summary(self, lam, depth, stack):
        """effects of a lambda passed as an argument: its call operator, or for a generic lambda every instantiation of it"""
        eff = set(self.summary(lam['fk'], depth, stack))
        lck = lam.get('lck')
        if lck is not None:
            for g in self.F.funcs_of_lambda(lck):
                if g.n == 'operator()': eff |= self.summary(g.k, depth, stack)
        return eff
    def functor_summary(self, ctor_node, depth, stack):
        """a library functor object constructed as an argument (mpl::for_each(f)): effects of its operator()"""
        pt = ctor_node.get('pt')
        if pt is None: return frozenset()
        eff = set()
        for g in self.F.funcs_of_class(pt):
            if g.n == 'operator()': eff |= self.summary(g.k, depth + 1, stack)
        return eff
    def call_classes(self, f, n):
        """classes of one call site: its leaf class, or the callee's summary"""
        if n['k'] == 'call':
            c = leaf_class(self.F, n)
            if c: return frozenset([c])
        k = n.get('fk')
        eff = set(self.summary(k)) if k is not None else set()
        for a in n.get('args', []):
            an = f.nodes[a]
            if an and an['k'] == 'lambda': eff |= self.lambda_summary(an, 0, None)
            if an and an['k'] == 'ctor' and an.get('org') == 1: eff |= self.functor_summary(an, 0, None)
        return frozenset(eff)

BEHAVIOUR = ('GUARD', 'EXIT', 'ACTION', 'ENTRY')

def path_events(E, f, path):
    """abstract event sequence of one CFG path: (class, node id, info)"""
    ev = []
    for i in f.path_nodes(path):
        n = f.nodes[i]
        if not n: continue
        if n['k'] == 'call':
            cs = E.call_classes(f, n)
            for c in ('GUARD', 'EXIT', 'ACTION', 'ENTRY', 'NO_TRANSITION', 'EXCEPTION_CAUGHT', 'DEFER', 'FORWARD_EXIT', 'PROCESS'):
                if c in cs: ev.append((c, i, n.get('n')))
        elif n['k'] == 'asg':
            m = f.base_member(n['lhs'])
            if m in ACTIVE_MEMBERS:
                r = f.nodes[n['rhs']]
                ev.append(('W', i, r.get('n') if r and r['k'] == 'call' else f.expr(n['rhs'])))
            elif m == FLAG_MEMBER:
                r = f.nodes[n['rhs']]
                ev.append(('FLAG', i, r.get('v') if r and r['k'] == 'lit' else f.expr(n['rhs'])))
        elif n['k'] == 'ret':
            ev.append(('RET', i, f.expr(n['e']) if n['e'] else ''))
    return ev
