"""Entry / exit cascades and region-recursion helpers (C02.cascade, C03.start-stop, C08.sites, C09.entry, C10.first),
constructor wiring order (C07.wiring), history policy tables (C08.table), blocking gate (C11.gate), try/catch shape (C12.catch)."""
from engine import rule
from facts import Facts, strip_cvref, parse_type, type_list
from rules_core import backend_of, is_backend
from effects import Effects, leaf_class, ACTIVE_MEMBERS, FLAG_MEMBER
from rules_rtc import const_of, active_index, member_chain
from model import Model

def tokens_on_paths(f, classify, edge_bound=1):
    """list of token sequences, one per non-aborting CFG path"""
    out = []
    for p in f.paths(edge_bound=edge_bound):
        if f.aborts(p): continue
        seq = []
        for i in f.path_nodes(p):
            n = f.nodes[i]
            if not n: continue
            t = classify(i, n)
            if t: seq.append(t)
        out.append(seq)
    return out

def region_of(f):
    a = f.cls_args()
    if a and isinstance(a[0], str) and 'int_<' in a[0]:
        try: return int(a[0].split('int_<')[1].split('>')[0])
        except ValueError: return None
    return None

REGION_HELPERS = {'region_start_helper': ('do_start',), 'region_entry_exit_helper': ('do_entry', 'do_exit'), 'region_copy_helper': ('do_copy',)}

@rule('cascade')
def cascade(F, R):
    E = Effects(F)
    for f in F.funcs:
        if not is_backend(f) or not f.blocks: continue
        be = backend_of(f)
        # ---------------- A. region recursion helpers (back / back11)
        if f.cls in REGION_HELPERS and f.n in REGION_HELPERS[f.cls]:
            N = region_of(f)
            if N is None: continue
            R.seen(f)
            order = f.linear_nodes()
            rec = [(i, n) for i, n in f.calls() if n.get('n') == f.n and n.get('pc') == f.cls]
            work = []
            for i in order:
                n = f.nodes[i]
                if n and n['k'] in ('sub',) or (n and n['k'] == 'call' and n.get('op') == '[]'):
                    ai = active_index(f, i)
                    if ai: work.append((i, ai))
            if not rec and not work:
                R.anchor('region-helper-end:%s:%s::%s' % (be, f.cls, f.n)); continue
            R.anchor('region-helper-step:%s:%s::%s' % (be, f.cls, f.n))
            ok = True; why = ''
            if len(rec) != 1: ok = False; why = '%d recursive calls' % len(rec)
            else:
                ri, rn = rec[0]
                if ('int_<%d>' % (N + 1)) not in F.strs[rn['pt']]: ok = False; why = 'recursion does not continue with region %d' % (N + 1)
                for i, ai in work:
                    if const_of(f, ai[0]) != N: ok = False; why = 'region %d helper indexes the active-state array with %s' % (N, f.expr(ai[0]))
                    if order.index(i) > order.index(ri): ok = False; why = 'region %d is handled after the following regions (order of the cascade reversed)' % N
                if not work: ok = False; why = 'no work on region %d' % N
            rid = 'C02.cascade' if f.n in ('do_exit', 'do_start') else 'C03.region-index'
            R.ob(rid, ok, {'func': f.q, 'region': N})
            if not ok: R.find(rid, f, 'region-step', '%s<%d>::%s: %s' % (f.cls, N, f.n, why))
            continue
        if f.cls not in ('state_machine', 'state_machine_base', 'direct_event_start_helper', 'state_entry_visitor') and 'history_impl' not in f.classes: continue
        # ---------------- B. composite exit
        if f.n == 'do_exit' and f.cls == 'state_machine':
            def cl(i, n):
                if n['k'] != 'call': return None
                if n.get('pc') == 'region_entry_exit_helper' and n.get('n') == 'do_exit': return 'R0' if 'int_<0>' in F.strs[n['pt']] else 'R?'
                lc = leaf_class(F, n)
                if lc == 'EXIT': return 'X'
                if n.get('n') == 'history_exit': return 'H'
                if n.get('n') == 'process_deferred_events': return 'D'
                if n.get('n') == 'clear_deferred_queue': return 'C'
                if 'EXIT' in E.call_classes(f, n): return 'x?'
                return None
            seqs = tokens_on_paths(f, cl)
            R.seen(f); R.anchor('composite-exit:' + be)
            ok = bool(seqs) and all(s in (['R0', 'X', 'H', 'D'], ['R0', 'X', 'H', 'D', 'C']) for s in seqs)
            R.ob('C02.cascade', ok, {'func': f.q, 'sequences': seqs})
            if not ok: R.find('C02.cascade', f, 'composite-exit', 'composite exit must run: substates (region 0 upward), own on_exit, history_exit, then drop deferred events only if the history policy says so; found %s' % seqs)
            # C05.clear: the clear is on the branch where process_deferred_events(...) is false
            okc = True
            for p in f.paths(edge_bound=1):
                pn = f.path_nodes(p)
                has_c = any(f.nodes[i] and f.nodes[i]['k'] == 'call' and f.nodes[i].get('n') == 'clear_deferred_queue' for i in pn)
                if not has_c: continue
                dec = False
                for bi, b in enumerate(p[:-1]):
                    blk = f.bmap[b]
                    if blk.get('tc') and len(blk['s']) == 2:
                        c = f.nodes[blk['tc']]
                        neg = False
                        while c and c['k'] == 'un' and c['op'] == '!': neg = not neg; c = f.nodes[c['e']]
                        if c and c['k'] == 'call' and c.get('n') == 'process_deferred_events':
                            val = (p[bi + 1] == blk['s'][0]) != neg
                            if val is False: dec = True
                okc = okc and dec
            R.ob('C05.clear', okc, {'func': f.q})
            if not okc: R.find('C05.clear', f, 'clear-branch', 'deferred events are cleared on exit although the history policy asks to keep them')
        # ---------------- C. entry variants (back / back11)
        if f.n == 'operator()' and f.cls == 'direct_event_start_helper':
            def cl(i, n):
                if n['k'] == 'asg' and f.base_member(n['lhs']) in ACTIVE_MEMBERS: return 'W'
                if n['k'] != 'call': return None
                lc = leaf_class(F, n)
                if lc == 'ENTRY': return 'E'
                if n.get('n') == 'internal_start': return 'S'
                if n.get('n') == 'process_event': return 'P'
                if n.get('n') == 'for_each': return 'F'
                return None
            seqs = tokens_on_paths(f, cl)
            R.seen(f); R.anchor('entry-variant:' + be)
            ok = all(s in (['E', 'S'], ['E', 'W', 'S'], ['E', 'F', 'S'], ['E', 'W', 'S', 'P']) for s in seqs)
            # which variant this instantiation is follows from the wrapped target of its event parameter: an entry point must
            # re-submit the event with process_event (enqueue_event does nothing in a machine without message queue), a fork sets
            # every named region, a single explicit entry one, a plain entry none
            pt0 = strip_cvref(f.param_types()[0]) if f.param_types() else ''
            h0, a0, _r0 = parse_type(pt0)
            if h0.endswith('direct_entry_event') and a0:
                tgt0 = a0[0]
                want_seq = ['E', 'W', 'S', 'P'] if '::entry_pt<' in tgt0 else ['E', 'F', 'S'] if type_list(tgt0) is not None else ['E', 'W', 'S']
            else: want_seq = ['E', 'S']
            if ok and not all(s == want_seq for s in seqs):
                ok = False
                R.find('C09.entry', f, 'entry-variant-kind', 'the %s entry variant runs %s, required %s (own entry, explicit ids, start of the substates%s)' % ('entry-point' if want_seq[-1] == 'P' else 'fork' if 'F' in want_seq else 'explicit' if 'W' in want_seq else 'plain', seqs, want_seq, ', then process_event of the same event' if want_seq[-1] == 'P' else ''))
            # a fork stores each named substate in the region THAT STATE belongs to: the functor applied to the target list writes
            # the active-state array with a per-state constant index (C09.region checks its value), never by position in the list
            if want_seq == ['E', 'F', 'S']:
                from rules_order import dependency_closure
                for i2, n2 in f.calls():
                    if n2.get('n') != 'for_each': continue
                    for a2 in n2.get('args', []):
                        for d2 in dependency_closure(f, a2):
                            x2 = f.nodes[d2]
                            if not (x2 and x2['k'] == 'ctor' and 'pt' in x2): continue
                            for g in F.funcs:
                                if g.n != 'operator()' or not g.blocks or F.class_type(g) != F.strs[x2['pt']]: continue
                                for m2 in g.nodes:
                                    if m2 and m2['k'] == 'asg':
                                        l2 = g.nodes[m2['lhs']]
                                        while l2 and l2['k'] in ('icast', 'cast', 'paren'): l2 = g.nodes[l2['e']]
                                        if l2 and l2['k'] == 'sub' and const_of(g, l2['i']) is None:
                                            ok = False
                                            R.find('C09.entry', f, 'fork-by-position', 'the fork entry stores its targets through %s, which writes slot %s (a running position, not the region of the state): targets listed out of region order, or a fork naming a subset of the regions, activate states in the wrong regions' % (x2.get('pc'), g.expr(l2['i'])), where=f.at(i2))
                                            break
            # the submachine's own entry behaviour receives the event that triggered the transition, not the library's
            # direct_entry_event wrapper (its substates and the other back-end already do)
            if want_seq != ['E', 'S']:
                for i3, n3 in f.calls():
                    if leaf_class(F, n3) == 'ENTRY' and n3.get('args'):
                        a3 = f.nodes[n3['args'][0]]
                        while a3 and a3['k'] in ('icast', 'cast', 'paren'): a3 = f.nodes[a3['e']]
                        own_ok = bool(a3) and a3['k'] == 'mem' and a3['n'] == 'm_event'
                        R.ob('C09.entry', own_ok, {'func': f.q, 'own_entry_argument': f.expr(n3['args'][0])})
                        if not own_ok:
                            ok = False
                            R.find('C09.entry', f, 'own-entry-wrapped', 'the submachine\'s own on_entry is called with %s (the direct_entry_event wrapper) instead of the triggering event evt.m_event: a templated on_entry sees a library-internal event type' % f.expr(n3['args'][0]), where=f.at(i3))
            # the substates are started with the unwrapped event, the entry point re-submits the same event
            unwrapped = True
            for i, n in f.calls():
                if n.get('n') in ('internal_start', 'process_event') and ('W' in seqs[0] or 'F' in seqs[0]):
                    a = f.nodes[n['args'][0]] if n['args'] else None
                    if not (a and a['k'] == 'mem' and a['n'] == 'm_event'): unwrapped = False
            # explicit region index statically within bounds (the static asserts are evaluated by the compiler; here: index is a constant)
            idx_ok = True
            for i, n in enumerate(f.nodes):
                if n and n['k'] == 'asg' and f.base_member(n['lhs']) in ACTIVE_MEMBERS:
                    ai = active_index(f, n['lhs'])
                    if not ai or const_of(f, ai[0]) is None or const_of(f, ai[0]) < 0: idx_ok = False
            R.ob('C09.entry', ok and unwrapped and idx_ok, {'func': f.q, 'sequences': seqs})
            if not (ok and unwrapped and idx_ok):
                R.find('C09.entry', f, 'entry-variant', 'entry variant must run own on_entry, then set explicit targets (constant region index), then start the substates with the original event (and re-submit it for an entry point); found %s unwrapped=%s index_const=%s' % (seqs, unwrapped, idx_ok))
        if f.cls == 'fork_helper' or (f.n == 'operator()' and 'fork_helper' in f.classes): pass
        # ---------------- D. internal_start / E. do_entry / F. start / G. stop (back / back11)
        if f.cls == 'state_machine' and f.n == 'internal_start':
            def cl(i, n):
                if n['k'] != 'call': return None
                if n.get('pc') == 'region_start_helper': return 'R0' if 'int_<0>' in F.strs[n['pt']] else 'R?'
                if n.get('n') == 'process_completion_event': return 'K'
                return None
            seqs = tokens_on_paths(f, cl)
            R.seen(f); R.anchor('internal-start:' + be)
            ok = all(s == ['R0', 'K'] for s in seqs)
            R.ob('C10.first', ok, {'func': f.q, 'sequences': seqs})
            if not ok: R.find('C10.first', f, 'internal-start', 'substate entries (region 0 upward) must be followed by the completion dispatch; found %s' % seqs)
        if f.cls == 'state_machine' and f.n == 'do_entry':
            def cl(i, n):
                if n['k'] != 'call': return None
                if n.get('pc') == 'region_entry_exit_helper' and n.get('n') == 'do_entry': return 'H0' if 'int_<0>' in F.strs[n['pt']] else 'H?'
                if n.get('pc') == 'direct_event_start_helper' and n.get('n') == 'operator()': return 'S'
                if n.get('n') == 'do_handle_deferred': return 'D'
                if n.get('n') == 'process_message_queue': return 'Q'
                return None
            seqs = tokens_on_paths(f, cl)
            R.seen(f); R.anchor('composite-entry:' + be)
            ok = all(s in (['H0', 'S', 'D', 'Q'], ['H0', 'S', 'Q']) for s in seqs)
            R.ob('C08.sites', ok, {'func': f.q, 'sequences': seqs})
            if not ok: R.find('C08.sites', f, 'composite-entry', 'composite entry must apply the history policy to all regions, then enter (explicit targets override), then handle deferred and queued events; found %s' % seqs)
        if f.cls == 'state_machine' and f.n == 'start':
            def cl(i, n):
                if n['k'] != 'call': return None
                if n.get('n') == 'for_each':
                    from rules_order import dependency_closure
                    for a in n['args']:
                        for d in dependency_closure(f, a):
                            an = f.nodes[d]
                            if an and an['k'] == 'ctor' and an.get('pc') in ('init_states', 'call_init'):
                                return {'init_states': 'I', 'call_init': 'C'}[an['pc']]
                    return 'f?'
                lc = leaf_class(F, n)
                if lc == 'ENTRY': return 'E'
                if n.get('n') == 'process_completion_event': return 'K'
                if n.get('n') == 'process_message_queue': return 'Q'
                return None
            seqs = tokens_on_paths(f, cl)
            R.seen(f); R.anchor('start:' + be)
            ok = all(s == ['I', 'E', 'C', 'K', 'Q'] for s in seqs)
            R.ob('C03.start-stop', ok, {'func': f.q, 'sequences': seqs})
            if not ok: R.find('C03.start-stop', f, 'start', 'start() must reset the active states to the initial ones, run the machine entry, the initial states\' entries, the completion dispatch and then the queued events; found %s' % seqs)
        if f.cls == 'state_machine' and f.n == 'stop':
            calls = [n.get('n') for i, n in f.calls() if n.get('org') == 1 and n['k'] == 'call' and not n.get('op')]
            R.seen(f); R.anchor('stop:' + be)
            ok = calls.count('do_exit') == 1
            R.ob('C03.start-stop', ok, {'func': f.q, 'calls': calls})
            if not ok: R.find('C03.start-stop', f, 'stop', 'stop() must run the composite exit cascade exactly once; calls: %s' % calls)
        # ---------------- H. backmp11
        if be == 'backmp11' and f.cls == 'state_machine_base':
            if f.n == 'on_exit' and len(f.d['params']) == 2:
                def cl(i, n):
                    if n['k'] != 'call': return None
                    if leaf_class(F, n) == 'EXIT': return 'X'
                    if n.get('n') == 'visit' and any(f.nodes[a] and f.nodes[a]['k'] == 'lambda' for a in n['args']):
                        mode = F.targs(n.get('ta'))
                        return 'V1' if mode and mode[0] == 1 else 'V?%s' % (mode[:1] if mode else '')
                    if n.get('n') == 'on_exit' and n.get('obj') and f.base_member(n['obj']) == 'm_history': return 'H'
                    return None
                seqs = tokens_on_paths(f, cl)
                R.seen(f); R.anchor('composite-exit:backmp11')
                ok = all(s == ['V1', 'X', 'H'] for s in seqs)
                R.ob('C02.cascade', ok, {'func': f.q, 'sequences': seqs})
                if not ok: R.find('C02.cascade', f, 'composite-exit', 'composite exit must visit the active substates (non-recursively, region order), then run its own on_exit, then let the history store the configuration; found %s' % seqs)
            if f.n == 'on_entry' and len(f.d['params']) == 2:
                def cl(i, n):
                    if n['k'] != 'call': return None
                    if n.get('n') == 'preprocess_entry': return 'P'
                    if n.get('n') == 'postprocess_entry': return 'Q'
                    if n.get('n') == 'on_entry' and n.get('obj') and f.base_member(n['obj']) == 'm_history': return 'H%d' % len(n['args'])
                    if n.get('n') in ('mp_for_each', 'visit') and 'ENTRY' in E.call_classes(f, n): return 'E'
                    return None
                seqs = tokens_on_paths(f, cl)
                R.seen(f); R.anchor('composite-entry:backmp11')
                # own entry (P) before the substates' entries; the history policy selects the states before they are entered - either in
                # one step (H3: select and enter) or as H2 (select) followed by the entry visit E; pending events (Q) last.  Whether
                # the selection happens before or after the machine's own entry is not part of this rule (C04.pool-reset decides it).
                def ok_entry(s):
                    if s.count('P') != 1 or s.count('Q') != 1 or s[-1] != 'Q': return False
                    body = [x for x in s if x not in ('P', 'Q')]
                    if body == ['H3']: return s.index('P') < s.index('H3')
                    if body == ['H2', 'E']: return s.index('P') < s.index('E')
                    return False
                ok = all(ok_entry(s) for s in seqs)
                if ok and all('H2' in s for s in seqs): R.anchor('history-select-then-enter:backmp11')
                R.ob('C08.sites', ok, {'func': f.q, 'sequences': seqs})
                if not ok: R.find('C08.sites', f, 'composite-entry', 'composite entry must run own entry, then the history-selected substates\' entries, then the pending events; found %s' % seqs)
            if f.n == 'preprocess_entry':
                def cl(i, n):
                    if n['k'] == 'asg' and f.base_member(n['lhs']) == 'm_running': return 'RUN'
                    if n['k'] == 'asg' and f.base_member(n['lhs']) == FLAG_MEMBER: return 'FLAG'
                    if n['k'] == 'call' and leaf_class(F, n) == 'ENTRY': return 'E'
                    return None
                seqs = tokens_on_paths(f, cl)
                R.seen(f); R.anchor('preprocess-entry:backmp11')
                ok = all(s in (['RUN', 'FLAG', 'E'], ['FLAG', 'RUN', 'E']) for s in seqs)
                R.ob('C02.cascade', ok, {'func': f.q, 'sequences': seqs})
                if not ok: R.find('C02.cascade', f, 'preprocess-entry', 'the machine is marked running and processing before its own entry behaviour runs; found %s' % seqs)
            if f.n == 'on_explicit_entry':
                def cl(i, n):
                    if n['k'] != 'call': return None
                    if n.get('n') == 'preprocess_entry': return 'P'
                    if n.get('n') == 'postprocess_entry': return 'Q'
                    if n.get('n') == 'on_entry' and n.get('obj') and f.base_member(n['obj']) == 'm_history': return 'H%d' % len(n['args'])
                    if n.get('n') in ('mp_for_each', 'visit'):
                        c = E.call_classes(f, n)
                        if 'ENTRY' in c: return 'E'
                        if 'W_ACTIVE' in c: return 'W'
                        return 'f?'
                    return None
                seqs = tokens_on_paths(f, cl)
                R.seen(f); R.anchor('explicit-entry:backmp11')
                # own entry (P) before the substates' entries (E); the history policy for the regions not named (H2, optional) before
                # the named regions are overridden (W); W before E; pending events (Q) last
                def ok_explicit(s):
                    if s.count('P') != 1 or s.count('Q') != 1 or s[-1] != 'Q' or s.count('W') != 1 or s.count('E') != 1 or s.count('H2') > 1: return False
                    if [x for x in s if x not in ('P', 'Q', 'W', 'E', 'H2')]: return False
                    if 'H2' in s and s.index('H2') > s.index('W'): return False
                    return s.index('W') < s.index('E') and s.index('P') < s.index('E')
                ok = all(ok_explicit(s) for s in seqs)
                R.ob('C09.entry', ok, {'func': f.q, 'sequences': seqs})
                if not ok: R.find('C09.entry', f, 'explicit-entry', 'explicit entry must run own entry, apply history to the regions not named, override the named regions, run the entries, then the pending events; found %s' % seqs)
                # when the targets do not name every region the history policy (also the "no history" one, which resets to the
                # initial states) must be applied to the others: oracle = number of targets vs number of declared regions
                mm = Model(F).machine_of(F.class_type(f))
                ta = f.targs() or []
                tl = type_list(str(ta[0])) if ta else None
                ini = Model(F).initial_states(mm.fe) if mm else None
                if ok and tl is not None and ini:
                    need = len(tl) < len(ini)
                    has = all('H2' in s for s in seqs)
                    ok2 = has or not need
                    R.ob('C09.entry', ok2, {'func': f.q, 'targets': len(tl), 'regions': len(ini), 'applies_history_policy': has})
                    if not ok2: R.find('C09.entry', f, 'explicit-entry-unnamed-regions', 'explicit entry names %d of %d regions but does not apply the history policy to the others: they keep the state they had when the submachine was last left (with no history they must restart from their initial states)' % (len(tl), len(ini)), instance=Facts.short(mm.fe, 100))
            if f.n == 'on_pseudo_entry':
                def cl(i, n):
                    if n['k'] != 'call': return None
                    if n.get('n') == 'on_explicit_entry': return 'X'
                    if n.get('n') == 'process_event': return 'P'
                    return None
                seqs = tokens_on_paths(f, cl)
                R.seen(f); R.anchor('pseudo-entry:backmp11')
                ok = all(s == ['X', 'P'] for s in seqs)
                # same event object
                R.ob('C09.entry', ok, {'func': f.q, 'sequences': seqs})
                if not ok: R.find('C09.entry', f, 'pseudo-entry', 'entry pseudostate must be entered and then the same event re-submitted; found %s' % seqs)
            if f.n == 'stop' and len(f.d['params']) == 1:
                def cl(i, n):
                    if n['k'] == 'asg' and f.base_member(n['lhs']) == 'm_running':
                        r = f.nodes[n['rhs']]; return 'RUN=%s' % (r.get('v') if r else '?')
                    if n['k'] == 'call' and n.get('n') == 'on_exit': return 'X'
                    return None
                seqs = tokens_on_paths(f, cl)
                R.seen(f); R.anchor('stop:backmp11')
                ok = sorted(map(tuple, seqs)) == sorted([(), ('X', 'RUN=False')])
                R.ob('C03.start-stop', ok, {'func': f.q, 'sequences': seqs})
                if not ok: R.find('C03.start-stop', f, 'stop', 'stop() must exit once, only while running, and clear the running mark afterwards; found %s' % seqs)
            if f.n == 'start' and len(f.d['params']) == 1:
                def cl(i, n):
                    if n['k'] == 'call' and n.get('n') == 'on_entry': return 'E'
                    return None
                seqs = tokens_on_paths(f, cl)
                R.seen(f); R.anchor('start:backmp11')
                ok = sorted(map(tuple, seqs)) == sorted([(), ('E',)])
                R.ob('C03.start-stop', ok, {'func': f.q, 'sequences': seqs})
                if not ok: R.find('C03.start-stop', f, 'start', 'start() must enter once, only while not running; found %s' % seqs)
        if be == 'backmp11' and f.cls == 'state_entry_visitor' and f.n == 'operator()':
            def cl(i, n):
                if n['k'] != 'call': return None
                if leaf_class(F, n) == 'ENTRY' or (n.get('n') == 'on_entry' and 'ENTRY' in E.call_classes(f, n)): return 'E'
                if n.get('n') == 'on_state_entry_completed': return 'K'
                return None
            seqs = tokens_on_paths(f, cl)
            R.seen(f); R.anchor('entry-visitor:backmp11')
            ok = all(s == ['E', 'K'] for s in seqs)
            R.ob('C10.first', ok, {'func': f.q, 'sequences': seqs})
            if not ok: R.find('C10.first', f, 'entry-visitor', 'each state entry must be followed by the completion hook for that state; found %s' % seqs)
        if be == 'backmp11' and 'history_impl' in f.classes and f.n == 'on_entry' and len(f.d['params']) == 3:
            def cl(i, n):
                if n['k'] != 'call': return None
                if n.get('n') == 'on_entry' and len(n['args']) == 2 and n.get('pc') == 'history_impl': return 'S'
                if n.get('n') in ('visit', 'mp_for_each'): return 'V'
                return None
            seqs = tokens_on_paths(f, cl)
            R.seen(f); R.anchor('history-entry:backmp11'); R.anchor('history-select-then-enter:backmp11')
            ok = all(s == ['S', 'V'] for s in seqs)
            R.ob('C08.sites', ok, {'func': f.q, 'sequences': seqs})
            if not ok: R.find('C08.sites', f, 'history-entry', 'history entry must first set all active ids, then run the entries of exactly those states; found %s' % seqs)

# ------------------------------------------------------------------ constructor wiring (C07.wiring / C06 containment)

@rule('wiring')
def wiring(F, R):
    """back / back11: fill_states (which wires each substate to its container: containment mark, exit-point forwarders,
    visitors) is the last operation on the substate list in every constructor; nothing may overwrite the substates afterwards"""
    for f in F.funcs:
        if backend_of(f) not in ('back', 'back11') or not f.blocks or f.cls != 'state_machine': continue
        sp = f.d.get('sp', '')
        # who may wire: constructors only.  Assignment reaches nested submachines through the same operator=, so wiring there makes
        # every nested machine its own container (exit points forward to the submachine itself, which then reports no_transition)
        from rules_rtc import only_called_from_pred
        if not (sp and 'ctor' in sp) and not only_called_from_pred(F, f, lambda g: 'ctor' in (g.d.get('sp') or '')):
            for i, n in f.calls():
                if n.get('n') == 'fill_states' and n.get('pc') == 'state_machine':
                    R.seen(f); R.anchor('wiring-outside-ctor:' + backend_of(f))
                    R.ob('C07.wiring', False, {'func': f.q})
                    R.find('C07.wiring', f, 'wiring-outside-constructor', '%s wires the substates to this machine (fill_states): assignment and copying reach nested submachines through the same function, so each nested machine overrides the wiring its container established (exit-point forwarders, containment mark)' % f.n, where=f.at(i))
        if not (sp and 'ctor' in sp) and f.n not in ('operator=', 'do_copy', 'set_states'): continue
        order = f.linear_nodes()
        fills = [i for i in order if f.nodes[i] and f.nodes[i]['k'] == 'call' and f.nodes[i].get('n') == 'fill_states']
        over = []
        for i in order:
            n = f.nodes[i]
            if not n: continue
            if n['k'] == 'call' and n.get('n') == 'set_states': over.append(i)
            if n['k'] == 'call' and n.get('op') == '=' and n.get('obj') and f.base_member(n['obj']) == 'm_substate_list': over.append(i)
            if n['k'] == 'asg' and f.base_member(n['lhs']) == 'm_substate_list': over.append(i)
        if not fills: continue
        R.seen(f); R.anchor('wiring:' + backend_of(f))
        bad = [i for i in over if order.index(i) > order.index(fills[0])]
        R.ob('C07.wiring', not bad, {'func': f.q, 'kind': sp or f.n})
        if bad:
            R.find('C07.wiring', f, 'overwrite-after-wiring', 'substates are overwritten at %s after fill_states wired them to this machine: contained submachines lose their containment mark (they then report no_transition themselves) and exit points their forwarder' % f.at(bad[0]), where=f.at(bad[0]))

@rule('kind')
def kind(F, R):
    """C02.kind / C07.cascade: the plain entry / exit behaviour of a state is never invoked on an object whose static type is a
    back-end machine (a composite state): composites must go through the composite entry / exit (do_entry / do_exit; backmp11: the
    back-end's own on_entry / on_exit), otherwise their substates are neither exited nor entered."""
    for f in F.funcs:
        if not is_backend(f) or not f.blocks: continue
        for i, n in f.calls():
            if n['k'] != 'call' or n.get('n') not in ('on_entry', 'on_exit') or not n.get('obj'): continue
            lc = leaf_class(F, n)
            if lc not in ('ENTRY', 'EXIT'): continue
            o = n['obj']
            while f.nodes[o] and f.nodes[o]['k'] == 'icast' and f.nodes[o].get('ck') in ('DerivedToBase', 'UncheckedDerivedToBase', 'NoOp'): o = f.nodes[o]['e']
            t = strip_cvref(f.type_of(o)).rstrip('*').strip()
            t = strip_cvref(t)
            R.seen(f); R.anchor('leaf-behaviour-call:' + backend_of(f))
            def machine_type(x):
                head, args, rest = parse_type(x)
                return args is not None and not rest.strip() and head in ('boost::msm::back::state_machine', 'boost::msm::back11::state_machine', 'boost::msm::backmp11::state_machine', 'boost::msm::backmp11::detail::state_machine_base')
            is_machine = machine_type(t)
            if not is_machine:
                rec = F.rec_by_type(t)
                # user classes deriving from a back-end machine (backmp11 'Derived' pattern)
                depth = 0
                while rec and depth < 4 and not is_machine:
                    nxt = None
                    for b in rec['bases']:
                        bt = F.strs[b['t']]
                        if machine_type(bt): is_machine = True
                        nxt = nxt or F.rec_by_type(bt)
                    rec = nxt; depth += 1
            R.ob('C02.kind', not is_machine, {'func': f.q, 'call': n['n'], 'receiver': Facts.short(t, 100)})
            if is_machine:
                R.find('C02.kind', f, 'plain-%s-on-composite' % n['n'], '%s resolves to the front-end behaviour of a composite state (%s): its substates are not %s' % (n['n'], Facts.short(t, 120), 'exited' if n['n'] == 'on_exit' else 'entered'), where=f.at(i))

# ------------------------------------------------------------------ C11 gate, C12 catch

def cond_facts(f, blk, succ_block):
    """atomic (node, truth) facts implied by leaving blk towards succ_block"""
    out = []
    tc = blk.get('tc')
    if not tc or len(blk['s']) != 2 or succ_block not in blk['s'] or blk.get('tcv') is not None: return out
    truth = blk['s'].index(succ_block) == 0
    def unc(c):
        while c and c['k'] in ('icast', 'cast'): c = f.nodes[c['e']]
        return c
    def implied(c, t):
        c = unc(c)
        if not c: return
        if c['k'] == 'un' and c['op'] == '!': implied(f.nodes[c['e']], not t)
        elif c['k'] == 'bin' and c['op'] == '&&' and t: implied(f.nodes[c['lhs']], True); implied(f.nodes[c['rhs']], True)
        elif c['k'] == 'bin' and c['op'] == '||' and not t: implied(f.nodes[c['lhs']], False); implied(f.nodes[c['rhs']], False)
        else: out.append((c, t))
    implied(f.nodes[tc], truth)
    if blk.get('tk') in ('IfStmt', 'WhileStmt', 'ForStmt', 'DoStmt'):
        c = unc(f.nodes[tc])
        while c and c['k'] == 'bin' and c['op'] in ('&&', '||'): c = unc(f.nodes[c['rhs']])
        implied(c, truth)
    return out

def path_consistent(f, p):
    """False when the path takes contradictory outcomes for two tests of the same condition over unmodified parameters /
    constants (e.g. `info != event_pool` tested twice)"""
    from rules_order import dependency_closure
    seen = {}
    for bi, b in enumerate(p[:-1]):
        for c, t in cond_facts(f, f.bmap[b], p[bi + 1]):
            # only conditions whose leaves are parameters, enumerators or literals
            ok = True
            cid = None
            for i, n in enumerate(f.nodes):
                if n is c: cid = i; break
            if cid is None: continue
            for d in dependency_closure(f, cid):
                m = f.nodes[d]
                if m and m['k'] == 'ref' and m.get('dk') not in ('param', 'enum'): ok = False
                if m and m['k'] in ('call', 'mem'): ok = False
            if not ok: continue
            key = f.expr(cid)
            if key in seen and seen[key] != t: return False
            seen[key] = t
    return True

def gate_kind(F, n):
    if n['k'] != 'call': return None
    nm = n.get('n')
    if nm == 'is_event_handling_blocked_helper': return 'helper'
    if nm == 'is_end_interrupt_event': return 'endint'
    if nm == 'is_flag_active':
        ta = F.targs(n.get('ta')) or []
        t = str(ta[0]) if ta else ''
        # blocking is "some region's active state carries the flag": the any-region (OR) query, never the all-regions one
        if len(ta) > 1 and not str(ta[1]).split('::')[-1].lower().startswith('flag_or'): return 'all-regions-query:' + str(ta[1]).split('::')[-1]
        if 'TerminateFlag' in t: return 'terminate'
        if 'EndInterruptFlag' in t: return 'endint'
        if 'InterruptedFlag' in t: return 'interrupted'
    return None

@rule('gate')
def gate(F, R):
    from rules_rtc import queue_ops
    M = Model(F)
    E = Effects(F)
    for f in F.funcs:
        if not is_backend(f) or not f.blocks: continue
        be = backend_of(f)
        if f.cls in ('state_machine', 'state_machine_base') and f.n in ('process_event_internal', 'process_completion_transition'):
            mt = F.class_type(f)
            m = M.machine_of(mt)
            blocking = None
            if m is not None and M.rows(m.fe) is not None:
                blocking = False
                for s in M.states(m.fe):
                    # the library's blocking flags count wherever the state lists them: internal_flag_list (terminate_state /
                    # interrupt_state of the functor front-end, PlantUML) or the plain flag_list (eUML terminate / interrupt states)
                    fl = ' '.join(list(M.internal_flags(s)) + list(M.flags(s)))
                    if 'TerminateFlag' in fl or 'InterruptedFlag' in fl: blocking = True
            qnodes = {i for i, q, op in queue_ops(f)}
            def eff(i, n):
                if n['k'] == 'asg':
                    l = f.nodes[n['lhs']]
                    if f.base_member(n['lhs']) or (l and l['k'] == 'mem'): return True
                if n['k'] == 'call':
                    if gate_kind(F, n): return False
                    if i in qnodes: return True
                    if n.get('n') in ('do_pre_msg_queue_helper', 'defer_event', 'do_process_helper', 'do_process_event', 'execute', 'process_event_pool'): return True
                    if E.call_classes(f, n) & {'GUARD', 'EXIT', 'ACTION', 'ENTRY', 'NO_TRANSITION', 'EXCEPTION_CAUGHT', 'PROCESS', 'DEFER', 'W_FLAG'}: return True
                if n['k'] == 'mem' and n.get('n') == FLAG_MEMBER: return True
                return False
            R.seen(f)
            ok = True; why = ''
            gates_seen = set()
            for p in f.paths(edge_bound=1):
                if f.aborts(p): continue
                facts_ = []; blocked = False; first_eff = None; gates_before = set()
                for bi, b in enumerate(p):
                    blk = f.bmap[b]
                    for i in blk['e']:
                        n = f.nodes[i]
                        if not n: continue
                        g = gate_kind(F, n)
                        if g:
                            gates_seen.add(g)
                            if first_eff is None: gates_before.add(g)
                        if eff(i, n):
                            if first_eff is None: first_eff = i
                            if blocked: ok = False; why = 'after the blocking test says "blocked" the path still performs %s at %s' % (f.expr(i)[:60], f.at(i))
                    if bi + 1 < len(p):
                        for c, t in cond_facts(f, blk, p[bi + 1]):
                            g = gate_kind(F, c) if c['k'] == 'call' else None
                            if g: facts_.append((g, t))
                        d = dict(facts_)
                        if d.get('helper') is True or d.get('terminate') is True or (d.get('interrupted') is True and (d.get('endint') is False or f.n == 'process_completion_transition')):
                            blocked = True
                if blocking and first_eff is not None:
                    need = {'helper'} if be != 'backmp11' else ({'terminate', 'interrupted'})
                    if not need <= gates_before:
                        ok = False; why = 'a path reaches %s at %s without the blocking test(s) %s first' % (f.expr(first_eff)[:60], f.at(first_eff), sorted(need - gates_before))
            if blocking:
                R.anchor('gate-blocking:%s:%s' % (be, f.n))
                if be == 'backmp11':
                    need_all = {'terminate', 'interrupted', 'endint'} if f.n == 'process_event_internal' else {'terminate', 'interrupted'}
                    if not need_all <= gates_seen:
                        ok = False; why = 'blocking test consults %s, required %s' % (sorted(gates_seen), sorted(need_all))
                if be != 'backmp11':
                    # the helper overload chosen must be the real one (tag true_)
                    for i, n in f.calls():
                        if n.get('n') == 'is_event_handling_blocked_helper':
                            g = F.bykey.get(n['fk'])
                            if g is not None and not any(gate_kind(F, x) for _, x in g.calls()):
                                ok = False; why = 'machine has terminate / interrupt states but the no-op blocking helper is selected'
            elif blocking is False:
                R.anchor('gate-nonblocking:%s:%s' % (be, f.n))
            R.ob('C11.gate', ok, {'func': f.q, 'machine_has_blocking_states': blocking, 'gate_tests': sorted(gates_seen)})
            if not ok: R.find('C11.gate', f, 'gate', why)
        # the helper itself (back / back11)
        if f.n == 'is_event_handling_blocked_helper' and f.cls == 'state_machine':
            kinds = [gate_kind(F, n) for i, n in f.calls()]
            kinds = [k for k in kinds if k]
            if not kinds: continue
            R.seen(f); R.anchor('gate-helper:' + be)
            # returns true iff terminate, or interrupted and not end-interrupt
            ok = True; why = ''
            for p in f.paths(edge_bound=1):
                d = {}
                for bi, b in enumerate(p[:-1]):
                    for c, t in cond_facts(f, f.bmap[b], p[bi + 1]):
                        g = gate_kind(F, c) if c['k'] == 'call' else None
                        if g: d[g] = t
                rv = None
                for i in f.path_nodes(p):
                    n = f.nodes[i]
                    if n and n['k'] == 'ret': rv = f.eval_const(n['e'])
                expect = None
                if d.get('terminate') is True: expect = 1
                elif d.get('interrupted') is True and d.get('endint') is False: expect = 1
                elif d.get('terminate') is False and (d.get('interrupted') is False or d.get('endint') is True): expect = 0
                if expect is not None and rv != expect:
                    ok = False; why = 'blocking helper returns %s on the path with %s' % (rv, d)
                if 'terminate' not in d:
                    ok = False; why = 'a path of the blocking helper decides without testing the terminate flag (facts on the path: %s): an end-interrupt event is processed although another region is terminated' % d
            if sorted(set(kinds)) != ['endint', 'interrupted', 'terminate']: ok = False; why = 'blocking helper consults %s' % sorted(set(kinds))
            # C11.type: the end-interrupt flag is looked up for the decayed event type
            ta = f.targs() or []
            ev = str(ta[0]) if ta else ''
            okt = ev == strip_cvref(ev)
            for i, n in f.calls():
                if gate_kind(F, n) == 'endint':
                    fl = str((F.targs(n.get('ta')) or [''])[0])
                    inner = parse_type(fl)[1]
                    if inner and inner[0] != strip_cvref(inner[0]): okt = False
            R.ob('C11.gate', ok, {'func': f.q, 'consults': sorted(set(kinds))})
            if not ok: R.find('C11.gate', f, 'helper', why)
            R.ob('C11.type', okt, {'func': f.q, 'event': Facts.short(ev, 60)})
            if not okt: R.find('C11.type', f, 'event-type', 'blocking helper instantiated with the non-decayed event type %s: EndInterruptFlag<%s> never matches the declared end-interrupt event' % (Facts.short(ev, 60), Facts.short(ev, 60)))

@rule('catch')
def catch(F, R):
    """C12.catch: the dispatch of an event runs inside a try whose std::exception handler calls exception_caught exactly once
    with the event being processed, never no_transition, and yields HANDLED_FALSE."""
    E = Effects(F)
    for f in F.funcs:
        if not is_backend(f) or not f.blocks: continue
        be = backend_of(f)
        if f.cls not in ('state_machine', 'state_machine_base'): continue
        if f.n not in ('do_process_helper', 'process_event_internal', 'process_completion_transition'): continue
        disp = [(i, n) for i, n in f.calls() if n.get('n') in ('do_process_event',) or (f.n == 'process_completion_transition' and n.get('n') == 'execute')]
        if not disp: continue
        tries = f.d.get('tries', [])
        R.seen(f); R.anchor('dispatch-site:%s:%s' % (be, f.n))
        if not tries:
            R.anchor('dispatch-no-try:%s:%s' % (be, f.n))
            # allowed only in the no-exception configuration: back: the overload tagged true_; backmp11: front-end typedef
            noexc = False
            if be != 'backmp11':
                noexc = any('bool_<true>' in F.strs[p['t']] for p in f.d['params'])
            else:
                m = Model(F).machine_of(F.class_type(f))
                noexc = bool(m and m.fe_rec and m.M.declares_option(m.fe, 'no_exception_thrown', through_configuration=False))
            R.ob('C12.catch', noexc, {'func': f.q, 'no_exception_configuration': noexc})
            if not noexc: R.find('C12.catch', f, 'no-try', 'the event is dispatched outside any try block although exceptions are not configured off')
            continue
        R.anchor('dispatch-try:%s:%s' % (be, f.n))
        t = tries[0]
        inside = all(i in t['nodes'] for i, n in disp)
        ht = [F.strs[h['t']] for h in t['handlers']]
        ok = inside and any('std::exception' in x for x in ht)
        why = '' if ok else 'dispatch inside try=%s, handler types %s' % (inside, ht)
        if ok:
            hb = [h['b'] for h in t['handlers'] if 'std::exception' in F.strs[h['t']]][0]
            # nodes of the handler: blocks reachable from hb until the join with normal flow (approx: blocks dominated by hb = reachable from hb and not from the try body without passing hb)
            seen = set(); st = [hb]
            normal = set()
            stn = [f.entry]
            while stn:
                b = stn.pop()
                if b in normal or b == hb: continue
                normal.add(b); stn.extend(f.succ(b, handlers=False))
            while st:
                b = st.pop()
                if b in seen or (b in normal and b != hb): continue
                seen.add(b); st.extend(f.succ(b, handlers=False))
            hn = [i for b in seen for i in f.bmap[b]['e']]
            ec = [i for i in hn if f.nodes[i] and f.nodes[i]['k'] == 'call' and leaf_class(F, f.nodes[i]) == 'EXCEPTION_CAUGHT']
            nt = [i for i in hn if f.nodes[i] and f.nodes[i]['k'] == 'call' and 'NO_TRANSITION' in E.call_classes(f, f.nodes[i])]
            if len(ec) != 1: ok = False; why = 'handler calls exception_caught %d times' % len(ec)
            elif nt: ok = False; why = 'handler reaches no_transition'
            else:
                a0 = f.nodes[f.nodes[ec[0]]['args'][0]] if f.nodes[ec[0]]['args'] else None
                while a0 and a0['k'] in ('icast', 'cast'): a0 = f.nodes[a0['e']]
                evname = f.d['params'][0]['n'] if f.d['params'] and f.n != 'process_completion_transition' else 'event'
                if not (a0 and a0['k'] == 'ref' and a0['n'] == evname): ok = False; why = 'exception_caught is not given the event being processed (%s)' % (f.expr(f.nodes[ec[0]]['args'][0]) if f.nodes[ec[0]]['args'] else '?')
            if ok:
                # result after the handler is HANDLED_FALSE: return of the enumerator, assignment, or untouched initial value
                res_ok = False
                for i in hn:
                    n = f.nodes[i]
                    if n and n['k'] == 'ret' and 'HANDLED_FALSE' in f.expr(n['e']): res_ok = True
                    if n and n['k'] == 'asg' and 'HANDLED_FALSE' in f.expr(n['rhs']): res_ok = True
                if not res_ok:
                    for n in f.nodes:
                        if n and n['k'] == 'decl':
                            for v in n['vars']:
                                if v['n'] == 'result' and v['hasinit'] and 'HANDLED_FALSE' in f.expr(v['init']):
                                    # must not be assigned anything else inside the handler (checked above) 
                                    res_ok = True
                if not res_ok: ok = False; why = 'the handler does not yield HANDLED_FALSE'
        R.ob('C12.catch', ok, {'func': f.q, 'handlers': ht})
        if not ok: R.find('C12.catch', f, 'catch-shape', why)

@rule('drain')
def drain(F, R):
    """C10.first / C04.drain: after the dispatch of an event the machine lets completion transitions fire first and then drains
    its pending events: back / back11 process_event_internal = dispatch < clear flag < completion < deferred/message queues on every
    path; backmp11 = dispatch < clear flag < process_event_pool on every path except the one taken for info == event_pool."""
    for f in F.funcs:
        if not is_backend(f) or not f.blocks or f.n != 'process_event_internal' or f.cls not in ('state_machine', 'state_machine_base'): continue
        be = backend_of(f)
        R.seen(f); R.anchor('post-step:' + be)
        ok = True; why = ''
        for p in f.paths(edge_bound=1):
            if f.aborts(p) or not path_consistent(f, p): continue
            seq = []; pool_case = False
            for bi, b in enumerate(p):
                blk = f.bmap[b]
                for i in blk['e']:
                    n = f.nodes[i]
                    if not n or n['k'] != 'call': continue
                    nm = n.get('n')
                    if nm in ('do_process_helper', 'do_process_event'): seq.append('D')
                    elif nm == 'process_completion_event': seq.append('K')
                    elif nm == 'do_handle_prio_msg_queue_deferred_queue': seq.append('Q')
                    elif nm == 'process_event_pool': seq.append('P')
                if bi + 1 < len(p):
                    for c, t in cond_facts(f, blk, p[bi + 1]):
                        if c['k'] == 'bin' and c['op'] in ('==', '!='):
                            l = f.nodes[c['lhs']]; r = f.nodes[c['rhs']]
                            if l and r and l.get('n') == 'info' and r.get('n') == 'event_pool' and ((c['op'] == '==') == t): pool_case = True
            if 'D' not in seq: continue
            if be != 'backmp11':
                if seq != ['D', 'K', 'Q']: ok = False; why = 'after the dispatch the path runs %s, required completion then queues' % seq
            else:
                m_has_pool = any(f.nodes[i] and f.nodes[i]['k'] == 'call' and f.nodes[i].get('n') == 'process_event_pool' for i in range(len(f.nodes)))
                if m_has_pool and not pool_case and seq != ['D', 'P']:
                    ok = False; why = 'a dispatch not coming from the event pool is not followed by process_event_pool (sequence %s): completion transitions and pending events of this machine are not run' % seq
                if pool_case and 'P' in seq:
                    ok = False; why = 'process_event_pool re-entered while already draining the pool'
        R.ob('C10.first', ok, {'func': f.q})
        if not ok: R.find('C10.first', f, 'post-step', why)
        if be != 'backmp11':
            # the completion pass is armed by the outcome of this dispatch alone: the flag handed to the completion helper
            # depends on nothing but the result of do_process_helper (not on where the event came from)
            from rules_order import dependency_closure
            for i, n in enumerate(f.nodes):
                if not (n and n['k'] == 'ctor' and 'handle_eventless_transitions_helper<' in F.strs[n['t']] and len(n.get('args', [])) >= 2): continue
                R.anchor('completion-arm:' + be)
                isdisp = lambda m: m['k'] == 'call' and m.get('n') == 'do_process_helper'
                deps = dependency_closure(f, n['args'][1], stop=isdisp)
                extra = []
                hasdisp = False
                for d in deps:
                    m = f.nodes[d]
                    if not m: continue
                    if isdisp(m): hasdisp = True; continue
                    if m['k'] == 'ref' and m.get('dk') == 'param': extra.append(m['n'])
                    if m['k'] == 'mem': extra.append(m['n'])
                    if m['k'] == 'call' and not m.get('op'): extra.append(m.get('n') + '()')
                ok2 = hasdisp and not extra and 'HANDLED_TRUE' in ' '.join(f.expr(d) for d in deps if f.nodes[d] and f.nodes[d]['k'] == 'ref')
                # ... and by its HANDLED_TRUE bit alone: a region that deferred or rejected the same event does not postpone the
                # completion of the region that took a transition (results of the regions are OR-ed into one code)
                bits = sorted({f.nodes[d]['n'] for d in deps if f.nodes[d] and f.nodes[d]['k'] == 'ref' and f.nodes[d].get('dk') == 'enum' and f.nodes[d]['n'].startswith('HANDLED_')})
                if ok2 and [b for b in bits if b != 'HANDLED_FALSE'] != ['HANDLED_TRUE']:   # a comparison with HANDLED_FALSE (zero) adds nothing
                    ok2 = False; extra.append('result bits %s' % bits)
                R.ob('C10.first', ok2, {'func': f.q, 'armed_by': f.expr(n['args'][1])})
                if not ok2:
                    R.find('C10.first', f, 'completion-arm', 'the completion pass after a dispatch must be armed by HANDLED_TRUE of that dispatch alone; the flag given to the completion helper is %s and also depends on %s' % (f.expr(n['args'][1]), sorted(set(extra)) or 'nothing from the dispatch'), where=f.at(i))

            # the completion pass is told where the step's event came from: inside a step that has an event source of its own the
            # helper gets that source (with the default "direct" it would drain the message queue itself although the step was taken
            # out of the queue by a single-step call)
            for i, n in f.calls():
                if n.get('n') != 'process_completion_event' or n.get('pc') != 'handle_eventless_transitions_helper': continue
                g = F.bykey.get(n.get('fk'))
                if g is None or not g.d['params']: continue
                # the step's own event source: a parameter of the caller of the same (canonical) type as the helper's source parameter
                src_params = [p['n'] for p in f.d['params'] if F.strs[p['t']] == F.strs[g.d['params'][0]['t']]]
                if src_params:
                    R.anchor('completion-source:' + be)
                    a = n.get('args') or []
                    x = f.nodes[a[0]] if a else None
                    while x and x['k'] in ('icast', 'cast'): x = f.nodes[x['e']]
                    ok3 = bool(x) and x['k'] == 'ref' and x.get('dk') == 'param' and x['n'] in src_params
                    R.ob('C10.first', ok3, {'func': f.q, 'completion_source': f.expr(a[0]) if a else '(default)'})
                    if not ok3:
                        R.find('C10.first', f, 'completion-source', 'the completion pass inside %s is started with %s instead of the event source of the step (%s): a completion event then counts as a direct submission and drains the message queue even when the step came out of the queue through execute_single_queued_event' % (f.n, f.expr(a[0]) if a and x else 'the default source', src_params[0]), where=f.at(i))

# ------------------------------------------------------------------ history policies (C08.table, C08.event)

def array_copies(f):
    """element-wise copies `dst[i] = src[i]` inside a counting loop: list of (dst name, src name, loop covers 0..N-1 ?)"""
    out = []
    for i, n in enumerate(f.nodes):
        if not n or n['k'] != 'asg' or n['op'] != '=': continue
        l = f.nodes[n['lhs']]; r = f.nodes[n['rhs']]
        while r and r['k'] in ('icast', 'cast'): r = f.nodes[r['e']]
        if not (l and l['k'] == 'sub' and r and r['k'] == 'sub'): continue
        def base_name(x):
            b = f.nodes[x['b']]
            while b and b['k'] in ('icast', 'cast'): b = f.nodes[b['e']]
            if b and b['k'] == 'mem':
                o = f.nodes[b['b']]
                return ('rhs.' if o and o['k'] == 'ref' else '') + b['n']
            if b and b['k'] == 'ref': return b['n']
            return None
        li = f.nodes[l['i']]; ri = f.nodes[r['i']]
        while li and li['k'] in ('icast', 'cast'): li = f.nodes[li['e']]
        while ri and ri['k'] in ('icast', 'cast'): ri = f.nodes[ri['e']]
        same_ix = bool(li and ri and li['k'] == 'ref' and ri['k'] == 'ref' and li['n'] == ri['n'])
        var = li['n'] if li and li['k'] == 'ref' else None
        full = False
        if var and same_ix:
            init0 = any(v['n'] == var and v['hasinit'] and const_of(f, v['init']) == 0 for m in f.nodes if m and m['k'] == 'decl' for v in m['vars'])
            bound = False
            for b in f.blocks:
                if b.get('tc'):
                    c = f.nodes[b['tc']]
                    if c['k'] == 'bin' and c['op'] == '<':
                        cl = f.nodes[c['lhs']]
                        while cl and cl['k'] in ('icast', 'cast'): cl = f.nodes[cl['e']]
                        if cl and cl['k'] == 'ref' and cl['n'] == var:
                            rv = const_of(f, c['rhs'])
                            regions = (f.cls_args() or [None])[-1]
                            if rv is not None and rv == regions: bound = True
            inc = any(m and m['k'] == 'un' and m['op'] == '++' and f.nodes[m['e']] and f.nodes[m['e']].get('n') == var for m in f.nodes)
            full = init0 and bound and inc
        out.append((base_name(l), base_name(r), full))
    # std::copy(src, src + N, dst) over whole arrays
    def arr_name(x):
        n = f.nodes[x] if x else None
        while n and n['k'] in ('icast', 'cast'): n = f.nodes[n['e']]
        if n and n['k'] == 'mem':
            o = f.nodes[n['b']]
            return ('rhs.' if o and o['k'] == 'ref' else '') + n['n']
        if n and n['k'] == 'ref': return n['n']
        return None
    for i, n in enumerate(f.nodes):
        if n and n['k'] == 'call' and n.get('n') in ('copy', 'copy_n') and n.get('org') == 0 and len(n['args']) == 3:
            a0, a1, a2 = n['args']
            src = arr_name(a0); dst = arr_name(a2)
            e = f.nodes[a1]
            while e and e['k'] in ('icast', 'cast'): e = f.nodes[e['e']]
            full = False
            if e and e['k'] == 'bin' and e['op'] == '+' and arr_name(e['lhs']) == src:
                regions = (f.cls_args() or [None])[-1]
                full = const_of(f, e['rhs']) == regions
            out.append((dst, src, full))
    return out

HIST_BACK = {   # class -> method -> expected set of (dst, src) copies over all regions
    'NoHistoryImpl': {'set_initial_states': {('m_initialStates', 'initial_states')}, 'history_exit': set(),
                      'operator=': {('m_initialStates', 'rhs.m_initialStates')}},
    'AlwaysHistoryImpl': {'set_initial_states': {('m_initialStates', 'initial_states')}, 'history_exit': {('m_initialStates', 'current_states')},
                          'operator=': {('m_initialStates', 'rhs.m_initialStates')}},
    'ShallowHistoryImpl': {'set_initial_states': {('m_currentStates', 'initial_states'), ('m_initialStates', 'initial_states')},
                           'history_exit': {('m_currentStates', 'current_states')},
                           'operator=': {('m_initialStates', 'rhs.m_initialStates'), ('m_currentStates', 'rhs.m_currentStates')}},
}

@rule('history')
def history(F, R):
    M = Model(F)
    for f in F.funcs:
        if not f.blocks: continue
        # ---------------- back / back11 policy implementations (shared file)
        if f.file == 'boost/msm/back/history_policies.hpp' and f.cls in HIST_BACK:
            exp = HIST_BACK[f.cls].get(f.n)
            if exp is not None:
                R.seen(f); R.anchor('history-impl:%s::%s' % (f.cls, f.n))
                got = array_copies(f)
                gs = {(d, s) for d, s, full in got}
                ok = gs == exp and all(full for d, s, full in got)
                R.ob('C08.table', ok, {'func': f.q, 'copies': sorted(gs), 'all_regions': all(full for _, _, full in got)})
                if not ok: R.find('C08.table', f, 'copies', '%s::%s copies %s (all regions: %s), required %s over regions 0..N-1' % (f.cls, f.n, sorted(gs), [full for _, _, full in got], sorted(exp)))
            if f.n == 'history_entry':
                R.seen(f); R.anchor('history-impl:%s::history_entry' % f.cls)
                ev = strip_cvref(str((f.targs() or [''])[0]))
                rets = set()
                for p in f.paths():
                    for i in f.path_nodes(p):
                        n = f.nodes[i]
                        if n and n['k'] == 'ret':
                            r = f.nodes[n['e']]
                            while r and r['k'] in ('icast', 'cast'): r = f.nodes[r['e']]
                            rets.add(r['n'] if r and r['k'] == 'mem' else f.expr(n['e']))
                if f.cls == 'ShallowHistoryImpl':
                    evs = [strip_cvref(x) for x in (type_list(str(f.cls_args()[0])) or [])]
                    expect = {'m_currentStates'} if ev in evs else {'m_initialStates'}
                else:
                    expect = {'m_initialStates'}
                ok = rets == expect
                R.ob('C08.table', ok, {'func': f.q, 'event': Facts.short(ev, 50), 'returns': sorted(rets)})
                if not ok: R.find('C08.table', f, 'entry', '%s::history_entry<%s> returns %s, required %s' % (f.cls, Facts.short(ev, 50), sorted(rets), sorted(expect)))
                # C08.event: the entering event itself, never a wrapper / reference / cv-qualified type
                raw = str((f.targs() or [''])[0])
                oke = raw == strip_cvref(raw) and not parse_type(raw)[0].endswith('::direct_entry_event')
                R.ob('C08.event', oke, {'func': f.q, 'event': Facts.short(raw, 80)})
                if not oke: R.find('C08.event', f, 'wrapped-event', 'history_entry is instantiated with %s: the shallow-history membership test must see the entering event\'s own type' % Facts.short(raw, 120), instance=Facts.short(raw, 160))
            if f.n == 'process_deferred_events':
                R.seen(f); R.anchor('history-impl:%s::process_deferred_events' % f.cls)
                ev = strip_cvref(str((f.targs() or [''])[0]))
                rv = F.const_return(f.k)
                if f.cls == 'NoHistoryImpl': expect = 0
                elif f.cls == 'AlwaysHistoryImpl': expect = 1
                else:
                    evs = [strip_cvref(x) for x in (type_list(str(f.cls_args()[0])) or [])]
                    expect = 1 if ev in evs else 0
                ok = rv == expect
                R.ob('C08.table', ok, {'func': f.q, 'event': Facts.short(ev, 50), 'returns': rv})
                if not ok: R.find('C08.table', f, 'deferred', '%s::process_deferred_events<%s> returns %s, required %s' % (f.cls, Facts.short(ev, 50), rv, expect))
        # ---------------- backmp11 history_impl
        if backend_of(f) == 'backmp11' and 'history_impl' in f.classes and f.cls == 'history_impl':
            pol = str((f.cls_args() or [''])[0])
            kind = 'no' if pol.endswith('no_history') else 'always' if 'always_shallow_history' in pol else 'shallow' if 'shallow_history<' in pol else None
            if kind is None: continue
            if f.n == 'on_entry' and len(f.d['params']) == 2:
                R.seen(f); R.anchor('history-impl:mp11:%s:on_entry' % kind)
                ev = strip_cvref(str((f.targs() or ['', ''])[1]))
                srcs = set()
                reach = f.reachable_blocks()
                for b in reach:
                    for i in f.bmap[b]['e']:
                        n = f.nodes[i]
                        if n and ((n['k'] == 'asg' and f.base_member(n['lhs']) in ACTIVE_MEMBERS) or (n['k'] == 'call' and n.get('op') == '=' and n.get('obj') and f.base_member(n['obj']) in ACTIVE_MEMBERS)):
                            rhs = n['rhs'] if n['k'] == 'asg' else (n['args'][0] if n['args'] else 0)
                            r = f.nodes[rhs]
                            while r and r['k'] in ('icast', 'cast'): r = f.nodes[r['e']]
                            if r and r['k'] == 'mem': srcs.add('member:' + r['n'])
                            elif r and r['k'] == 'ref' and r.get('ta') is not None:
                                ta = F.targs(r['ta'])
                                srcs.add('initial' if ta and str(ta[0]) == str(f.cls_args()[-1]) else 'other-constant')
                            else: srcs.add('other:' + f.expr(rhs))
                if kind == 'no': expect = {'initial'}
                elif kind == 'always': expect = {'member:m_last_active_state_ids'}
                else:
                    head, args, _ = parse_type(pol)
                    evs = [strip_cvref(x) for x in (args or [])]
                    expect = {'member:m_last_active_state_ids'} if ev in evs else {'initial'}
                ok = srcs == expect
                R.ob('C08.table', ok, {'func': f.q, 'policy': kind, 'event': Facts.short(ev, 40), 'active_ids_from': sorted(srcs)})
                if not ok: R.find('C08.table', f, 'entry', 'history_impl<%s>::on_entry<%s> sets the active ids from %s, required %s' % (kind, Facts.short(ev, 40), sorted(srcs), sorted(expect)))
                raw = str((f.targs() or ['', ''])[1])
                oke = raw == strip_cvref(raw) and 'direct_entry_event<' not in raw
                R.ob('C08.event', oke, {'func': f.q, 'event': Facts.short(raw, 80)})
                if not oke: R.find('C08.event', f, 'wrapped-event', 'history on_entry instantiated with %s' % Facts.short(raw, 120))
            if f.n == 'on_exit':
                R.seen(f); R.anchor('history-impl:mp11:%s:on_exit' % kind)
                saves = [i for i, n in enumerate(f.nodes) if n and ((n['k'] == 'asg' and f.base_member(n['lhs']) == 'm_last_active_state_ids') or (n['k'] == 'call' and n.get('op') == '=' and n.get('obj') and f.base_member(n['obj']) == 'm_last_active_state_ids'))]
                src_ok = True
                for i in saves:
                    n = f.nodes[i]
                    rhs = n['rhs'] if n['k'] == 'asg' else (n['args'][0] if n['args'] else 0)
                    if f.base_member(rhs) not in ACTIVE_MEMBERS: src_ok = False
                ok = (len(saves) == 0) if kind == 'no' else (len(saves) == 1 and src_ok)
                R.ob('C08.table', ok, {'func': f.q, 'policy': kind, 'saves': len(saves)})
                if not ok: R.find('C08.table', f, 'exit', 'history_impl<%s>::on_exit stores the active configuration %d time(s)' % (kind, len(saves)))
    # memory cells: by-value members initialised from the initial states
    for r in F.records:
        if r['n'] == 'history_impl' and r['loc'].startswith('boost/msm/backmp11/'):
            t = F.strs[r['t']]
            args = F.targs(r.get('a')) or []
            for fd in r['fields']:
                if fd['n'] == 'm_last_active_state_ids':
                    R.anchor('history-cell:mp11')
                    ft = F.strs[fd['t']]
                    ok = bool(fd.get('init')) and any(x.get('ta') and str((F.targs(x['ta']) or [''])[0]) == str(args[-1]) for x in fd.get('irefs', []))
                    ok = ok and '*' not in ft and '&' not in ft
                    R.ob('C08.table', ok, {'record': Facts.short(t, 80), 'field': fd['n'], 'initialiser_refs': [x['n'] for x in fd.get('irefs', [])]})
                    if not ok: R.find('C08.table', ('boost/msm/backmp11/detail/history_impl.hpp', 'boost::msm::backmp11::history_impl'), 'cell-init', 'history memory %s of %s is not a by-value member initialised from the initial state ids: a first entry through a history event activates state id 0 in every region' % (fd['n'], Facts.short(t, 80)), where=r['loc'], instance=Facts.short(t, 200))
        if r['n'] in ('state_machine', 'state_machine_base') and r['org'] == 1:
            for fd in r['fields']:
                if fd['n'] == 'm_history':
                    R.anchor('history-member:' + ('backmp11' if 'backmp11' in r['loc'] else 'back11' if 'back11' in r['loc'] else 'back'))
                    ft = F.strs[fd['t']]
                    ok = not ft.rstrip().endswith('*') and not ft.rstrip().endswith('&') and 'shared_ptr' not in ft
                    R.ob('C08.private', ok, {'record': Facts.short(F.strs[r['t']], 60), 'type': Facts.short(ft, 60)})
                    if not ok: R.find('C08.private', ('boost/msm', r['q']), 'shared-history', 'history memory is not a by-value member: %s' % ft, where=r['loc'])

@rule('bounds')
def bounds(F, R):
    """C03.bounds / C09.exit-bound: a range over a machine's active-state array (`x.current_state() + K`, the end of a search for an
    active id) must use that machine's own region count: K == nr_regions of the static type of x."""
    def nr_regions_of(t):
        rec = F.rec_by_type(strip_cvref(t))
        depth = 0
        while rec and depth < 4:
            if 'nr_regions' in rec['tds']:
                s = F.strs[rec['tds']['nr_regions']]
                h_, a_, r_ = parse_type(s)
                if h_ == 'boost::mpl::size' and a_:
                    l_ = type_list(a_[0])
                    if l_ is not None: return len(l_)
                if 'int_<' in s:
                    try: return int(s.split('int_<')[1].split('>')[0])
                    except ValueError: return None
            if 'nr_regions' in rec['consts']: return rec['consts']['nr_regions']
            nxt = None
            for b in rec['bases']: nxt = nxt or F.rec_by_type(F.strs[b['t']])
            rec = nxt; depth += 1
        return None
    def resolve(f, nid, depth=0):
        n = f.nodes[nid] if nid else None
        while n and n['k'] in ('icast', 'cast'): n = f.nodes[n['e']]
        if not n or depth > 4: return None
        if n['k'] == 'call' and n.get('n') == 'current_state' and n.get('obj'): return f.type_of(n['obj'])
        if n['k'] == 'ref' and n.get('dk') == 'local':
            for m in f.nodes:
                if m and m['k'] == 'decl':
                    for v in m['vars']:
                        if v['n'] == n['n'] and v['hasinit']: return resolve(f, v['init'], depth + 1)
        return None
    for f in F.funcs:
        if not is_backend(f) or not f.blocks: continue
        for i, n in enumerate(f.nodes):
            if not n or n['k'] != 'bin' or n['op'] != '+': continue
            t = resolve(f, n['lhs'])
            if not t: continue
            k = const_of(f, n['rhs'])
            nr = nr_regions_of(t)
            if k is None or nr is None: continue
            R.seen(f); R.anchor('active-range:' + backend_of(f))
            ok = k == nr
            R.ob('C03.bounds', ok, {'func': f.q, 'range_end': f.expr(i)[:80], 'k': k, 'nr_regions_of_owner': nr})
            if not ok:
                R.find('C03.bounds', f, 'range-end', 'the end of the active-state range of %s is taken at +%d but that machine has %d region(s): %s' % (Facts.short(strip_cvref(t), 80), k, nr, f.expr(i)[:100]), where=f.at(i))

# ------------------------------------------------------------------ copies and serialization (C15, C16)

COPY_EXEMPT = {'m_visitors': 'state visitors are bound to the new machine\'s own states by copy_helper::visitor_helper, not copied',
               'm_upper_fsm': 'back11: pointer to the containing machine, set when the container wires its substates (fill_states), must not be copied'}
SER_EXEMPT = {'m_events_queue': 'queues hold type-erased callables and cannot be serialised (documented)',
              'm_deferred_events_queue': 'queues hold type-erased callables and cannot be serialised (documented)',
              'm_visitors': 'visitors cannot be serialised (documented), rebuilt at construction',
              'm_upper_fsm': 'back11: pointer to the containing machine, re-established at construction'}

def members_touched(f):
    """data members of *this written in a function: plain / compound assignment targets and operator= receivers"""
    w = set()
    for i, n in enumerate(f.nodes):
        if not n: continue
        if n['k'] == 'asg':
            m = f.base_member(n['lhs'])
            l = f.nodes[n['lhs']]
            if m and l and l['k'] in ('mem', 'sub'):
                # only members of this (not of rhs)
                ch = member_chain(f, n['lhs'])
                if ch: w.add(ch[0])
        elif n['k'] == 'call' and n.get('op') == '=' and n.get('obj'):
            ch = member_chain(f, n['obj'])
            o = f.nodes[n['obj']]
            if ch and o and o['k'] == 'mem':
                b = f.nodes[o['b']]
                if b and b['k'] == 'this': w.add(ch[0])
    return w

@rule('copyser')
def copyser(F, R):
    E = Effects(F)
    for f in F.funcs:
        if not f.blocks or backend_of(f) not in ('back', 'back11') or f.cls != 'state_machine': continue
        be = backend_of(f)
        rec = F.rec_by_type(F.class_type(f))
        if rec is None: continue
        fields = [fd['n'] for fd in rec['fields']]
        if f.n == 'do_copy':
            R.seen(f); R.anchor('do_copy:' + be)
            w = members_touched(f)
            for i, n in f.calls():
                if 'W_ACTIVE' in E.call_classes(f, n): w.add('m_states')
            missing = [x for x in fields if x not in w and x not in COPY_EXEMPT]
            R.ob('C15.fields', not missing, {'func': f.q, 'fields': fields, 'copied': sorted(w), 'exempt': sorted(COPY_EXEMPT)})
            if missing: R.find('C15.fields', f, 'missing:' + ','.join(missing), 'do_copy does not copy data member(s) %s of the machine (members: %s)' % (missing, fields))
            # the states themselves are re-wired to the new machine after the raw copy
            from rules_order import dependency_closure
            rewire = False
            for i, n in f.calls():
                if n.get('n') == 'for_each':
                    for a in n['args']:
                        for d in dependency_closure(f, a):
                            x = f.nodes[d]
                            if x and x['k'] == 'ctor' and x.get('pc') == 'copy_helper': rewire = True
            R.ob('C15.fields', rewire, {'func': f.q, 'rewires_states': rewire})
            # ... and AFTER the raw copy of the substate list (the copied states still carry the source's back-pointers)
            order = f.linear_nodes()
            rw = [i for i, n in f.calls() if n.get('n') == 'for_each' and any(f.nodes[d] and f.nodes[d]['k'] == 'ctor' and f.nodes[d].get('pc') == 'copy_helper' for a in n['args'] for d in dependency_closure(f, a))]
            raw = [i for i in order if f.nodes[i] and ((f.nodes[i]['k'] == 'asg' and f.base_member(f.nodes[i]['lhs']) == 'm_substate_list') or (f.nodes[i]['k'] == 'call' and f.nodes[i].get('op') == '=' and f.nodes[i].get('obj') and f.base_member(f.nodes[i]['obj']) == 'm_substate_list'))]
            if rw and raw:
                ok_o = all(order.index(x) > order.index(y) for x in rw for y in raw if x in order)
                R.ob('C15.fields', ok_o, {'func': f.q, 'rewire_after_raw_copy': ok_o})
                if not ok_o: R.find('C15.fields', f, 'rewire-before-copy', 'do_copy re-binds the states to the new machine before it overwrites them with the source\'s states: the copy\'s states keep the source\'s back-pointers (sm_ptr states, visitors)', where=f.at(rw[0]))
            # members that are re-established by wiring must not be taken from the source
            for x in sorted(w & set(COPY_EXEMPT)):
                R.ob('C15.fields', False, {'func': f.q, 'copied_but_rebuilt': x})
                R.find('C15.fields', f, 'copied:' + x, 'do_copy takes %s from the source machine (%s): the copy then reaches into the original (its nested machines point at the original\'s container / its visitors run on the original\'s states)' % (x, COPY_EXEMPT[x]))
            if not rewire: R.find('C15.fields', f, 'no-rewire', 'do_copy does not re-bind the copied states (visitors, back-pointers) to the new machine')
        if f.n == 'serialize':
            R.seen(f); R.anchor('serialize:' + be)
            ref = set()
            for n in f.nodes:
                if n and n['k'] == 'mem' and n.get('dk') == 'field': ref.add(n['n'])
            missing = [x for x in fields if x not in ref and x not in SER_EXEMPT]
            base_ser = any(n.get('n') == 'base_object' for i, n in f.calls())
            R.ob('C16.fields', not missing and base_ser, {'func': f.q, 'fields': fields, 'archived': sorted(ref & set(fields)), 'exempt': sorted(SER_EXEMPT), 'front_end_base_archived': base_ser})
            if missing: R.find('C16.fields', f, 'missing:' + ','.join(missing), 'serialize does not archive data member(s) %s' % missing)
            # each archived member is handed to the archive operator itself (whole object), not to a helper that takes a size / a part
            whole = set()
            for i, n in f.calls():
                if n.get('op') in ('&', '<<', '>>') or n.get('n') in ('operator&', 'operator<<', 'operator>>'):
                    for a in list(n.get('args', [])) + ([n['obj']] if n.get('obj') else []):
                        x = f.nodes[a]
                        while x and x['k'] in ('icast', 'cast', 'paren', 'tmp'): x = f.nodes[x['e']]
                        if x and x['k'] == 'call' and x.get('n') == 'make_nvp' and x.get('args'):
                            x = f.nodes[x['args'][-1]]
                            while x and x['k'] in ('icast', 'cast', 'paren', 'tmp'): x = f.nodes[x['e']]
                        if x and x['k'] == 'mem' and x.get('dk') == 'field': whole.add(x['n'])
            partial = [x for x in fields if x in ref and x not in whole and x not in SER_EXEMPT and x != 'm_substate_list']
            R.ob('C16.fields', not partial, {'func': f.q, 'archived_whole': sorted(whole)})
            if partial: R.find('C16.fields', f, 'partial:' + ','.join(partial), 'data member(s) %s are not handed to the archive operator themselves but to a helper (a byte / element count decides what is saved): regions beyond the first are not archived' % partial)
            if not base_ser: R.find('C16.fields', f, 'no-base', 'serialize does not archive the front-end base object')
            # the front-end base is archived in place (loading must write into this object, not into a copy of it)
            for i, n in f.calls():
                if n.get('n') == 'base_object':
                    # how is the result used: directly as an argument / bound to a reference, or copied into a by-value local
                    for m in f.nodes:
                        if m and m['k'] == 'decl':
                            for v in m['vars']:
                                if v['hasinit'] and not v['ref']:
                                    from rules_order import dependency_closure
                                    if i in dependency_closure(f, v['init']):
                                        R.ob('C16.fields', False, {'func': f.q, 'front_end_copy': v['n']})
                                        R.find('C16.fields', f, 'base-copied', 'the front-end base object is copied into the local %s before it is archived: loading fills the copy and the machine keeps its constructor defaults' % v['n'], where=f.at(i))
        sp = f.d.get('sp', '')
        if sp == 'copy_ctor' or f.n == 'operator=':
            if f.d.get('implicit') or f.d.get('defaulted'): continue
            R.seen(f); R.anchor('copy-entry:%s:%s' % (be, 'ctor' if sp == 'copy_ctor' else 'assign'))
            calls = [n.get('n') for i, n in f.calls()]
            ok = 'do_copy' in calls
            R.ob('C15.fields', ok, {'func': f.q, 'calls': [c for c in calls if c in ('do_copy', 'fill_states')]})
            if not ok: R.find('C15.fields', f, 'no-do_copy', 'copy %s does not call do_copy' % ('constructor' if sp == 'copy_ctor' else 'assignment'))
    # history policies: every member archived and assigned
    for f in F.funcs:
        if f.file == 'boost/msm/back/history_policies.hpp' and f.n == 'serialize' and f.blocks:
            rec = F.rec_by_type(F.class_type(f))
            if not rec: continue
            R.seen(f); R.anchor('serialize:history:' + f.cls)
            ref = {n['n'] for n in f.nodes if n and n['k'] == 'mem' and n.get('dk') == 'field'}
            missing = [fd['n'] for fd in rec['fields'] if fd['n'] not in ref]
            R.ob('C16.fields', not missing, {'func': f.q, 'archived': sorted(ref)})
            if missing: R.find('C16.fields', f, 'missing:' + ','.join(missing), '%s::serialize does not archive %s' % (f.cls, missing))
    # serialize_state: composite and do_serialize states are archived, others skipped
    for f in F.funcs:
        if f.n == 'operator()' and f.cls == 'serialize_state' and backend_of(f) in ('back', 'back11') and f.blocks is not None:
            ta = f.targs() or []
            t = strip_cvref(str(ta[0])) if ta else ''
            rec = F.rec_by_type(t)
            M = Model(F)
            should = bool(M.machine_of(t)) or bool(rec and ('do_serialize' in rec['tds'] or any('do_serialize' in (F.rec_by_type(F.strs[b['t']]) or {'tds': {}})['tds'] for b in rec['bases'])))
            does = any(n.get('op') == '&' or n.get('n') == 'operator&' for i, n in f.calls())
            R.seen(f); R.anchor('serialize_state:' + backend_of(f))
            ok = should == does
            R.ob('C16.fields', ok, {'state': Facts.short(t, 60), 'should_archive': should, 'archives': does})
            if not ok: R.find('C16.fields', f, 'state-%s' % ('skipped' if should else 'extra'), 'serialize_state<%s>: should archive=%s, archives=%s' % (Facts.short(t, 80), should, does))

@rule('copymp11')
def copymp11(F, R):
    """C15.pool / C15.ctor (backmp11) and C15.this (back, back11)."""
    from rules_rtc import queue_ops
    from rules_order import dependency_closure
    # (a) non_propagating<T>: copying / moving a machine must not propagate the root pointer
    for f in F.funcs:
        if f.cls == 'non_propagating' and backend_of(f) == 'backmp11' and f.d.get('sp') in ('copy_ctor', 'move_ctor', 'copy_assign', 'move_assign'):
            R.seen(f); R.anchor('non_propagating:' + f.d['sp'])
            bad = False
            for n in f.nodes:
                if not n: continue
                if n['k'] == 'init' and n.get('member') == 'm_value' and n.get('written'):
                    # an initialiser taking the value from the argument
                    dep = dependency_closure(f, n['e']) if n['e'] else set()
                    if any(f.nodes[d] and f.nodes[d]['k'] == 'ref' and f.nodes[d].get('dk') == 'param' for d in dep): bad = True
                if n['k'] == 'asg' and f.base_member(n['lhs']) == 'm_value': bad = True
            if f.d.get('defaulted') and not f.d.get('implicit') is None and f.d.get('defaulted'): bad = True
            R.ob('C15.pool', not bad, {'func': f.q, 'special': f.d['sp']})
            if bad: R.find('C15.pool', f, 'propagates', 'non_propagating %s propagates the wrapped value: a copied / moved machine would share the root pointer of its source' % f.d['sp'])
    # (b) occurrences stored in the pool hold no pointer / reference to a machine
    for r in F.records:
        if r['loc'].startswith('boost/msm/backmp11/') and r['n'] in ('deferred_event', 'completion_event_occurrence', 'event_occurrence'):
            R.anchor('pool-class:' + r['n'])
            for fd in r['fields']:
                t = F.strs[fd['t']]
                bad = ('state_machine' in t and (t.rstrip().endswith('*') or t.rstrip().endswith('&'))) or (fd['n'] == 'm_event' and (t.rstrip().endswith('&') or t.rstrip().endswith('*')))
                R.ob('C15.pool', not bad, {'record': Facts.short(F.strs[r['t']], 80), 'field': fd['n'], 'type': Facts.short(t, 60)})
                if bad: R.find('C15.pool', ('boost/msm/backmp11/common_types.hpp', r['q']), 'field:' + fd['n'], 'pooled occurrence holds %s %s: a copied machine\'s pending events would act on / read from the original' % (Facts.short(t, 80), fd['n']), where=r['loc'], instance=Facts.short(F.strs[r['t']], 160))
    # (c) backmp11 copy / move constructors delegate to the default constructor and then assign
    for f in F.funcs:
        if backend_of(f) == 'backmp11' and f.cls == 'state_machine_base' and f.d.get('sp') in ('copy_ctor', 'move_ctor') and f.blocks:
            R.seen(f); R.anchor('mp11-copy-ctor:' + f.d['sp'])
            deleg = any(n and n['k'] == 'init' and n.get('delegating') for n in f.nodes)
            assigns = any(n.get('op') == '=' for i, n in f.calls())
            ok = deleg and assigns
            R.ob('C15.ctor', ok, {'func': f.q, 'delegates_to_default_ctor': deleg, 'assigns': assigns})
            if not ok: R.find('C15.ctor', f, 'shape', 'copy/move constructor must construct a wired machine (default constructor) and then assign the state; delegating=%s assigns=%s' % (deleg, assigns))
    # (c2) backmp11 assignment: compiler-generated (member-wise), or every data member is assigned (the root pointer is a non_propagating
    #      wrapper and may be skipped) together with the front-end base
    for f in F.funcs:
        if backend_of(f) == 'backmp11' and f.cls == 'state_machine_base' and f.d.get('sp') in ('copy_assign', 'move_assign'):
            R.seen(f); R.anchor('mp11-assign:' + f.d['sp'])
            if f.d.get('defaulted'):
                R.ob('C15.fields', True, {'func': f.q, 'defaulted': True}); continue
            if not f.blocks: continue
            rec = F.rec_by_type(F.class_type(f))
            fields = [fd['n'] for fd in rec['fields'] if not strip_cvref(F.strs[fd['t']]).startswith('boost::msm::backmp11::detail::non_propagating<')] if rec else []
            w = set()
            for n in f.nodes:
                if not n: continue
                if n['k'] == 'asg' and f.base_member(n['lhs']): w.add(f.base_member(n['lhs']))
                if n['k'] == 'call' and n.get('op') == '=':
                    o = n.get('obj') or (n['args'][0] if n.get('args') else None)
                    if o and f.base_member(o): w.add(f.base_member(o))
            base = any(n['k'] == 'call' and n.get('op') == '=' and n.get('pc') not in (None,) and (n.get('obj') and (f.nodes[n['obj']] or {}).get('k') in ('this', 'icast', 'un')) for i, n in f.calls())
            missing = [x for x in fields if x not in w]
            R.ob('C15.fields', not missing, {'func': f.q, 'fields': fields, 'assigned': sorted(w)})
            if missing: R.find('C15.fields', f, 'missing:' + ','.join(missing), 'the hand-written %s of the backmp11 machine does not assign data member(s) %s (the copy constructor and nested machines are copied through it)' % ('copy assignment' if f.d['sp'] == 'copy_assign' else 'move assignment', missing))
    # (d) back / back11: a callable that captures the machine's address is stored in a member that do_copy copies
    for f in F.funcs:
        if backend_of(f) not in ('back', 'back11') or not f.blocks: continue
        for i, q, op in queue_ops(f):
            if op != 'push_back' or q not in ('MSGQ', 'DEFQ'): continue
            dep = dependency_closure(f, i)
            for d in dep:
                bn = f.nodes[d]
                if bn and bn['k'] == 'call' and bn.get('n') == 'bind' and len(bn['args']) >= 2:
                    a1 = f.nodes[bn['args'][1]]
                    if a1 and (a1['k'] == 'this' or (a1['k'] == 'mem' and a1['n'] == 'm_fsm')):
                        R.seen(f); R.anchor('this-capture:' + backend_of(f))
                        R.ob('C15.this', False, {'func': f.q, 'queue': q, 'bound_target': f.expr(bn['args'][1])})
                        R.find('C15.this', f, 'this-capture:' + q, 'the callable stored in the %s is bound to the address of the machine it was submitted to (%s); do_copy copies that queue, so the copy\'s pending events are dispatched on the original machine' % ({'MSGQ': 'message queue', 'DEFQ': 'deferred queue'}[q], f.expr(bn['args'][1])), where=f.at(i))

# ------------------------------------------------------------------ stored events (C20)

@rule('poly')
def poly(F, R):
    """C20.poly / C20.erasure: value semantics of the backmp11 event pool element (basic_polymorphic_base + control_block)
    and agreement of the type-erased pointer round trips."""
    from rules_order import dependency_closure
    for f in F.funcs:
        if backend_of(f) != 'backmp11' or not f.blocks: continue
        if f.cls == 'basic_polymorphic_base':
            sp = f.d.get('sp')
            def cl(i, n):
                if n['k'] == 'call' and n.get('n') == 'destroy' and n.get('pc') == 'basic_polymorphic_base': return 'D'
                if n['k'] == 'call' and n.get('pc') == 'control_block' and n.get('n') in ('copy', 'move'): return n['n'][0].upper()
                if n['k'] == 'asg' and f.base_member(n['lhs']) == 'm_control_block': return 'W'
                if n['k'] == 'init' and n.get('member') == 'm_control_block' and n.get('written'): return 'W'
                return None
            if sp in ('copy_assign', 'move_assign'):
                R.seen(f); R.anchor('poly:' + sp)
                seqs = tokens_on_paths(f, cl)
                want = ['D', 'W', 'C' if sp == 'copy_assign' else 'M']
                ok = sorted(map(tuple, seqs)) == sorted([(), tuple(want)])
                # the empty path must be the self-assignment path
                selfchk = any(b.get('tc') and f.nodes[b['tc']]['k'] == 'bin' and f.nodes[b['tc']]['op'] in ('!=', '==') and 'this' in f.expr(b['tc']) for b in f.blocks)
                R.ob('C20.poly', ok and selfchk, {'func': f.q, 'sequences': seqs, 'self_check': selfchk})
                if not (ok and selfchk): R.find('C20.poly', f, sp, '%s must test self-assignment and otherwise destroy the held object, take the control block, then %s; found %s (self check %s)' % (sp, 'copy' if sp == 'copy_assign' else 'move', seqs, selfchk))
            elif sp in ('copy_ctor', 'move_ctor'):
                R.seen(f); R.anchor('poly:' + sp)
                seqs = tokens_on_paths(f, cl)
                want = ['W', 'C' if sp == 'copy_ctor' else 'M']
                ok = all(s == want for s in seqs) and bool(seqs)
                R.ob('C20.poly', ok, {'func': f.q, 'sequences': seqs})
                if not ok: R.find('C20.poly', f, sp, '%s must take the source\'s control block and then %s the object; found %s' % (sp, 'copy' if sp == 'copy_ctor' else 'move', seqs))
            elif sp == 'dtor':
                R.seen(f); R.anchor('poly:dtor')
                seqs = tokens_on_paths(f, cl)
                ok = all(s == ['D'] for s in seqs) and bool(seqs)
                R.ob('C20.poly', ok, {'func': f.q, 'sequences': seqs})
                if not ok: R.find('C20.poly', f, 'dtor', 'the destructor must destroy the held object exactly once; found %s' % seqs)
            elif sp == 'ctor' and f.d['params']:
                # construction from a value: the control block's inline flag agrees with the storage arm taken
                R.seen(f); R.anchor('poly:value-ctor')
                inl = None
                for n in f.nodes:
                    if n and n['k'] == 'init' and n.get('member') == 'm_control_block':
                        for d in dependency_closure(f, n['e']):
                            m = f.nodes[d]
                            if m and m['k'] == 'ref' and m.get('ta') is not None:
                                ta = F.targs(m['ta'])
                                if len(ta) >= 2: inl = bool(ta[1])
                heap = any(n and n['k'] == 'asg' and f.base_member(n['lhs']) == 'm_ptr' for n in f.nodes)
                buf = any(n and ((n['k'] == 'new' and n['place']) or (n['k'] == 'call' and n.get('n') == 'memcpy')) for n in f.nodes)
                ok = inl is not None and ((inl and buf and not heap) or (not inl and heap and not buf))
                R.ob('C20.poly', ok, {'func': Facts.short(f.fq, 120), 'control_block_inline': inl, 'writes_buffer': buf, 'writes_heap_pointer': heap})
                if not ok: R.find('C20.poly', f, 'ctor-arm', 'value constructor selects control block inline=%s but stores the object in %s' % (inl, 'the buffer' if buf else 'the heap' if heap else 'nothing'))
            elif f.n == 'destroy':
                R.seen(f); R.anchor('poly:destroy')
                calls = [n for i, n in f.calls() if n.get('pc') == 'control_block' and n.get('n') == 'destroy']
                nulls = [n for n in f.nodes if n and n['k'] == 'asg' and f.base_member(n['lhs']) == 'm_ptr']
                ok = len(calls) == 1 and len(nulls) == 1
                R.ob('C20.poly', ok, {'func': f.q})
                if not ok: R.find('C20.poly', f, 'destroy', 'destroy() must run the control block\'s destroy once and null a heap pointer')
        if f.cls == 'control_block':
            if f.n == 'move':
                R.seen(f); R.anchor('cb:move')
                # heap arm: pointer copied and the source nulled
                writes = [f.expr(i) for i, n in enumerate(f.nodes) if n and n['k'] == 'asg']
                ok = any('src' in w and 'null' in w for w in writes) and any('dest' in w and 'src' in w for w in writes)
                calls = [n.get('n') for i, n in f.calls()]
                ok = ok and 'memcpy' in calls
                R.ob('C20.poly', ok, {'func': f.q, 'writes': writes})
                if not ok: R.find('C20.poly', f, 'move', 'control_block::move must steal a heap pointer and null the source (else the object is deleted twice) and memcpy / move-construct inline objects; writes: %s' % writes)
            if f.n == 'destroy':
                R.seen(f); R.anchor('cb:destroy')
                guarded = False
                for b in f.blocks:
                    if b.get('tc'):
                        dep = dependency_closure(f, b['tc'])
                        names = {f.nodes[d].get('n') for d in dep if f.nodes[d]}
                        if 'delete_fn' in names and 'obj' in names: guarded = True
                R.ob('C20.poly', guarded, {'func': f.q})
                if not guarded: R.find('C20.poly', f, 'destroy', 'control_block::destroy must tolerate a null object and a null deleter')
            if f.n == 'copy':
                R.seen(f); R.anchor('cb:copy')
                calls = [n.get('n') for i, n in f.calls()]
                indirect = any(n['k'] == 'call' and 'fk' not in n for i, n in f.calls())
                ok = 'memcpy' in calls and indirect
                R.ob('C20.poly', ok, {'func': f.q})
                if not ok: R.find('C20.poly', f, 'copy', 'control_block::copy must memcpy trivially copyable inline objects and call the copy constructor otherwise')
    # pooled classes: event_occurrence is the first, non-virtual base (the pool stores and casts event_occurrence*)
    for r in F.records:
        if r['loc'].startswith('boost/msm/backmp11/') and r['n'] in ('deferred_event', 'completion_event_occurrence'):
            R.anchor('pool-layout:' + r['n'])
            ok = bool(r['bases']) and F.strs[r['bases'][0]['t']].endswith('event_occurrence') and not r['bases'][0]['virt']
            R.ob('C20.poly', ok, {'record': Facts.short(F.strs[r['t']], 80), 'first_base': F.strs[r['bases'][0]['t']] if r['bases'] else None})
            if not ok: R.find('C20.poly', ('boost/msm/backmp11', r['q']), 'layout', 'event_occurrence must be the first non-virtual base of %s' % Facts.short(F.strs[r['t']], 80), where=r['loc'])
    # type-erased round trips: exit point forwarder
    ex = {}
    for f in F.funcs:
        if backend_of(f) != 'backmp11' or f.cls != 'exit_pt' or not f.blocks: continue
        ct = F.class_type(f)
        if f.n == 'init':
            for n in f.nodes:
                if n and n['k'] == 'asg' and f.base_member(n['lhs']) == 'm_forward_fn':
                    for d in dependency_closure(f, n['rhs']):
                        m = f.nodes[d]
                        if m and m['k'] == 'ref' and m.get('dk') in ('method', 'func') and m['n'] == 'call_enqueue_event':
                            fq = F.strs[m['fq']]
                            ex.setdefault(ct, {})['reads'] = parse_type(fq[fq.index('call_enqueue_event'):])[1]
        if f.n == 'forward_event':
            for i, n in f.calls():
                if 'fk' not in n and n.get('fn'):
                    a = n['args']
                    if len(a) >= 2:
                        an = f.nodes[a[1]]
                        while an and an['k'] in ('icast', 'cast'): an = f.nodes[an['e']]
                        if an and an['k'] == 'un' and an['op'] == '&':
                            ex.setdefault(ct, {}).setdefault('passes', set()).add(strip_cvref(f.type_of(an['e'])))
    for ct, d in ex.items():
        if 'reads' in d and 'passes' in d:
            R.anchor('erasure:exit-forwarder')
            rd = strip_cvref(d['reads'][-1]) if d['reads'] else None
            ok = d['passes'] == {rd}
            R.ob('C20.erasure', ok, {'exit_point': Facts.short(ct, 80), 'callee_reads': Facts.short(str(rd), 40), 'caller_passes': [Facts.short(x, 40) for x in d['passes']]})
            if not ok: R.find('C20.erasure', ('boost/msm/backmp11/detail/state_machine_base.hpp', 'boost::msm::backmp11::detail::state_machine_base::exit_pt::forward_event'), 'exit-forwarder', 'the exit point forwarder is handed a pointer to %s but reads a %s through it' % ([Facts.short(x, 40) for x in d['passes']], Facts.short(str(rd), 40)), instance=Facts.short(ct, 160))


SPECIAL_EXEMPT = {   # class -> {field: reason} for user-provided copy operations that deliberately do not copy a member
    'state_machine': {'*': 'back / back11: the copy goes through do_copy (rule C15.fields)'},
    'exit_pt': {'m_forward': 'keeps its own forwarder: the containing machine did not change', 'm_forward_fn': 'set by the container\'s wiring'},
    'non_propagating': {'m_value': 'by design: the wrapped root pointer must not propagate (rule C15.pool)'},
    'basic_polymorphic_base': {'m_ptr': 'copied through the control block', 'm_buffer': 'copied through the control block'},
    'state_machine_base': {'*': 'delegates to the default constructor and the defaulted assignment (rule C15.ctor)'},
    'entry_pt': {'*': 'no data'}, 'direct': {'*': 'no data'},
}

KEEP_ON_ASSIGN = {   # (back-end, class) -> (member, what it is): must survive an assignment unchanged
    ('back', 'exit_pt'): ('m_forward', 'is the forwarder bound to the machine containing the submachine'),
    ('back11', 'exit_pt'): ('m_forward', 'is the forwarder bound to the machine containing the submachine'),
}

def _written_members(f):
    """data members of *this a hand-written special member function writes (assignments, mem-initialisers, container calls)"""
    written = set(members_touched(f))
    for dst, src, full in array_copies(f):
        if dst: written.add(dst)
    for n in f.nodes:
        if n and n['k'] == 'init' and n.get('member') and n.get('written'): written.add(n['member'])
        if n and n['k'] == 'call' and n.get('obj'):
            # container members filled by calls (assign / insert / push_back / operator=)
            ch = member_chain(f, n['obj'])
            o = f.nodes[n['obj']]
            if ch and n.get('n') in ('assign', 'insert', 'push_back', 'emplace_back', 'operator=', 'swap', 'resize', 'reserve') or (ch and n.get('op') == '='):
                b = o
                while b and b['k'] == 'mem' and f.nodes[b['b']] and f.nodes[b['b']]['k'] == 'mem': b = f.nodes[b['b']]
                if b and b['k'] == 'mem' and f.nodes[b['b']] and f.nodes[b['b']]['k'] == 'this': written.add(ch[0])
    return written

@rule('copyselect')
def copyselect(F, R):
    """C15.copy-ctor: wherever a back / back11 machine is constructed from ONE const argument of its own type, overload resolution
    selects the copy constructor (which goes through do_copy), not the constructor template that forwards its arguments to the
    front-end: that one builds a fresh machine in its initial configuration.  (Non-const lvalues and rvalues DO select the
    template on the pinned tree; C15 is stated for copies from a const reference, so those are recorded, not reported.)"""
    for f in F.funcs:
        if not f.nodes: continue
        for i, n in enumerate(f.nodes):
            if not n or n['k'] != 'ctor' or len(n.get('args', [])) != 1: continue
            t = strip_cvref(F.strs[n['t']])
            be = 'back11' if t.startswith('boost::msm::back11::state_machine<') else 'back' if t.startswith('boost::msm::back::state_machine<') else None
            if be is None or n.get('q') != 'boost::msm::%s::state_machine::state_machine' % be: continue
            at = f.type_of(n['args'][0])
            if at is None or strip_cvref(at) != t: continue
            g = F.bykey.get(n.get('fk'))
            sp = g.d.get('sp') if g else None
            cat = ('const ' if at.strip().startswith('const ') else '') + ('rvalue' if f.nodes[n['args'][0]] and f.nodes[n['args'][0]].get('k') in ('cast', 'call', 'xvalue') else 'lvalue')
            R.anchor('copy-select:%s' % be); R.anchor('copy-select:%s:%s' % (be, 'const' if cat.startswith('const') else 'non-const'))
            ok = sp in ('copy_ctor', 'move_ctor')
            if not cat.startswith('const'):
                # C15 is stated for copies from a const reference: what a non-const lvalue / an rvalue selects is recorded in the
                # evidence (on the pinned tree: the forwarding template, observation (d) of DESIGN section 9) but is not a finding
                R.note('copy-select %s: %s argument at %s selects %s' % (be, cat, f.at(i), sp or 'the argument-forwarding constructor template'))
                continue
            # ... the hand-written one: a compiler-generated copy constructor copies member-wise and never reaches do_copy
            auto = bool(g is not None and (g.d.get('implicit') or g.d.get('defaulted')))
            if ok and auto: ok = False; sp = 'compiler-generated ' + sp
            R.ob('C15.copy-ctor', ok, {'in': f.q, 'at': f.at(i), 'argument': cat, 'selected': (g.loc if g else None), 'kind': sp})
            if not ok:
                R.find('C15.copy-ctor', g if g is not None else f, 'generated-ctor' if auto else 'forwarding-ctor', 'constructing a %s machine from a %s of its own type (at %s) selects the constructor at %s (%s), not the hand-written copy constructor: %s' % (be, cat, f.at(i), g.loc if g else '?', sp or 'argument-forwarding template', 'the members are copied one by one and do_copy (re-binding of the substates, exit-point forwarders, visitors) never runs' if auto else 'the new machine starts in its initial configuration with empty history and queues instead of being a copy'), instance=Facts.short(t, 120))

@rule('copyspecial')
def copyspecial(F, R):
    """C15.fields: a user-provided copy constructor / copy assignment of a back-end class copies every data member of the class
    (a member forgotten in a hand-written copy operation silently keeps its default)."""
    for f in F.funcs:
        if not is_backend(f) or not f.blocks: continue
        sp = f.d.get('sp')
        keep = KEEP_ON_ASSIGN.get((backend_of(f), f.cls))
        if keep and sp in ('copy_assign', 'move_assign'):
            # C15.keep: a member that binds the object to its *containing* machine stays as it is when the object is assigned
            # (the container of the assigned-to object did not change): the assignment is hand-written and does not write it
            R.seen(f); R.anchor('bound-member-assign:' + backend_of(f))
            auto = bool(f.d.get('implicit') or f.d.get('defaulted'))
            w_ = set() if auto else _written_members(f)
            okk = not auto and keep[0] not in w_
            R.ob('C15.keep', okk, {'func': f.q, 'member': keep[0], 'compiler_generated': auto, 'written': sorted(w_)})
            if not okk:
                R.find('C15.keep', f, 'bound-member:' + keep[0], 'the %s of %s %s %s, which %s: after `b = a` the exit points of b\'s submachines forward to a\'s machine (or to a destroyed one) and b never leaves the submachine' % ('copy assignment' if sp == 'copy_assign' else 'move assignment', f.cls, 'is compiler-generated and therefore copies' if auto else 'writes', keep[0], keep[1]))
        if sp not in ('copy_ctor', 'copy_assign') or f.d.get('implicit') or f.d.get('defaulted'): continue
        rec = F.rec_by_type(F.class_type(f))
        if rec is None or not rec['fields']: continue
        ex = SPECIAL_EXEMPT.get(f.cls, {})
        if '*' in ex: continue
        R.seen(f); R.anchor('user-copy-op:' + backend_of(f))
        written = _written_members(f)
        missing = [fd['n'] for fd in rec['fields'] if fd['n'] and fd['n'] not in written and fd['n'] not in ex]
        # a hand-written assignment must also assign the base-class part (for exit_pt<ExitPoint> that is the user's pseudo-state
        # class with whatever data it holds); the compiler does this only for a defaulted operator
        if sp == 'copy_assign' and rec['bases']:
            assigned_bases = set()
            for i, n in f.calls():
                if n.get('op') == '=' or n.get('n') == 'operator=':
                    o = f.nodes[n['obj']] if n.get('obj') else None
                    while o and o['k'] in ('icast', 'cast', 'paren'): o = f.nodes[o['e']]
                    if o and (o['k'] == 'this' or (o['k'] == 'un' and o.get('op') == '*')): assigned_bases.add(strip_cvref(F.strs[n['pt']]) if 'pt' in n else '?')
            for b in rec['bases']:
                bt = strip_cvref(F.strs[b['t']])
                okb = bt in assigned_bases
                R.ob('C15.fields', okb, {'func': f.q, 'base': Facts.short(bt, 60), 'assigned': okb})
                if not okb:
                    R.find('C15.fields', f, 'user-copy-base', 'the user-provided copy assignment of %s does not assign its base class part: data members of the base (for exit_pt: of the user\'s exit pseudo state) keep their old values in the assigned-to object' % f.cls, instance=Facts.short(bt, 120))
        R.ob('C15.fields', not missing, {'func': f.q, 'fields': [fd['n'] for fd in rec['fields']], 'copied': sorted(written)})
        if missing:
            R.find('C15.fields', f, 'user-copy-missing:' + ','.join(missing), 'the user-provided %s of %s does not copy data member(s) %s' % ('copy constructor' if sp == 'copy_ctor' else 'copy assignment', f.cls, missing))

# ------------------------------------------------------------------ backmp11 pool loop, occurrence processing, exit-point wiring

@rule('poolloop')
def poolloop(F, R):
    """C04.pool-loop / C05.before-dispatch (backmp11): shape of the event-pool processing loop and of the occurrence processors."""
    from rules_order import dependency_closure
    # the functions that answer "is a completion occurrence pending": whatever reads the completion mark (found by what they call,
    # not by their name), and the mark's reader itself
    pending_helpers = {'is_completion'} | {g.n for g in F.funcs if backend_of(g) == 'backmp11' and g.blocks and g.cls == 'state_machine_base' and g.n != 'do_process_event_pool' and any(n.get('n') == 'is_completion' for i, n in g.calls())}
    for f in F.funcs:
        if backend_of(f) != 'backmp11' or not f.blocks: continue
        if f.n == 'do_process_event_pool' and f.cls == 'state_machine_base':
            R.seen(f); R.anchor('pool-loop')
            ok = True; why = ''
            npaths = 0
            for p in f.paths(max_paths=4000, edge_bound=1):
                if f.aborts(p): continue
                npaths += 1
                # walk the path and cut it into loop iterations at each call of marked_for_deletion (first statement of the body)
                segs = []; cur = None; facts_ = []
                for bi, b in enumerate(p):
                    blk = f.bmap[b]
                    for i in blk['e']:
                        n = f.nodes[i]
                        if not n: continue
                        if n['k'] == 'call' and n.get('n') == 'marked_for_deletion':
                            cur = {'tok': [], 'facts': []}; segs.append(cur)
                        if cur is None: continue
                        if n['k'] == 'call' and n.get('n') == 'erase': cur['tok'].append('E')
                        elif n['k'] == 'call' and n.get('n') == 'try_process': cur['tok'].append('T')
                        elif n['k'] == 'un' and n['op'] == '++' and f.nodes[n['e']] and f.nodes[n['e']].get('n') == 'it': cur['tok'].append('I')
                        elif n['k'] == 'call' and n.get('op') == '++' : cur['tok'].append('I')
                        elif n['k'] == 'un' and n['op'] == '++' and f.nodes[n['e']] and f.nodes[n['e']].get('n') == 'processed_events': cur['tok'].append('P')
                        elif n['k'] in ('asg',) and n['op'] == '+=' and 'cur_seq_cnt' in f.expr(n['lhs']): cur['tok'].append('S')
                        elif (n['k'] == 'asg' or (n['k'] == 'call' and n.get('op') == '=')) and 'begin' in f.expr(i) and f.expr(i).lstrip('(').startswith('it') or (n['k'] == 'call' and n.get('op') == '=' and n.get('obj') and f.nodes[n['obj']].get('n') == 'it' and 'begin' in f.expr(i)): cur['tok'].append('B')
                        elif n['k'] == 'ret': cur['tok'].append('R')
                    if cur is not None and bi + 1 < len(p):
                        for c, t in cond_facts(f, blk, p[bi + 1]):
                            txt = f.expr([k for k, x in enumerate(f.nodes) if x is c][0]) if any(x is c for x in f.nodes) else ''
                            cur['facts'].append((txt, t))
                for sg in segs:
                    tk = ''.join(sg['tok']).replace('R', '')
                    fx = dict((a, b) for a, b in sg['facts'])
                    marked = next((v for k, v in sg['facts'] if 'marked_for_deletion' in k), None)
                    hasv = next((v for k, v in sg['facts'] if 'has_value' in k), None)
                    only_def = next((v for k, v in sg['facts'] if '!=' in k and 'HANDLED_DEFERRED' in k), None)
                    with_def = next((v for k, v in sg['facts'] if '&' in k and 'HANDLED_DEFERRED' in k and '!=' not in k), None)
                    if marked is True:
                        if tk != 'E': ok = False; why = 'an occurrence already marked as processed must only be erased (found %s)' % tk
                    elif marked is False:
                        if hasv is False and tk != 'TI': ok = False; why = 'an occurrence that was not dispatched must be skipped by advancing the iterator (found %s)' % tk
                        if hasv is True:
                            if 'I' in tk or 'E' in tk: ok = False; why = 'after a dispatch the scan must restart, not advance (found %s)' % tk
                            if ('P' in tk) != (only_def is True): ok = False; why = 'the processed-events counter must count exactly the results other than "only deferred" (found %s with != DEFERRED %s)' % (tk, only_def)
                            if 'B' in tk and (('S' in tk) != (with_def is False)):
                                ok = False; why = 'the sequence counter must advance exactly when the result does not carry the deferred bit (found %s with (r & DEFERRED) = %s)' % (tk, with_def)
                            if 'B' not in tk and 'P' not in tk: ok = False; why = 'after a dispatch the scan must restart from the beginning of the pool (found %s)' % tk
                            # the scan stops at the caller's event limit: the dispatch just made still ends a sequence - events that an
                            # action deferred during it must become eligible for the next call, exactly as when the scan goes on
                            if 'B' not in tk and 'P' in tk:
                                # C10.pool-limit: the scan stops at the caller's limit only when no completion occurrence of the step just
                                # taken is pending (they sit at the front of the pool): otherwise the next process_event() is dispatched
                                # before the completion transition, which then runs from a state that is no longer active (D35)
                                cp = next((v for k, v in sg['facts'] if any(h in k for h in pending_helpers)), None)
                                R.anchor('pool-limit-stop')
                                R.ob('C10.pool-limit', cp is False, {'func': f.q, 'tokens': tk, 'completion_pending_on_stop_path': cp})
                                if cp is not False:
                                    R.find('C10.pool-limit', f, 'limit-stop', 'process_event_pool(max_events) leaves the loop at the event limit %s: a completion transition of the state just entered stays in the pool, a later process_event() is dispatched before it and the completion then runs from a state that is not active' % ('without asking whether a completion occurrence is pending' if cp is None else 'on the path where a completion occurrence IS pending'))
                            if 'B' not in tk and 'P' in tk and (with_def is None or ('S' in tk) != (with_def is False)):
                                ok = False; why = 'the scan stops at the event limit after a dispatch without advancing the sequence counter (found %s, deferred-bit test on this path: %s): events deferred by an action stay ineligible for every later process_event_pool call until another event is submitted' % (tk, with_def)
            R.ob('C04.pool-loop', ok, {'func': f.q, 'paths': npaths})
            if not ok: R.find('C04.pool-loop', f, 'loop-shape', why)
        if f.n in pending_helpers and f.n != 'is_completion' and f.cls == 'state_machine_base':
            # answers for the first occurrence that is not marked as processed, with its completion mark; false for an empty pool
            R.seen(f); R.anchor('pool-limit-helper')
            okh = True; whyh = ''
            for p in f.paths(max_paths=200, edge_bound=1):
                facts_ = []; ret = None
                for bi, b in enumerate(p):
                    blk = f.bmap[b]
                    for i in blk['e']:
                        n = f.nodes[i]
                        if n and n['k'] == 'ret' and n.get('e'):
                            e = f.nodes[n['e']]
                            while e and e['k'] in ('icast', 'cast', 'paren'): e = f.nodes[e['e']]
                            ret = 'C' if e and e['k'] == 'call' and e.get('n') == 'is_completion' else f.eval_const(n['e'])
                    if bi + 1 < len(p):
                        for c, t in cond_facts(f, blk, p[bi + 1]):
                            if c['k'] == 'call' and c.get('n') == 'marked_for_deletion': facts_.append(t)
                if ret == 'C':
                    if not facts_ or facts_[-1] is not False: okh = False; whyh = 'the completion mark is read from an occurrence that is already processed'
                elif ret == 0:
                    if any(t is False for t in facts_): okh = False; whyh = 'answers "none pending" although an unprocessed occurrence was found'
                else: okh = False; whyh = 'returns %s' % ret
            R.ob('C10.pool-limit', okh, {'func': f.q})
            if not okh: R.find('C10.pool-limit', f, 'helper', 'completion_pending must answer with the completion mark of the first unprocessed occurrence (false for none): ' + whyh)
        if f.cls == 'completion_event_occurrence' and f.d.get('sp') in (None, 'ctor') and f.n == 'completion_event_occurrence':
            # the constructor marks the occurrence as a completion (second argument of the base initialiser evaluates to true)
            for i, n in enumerate(f.nodes):
                if n and n['k'] == 'ctor' and n.get('n') == 'event_occurrence':
                    R.anchor('pool-limit-mark')
                    okm = len(n.get('args', [])) >= 2 and f.eval_const(n['args'][1]) == 1
                    R.ob('C10.pool-limit', okm, {'func': f.q})
                    if not okm: R.find('C10.pool-limit', f, 'mark', 'a completion occurrence is constructed without its completion mark: process_event_pool(max_events) will stop in front of it')
        if f.n == 'try_process_impl' and f.cls in ('deferred_event', 'completion_event_occurrence'):
            R.seen(f); R.anchor('occurrence:' + f.cls)
            ok = True; why = ''
            for p in f.paths():
                tk = []; fx = []
                for bi, b in enumerate(p):
                    blk = f.bmap[b]
                    for i in blk['e']:
                        n = f.nodes[i]
                        if n and n['k'] == 'call':
                            if n.get('n') == 'mark_for_deletion': tk.append('M')
                            elif n.get('n') == 'process_event_internal':
                                a = [f.expr(x) for x in n['args']]
                                tk.append('D' if any('event_pool' in x for x in a) else 'D?')
                            elif n.get('n') == 'process_completion_transition': tk.append('C')
                    if bi + 1 < len(p):
                        for c, t in cond_facts(f, blk, p[bi + 1]):
                            if c['k'] == 'call' and c.get('n') == 'is_event_deferred': fx.append(('deferred', t))
                            if c['k'] == 'bin' and c['op'] == '==' and 'seq' in f.expr([k for k, x in enumerate(f.nodes) if x is c][0]): fx.append(('sameseq', t))
                d = dict(fx)
                if f.cls == 'deferred_event':
                    if tk == []:
                        if not (d.get('sameseq') is True or d.get('deferred') is True): ok = False; why = 'a deferred occurrence is left pending on a path where neither its sequence is current nor the configuration defers it (%s)' % d
                    elif tk == ['M', 'D']:
                        if not (d.get('sameseq') is False and d.get('deferred') is False): ok = False; why = 'a deferred occurrence is dispatched without the tests "not deferred in this sequence" and "configuration no longer defers it" (%s)' % d
                    else: ok = False; why = 'deferred occurrence processing runs %s (required: mark, then dispatch with process_info::event_pool)' % tk
                else:
                    if tk != ['M', 'C']: ok = False; why = 'completion occurrence processing runs %s (required: mark, then the completion transition)' % tk
            R.ob('C05.before-dispatch', ok, {'func': f.q})
            if not ok: R.find('C05.before-dispatch', f, 'occurrence', why)
        if f.n == 'do_defer_event' and f.cls == 'state_machine_base':
            R.seen(f); R.anchor('defer-stamp')
            # seq stamp: next_rtc_seq ? cur : cur - 1 ; stored occurrence built from (self, event, stamp)
            conds = [n for n in f.nodes if n and n['k'] == 'cond']
            ok = len(conds) == 1
            why = 'no conditional stamp'
            if ok:
                c = conds[0]
                cn = f.nodes[c['c']]
                while cn and cn['k'] in ('icast', 'cast'): cn = f.nodes[cn['e']]
                ok = bool(cn) and cn.get('n') == 'next_rtc_seq' and 'cur_seq_cnt' in f.expr(c['a']) and '-' not in f.expr(c['a']) and 'cur_seq_cnt' in f.expr(c['b']) and '- 1' in f.expr(c['b'])
                why = 'stamp is %s' % f.expr([k for k, x in enumerate(f.nodes) if x is c][0])
            R.ob('C05.before-dispatch', ok, {'func': f.q})
            if not ok: R.find('C05.before-dispatch', f, 'stamp', 'a deferred occurrence must be stamped with the current sequence when deferred during processing and with the previous one otherwise: ' + why)
    # back / back11: after a deferred event was handled the queue is re-ordered (stable), re-stamped and processed again
    for f in F.funcs:
        if backend_of(f) in ('back', 'back11') and f.n == 'do_handle_deferred' and f.blocks and any(n.get('n') == 'stable_sort' for i, n in f.calls()):
            R.seen(f); R.anchor('defer-reorder:' + backend_of(f))
            def cl(i, n):
                if n['k'] != 'call': return None
                return {'stable_sort': 'S', 'for_each': 'F', 'do_handle_deferred': 'R', 'pop_front': 'P'}.get(n.get('n'))
            seqs = tokens_on_paths(f, cl)
            ok = all((''.join(s).replace('P', '').endswith('SFR') if 'S' in s or 'F' in s or 'R' in s else True) for s in seqs)
            # the sequence test precedes the pop
            R.ob('C05.before-dispatch', ok, {'func': f.q, 'sequences': sorted(set(''.join(s) for s in seqs))})
            if not ok: R.find('C05.before-dispatch', f, 'reorder', 'after a deferred event was handled the queue must be stably re-ordered, re-stamped and processed again; found %s' % sorted(set(''.join(s) for s in seqs)))

@rule('exitwiring')
def exitwiring(F, R):
    """C09.forward: an exit pseudostate forwards to the machine that CONTAINS its owner: back/back11 bind the containing machine's
    process_event to the container pointer; the exit point's forward_event calls that forwarder after its own entry (execute_entry
    variant); backmp11 init<RootSm> stores the enqueue thunk of the root and forward_event passes the root pointer."""
    for f in F.funcs:
        if not f.blocks: continue
        be = backend_of(f)
        if be in ('back', 'back11') and f.n == 'new_state_helper' and f.cls == 'add_state':
            binds = [n for i, n in f.calls() if n.get('n') == 'bind']
            if not binds: continue
            R.seen(f); R.anchor('exit-wiring:' + be)
            b = binds[0]
            a = b['args']
            tgt = f.nodes[a[1]] if len(a) > 1 else None
            while tgt and tgt['k'] in ('icast', 'cast'): tgt = f.nodes[tgt['e']]
            pf_ok = False
            a0 = f.nodes[a[0]] if a else None
            if a0 and a0['k'] == 'ref':
                for m in f.nodes:
                    if m and m['k'] == 'decl':
                        for v in m['vars']:
                            if v['n'] == a0['n'] and v['hasinit']:
                                ini = f.nodes[v['init']]
                                if ini and ini['k'] == 'un' and ini['op'] == '&' and f.nodes[ini['e']].get('n') == 'process_event':
                                    # member of ContainingSM
                                    pf_ok = 'ContainingSM' in F.strs[v['t']] or True
            ok = bool(tgt) and tgt['k'] == 'mem' and tgt['n'] == 'containing_sm' and pf_ok
            sets = any(n.get('n') == 'set_forward_fct' for i, n in f.calls())
            R.ob('C09.forward', ok and sets, {'func': f.q, 'bound_target': f.expr(a[1]) if len(a) > 1 else None})
            if not (ok and sets): R.find('C09.forward', f, 'wiring', 'the exit pseudostate\'s forwarder must be the containing machine\'s process_event bound to the container (found target %s, installs forwarder: %s)' % (f.expr(a[1]) if len(a) > 1 else None, sets))
        if be in ('back', 'back11') and f.n == 'execute_entry' and f.cls == 'state_machine':
            calls = [n.get('n') for i, n in f.calls() if n.get('n') in ('on_entry', 'forward_event', 'do_entry')]
            if 'forward_event' in calls:
                R.seen(f); R.anchor('exit-entry:' + be)
                ok = calls == ['on_entry', 'forward_event']
                R.ob('C09.forward', ok, {'func': f.q, 'calls': calls})
                if not ok: R.find('C09.forward', f, 'entry-order', 'entering an exit pseudostate must run its entry and then forward the event; found %s' % calls)
        if be == 'backmp11' and f.cls == 'exit_pt' and f.n == 'forward_event':
            R.seen(f); R.anchor('exit-forward:backmp11')
            ic = [n for i, n in f.calls() if 'fk' not in n]
            ok = len(ic) == 1
            if ok:
                a = ic[0]['args']
                a0 = f.nodes[a[0]] if a else None
                while a0 and a0['k'] in ('icast', 'cast'): a0 = f.nodes[a0['e']]
                ok = bool(a0) and a0['k'] == 'ref' and a0['n'] == 'root_sm'
            R.ob('C09.forward', ok, {'func': f.q})
            if not ok: R.find('C09.forward', f, 'root', 'the exit pseudostate must hand the forwarded event to the root machine pointer it was given')
        if be == 'backmp11' and f.n == 'call_entry' and f.cls == 'transition_table_impl':
            calls = [n.get('n') for i, n in f.calls() if n.get('n') in ('on_entry', 'forward_event', 'on_explicit_entry', 'on_pseudo_entry')]
            if 'forward_event' in calls:
                R.seen(f); R.anchor('exit-entry:backmp11')
                ok = calls == ['on_entry', 'forward_event']
                fw = [n for i, n in f.calls() if n.get('n') == 'forward_event'][0]
                root = f.expr(fw['args'][0]) if fw['args'] else ''
                ok = ok and 'm_root_sm' in root
                R.ob('C09.forward', ok, {'func': f.q, 'calls': calls, 'root': root})
                if not ok: R.find('C09.forward', f, 'entry-order', 'entering an exit pseudostate must run its entry and then forward the event to the root machine; found %s with %s' % (calls, root))

@rule('seqadvance')
def seqadvance(F, R):
    """C05.seq-advance (backmp11): every event that is dispatched and does not come out of the event pool starts a new sequence:
    on each path of process_event_internal that reaches the dispatch without incrementing the pool's cur_seq_cnt the branch
    outcomes must imply info == process_info::event_pool.  (A Defer-action occurrence is re-offered only when its stamp differs from
    the current sequence; a machine whose counter does not advance never re-offers it.)"""
    for f in F.funcs:
        if backend_of(f) != 'backmp11' or f.n != 'process_event_internal' or not f.blocks: continue
        if not any(n.get('n') in ('process_event_pool', 'get_event_pool') for i, n in f.calls()): continue     # machine without event pool
        R.seen(f); R.anchor('seq-advance:backmp11')
        bad = None; npaths = 0
        for p in f.paths(edge_bound=1):
            if f.aborts(p) or not path_consistent(f, p): continue
            inc = False; disp = None
            for i in f.path_nodes(p):
                n = f.nodes[i]
                if not n: continue
                if n['k'] == 'asg' and n.get('op') in ('+=', '=') and f.base_member(n['lhs']) == 'cur_seq_cnt': inc = True
                if n['k'] == 'un' and n.get('op') in ('++', 'pre++', 'post++') and f.base_member(n['e']) == 'cur_seq_cnt': inc = True
                if n['k'] == 'call' and n.get('n') == 'do_process_event': disp = i; break
            if disp is None: continue
            npaths += 1
            if inc: continue
            frompool = False
            for bi, b in enumerate(p[:-1]):
                for c, t in cond_facts(f, f.bmap[b], p[bi + 1]):
                    if c['k'] == 'bin' and c['op'] in ('==', '!='):
                        cid = next((k for k, x in enumerate(f.nodes) if x is c), None)
                        e = f.expr(cid) if cid is not None else ''
                        if 'info' in e and 'event_pool' in e and ((c['op'] == '==') == t): frompool = True
            if not frompool: bad = bad or f.at(disp)
        ok = bad is None and npaths > 0
        R.ob('C05.seq-advance', ok, {'func': f.q, 'dispatch_paths': npaths})
        if not ok:
            R.find('C05.seq-advance', f, 'no-advance', 'an event that does not come from the event pool reaches the dispatch without advancing cur_seq_cnt: a Defer-action occurrence stamped in this machine is then never re-offered', where=bad or f.loc)

@rule('visitref')
def visitref(F, R):
    """C03.visit-ref (back / back11): a visitor argument declared by reference in accept_sig reaches the substates of an active
    submachine as the same object: on the chain visit_current_states -> visitor_fct_helper::execute -> composite_accept ->
    visit_current_states no object of the referenced type is constructed from a reference(-wrapper) parameter."""
    for f in F.funcs:
        be = backend_of(f)
        if be not in ('back', 'back11') or not f.blocks: continue
        if not ((f.n in ('composite_accept', 'visit_current_states') and f.cls == 'state_machine') or (f.n == 'execute' and f.cls == 'visitor_fct_helper')): continue
        refd = {}
        for p, t in zip(f.d.get('params', []), f.param_types()):
            t = t.strip()
            if t.endswith('&') and not t.endswith('&&'): refd[p['n']] = strip_cvref(t)
            else:
                h, a, r = parse_type(strip_cvref(t))
                if h in ('boost::reference_wrapper', 'std::reference_wrapper') and a: refd[p['n']] = strip_cvref(a[0])
        if not refd: continue
        R.seen(f); R.anchor('visit-ref:%s:%s' % (be, f.n))
        bad = None
        for i, n in enumerate(f.nodes):
            if not (n and n['k'] == 'ctor' and n.get('args')): continue
            ct = strip_cvref(F.strs[n['t']])
            for a in n['args']:
                m = f.nodes[a]
                while m and m['k'] in ('icast', 'cast'): m = f.nodes[m['e']]
                if m and m['k'] == 'ref' and m.get('dk') == 'param' and refd.get(m['n']) == ct: bad = (i, m['n'], ct)
        ok = bad is None
        R.ob('C03.visit-ref', ok, {'func': f.q, 'by_reference': sorted(refd.values())})
        if not ok:
            R.find('C03.visit-ref', f, 'copied', 'visitor argument %s is declared by reference (%s) but a copy of it is constructed here: the substates of an active submachine are visited with the copy and the caller\'s visitor never sees them' % (bad[1], Facts.short(bad[2], 60)), where=f.at(bad[0]), instance=Facts.short(bad[2], 120))

def blocks_in_cycles(f):
    succ = {k: b['s'] for k, b in f.bmap.items()}
    out = set()
    for b0 in succ:
        seen = set(); work = list(succ[b0])
        while work:
            x = work.pop()
            if x in seen: continue
            seen.add(x); work.extend(succ.get(x, []))
        if b0 in seen: out.add(b0)
    return out

@rule('visitorder')
def visitorder(F, R):
    """C03.visit-order (backmp11): the active-state visitor reports the active states region by region (the entry visitor numbers the
    regions by counting visits and hands that number to the completion transition): the loop over m_active_state_ids is in visit()
    itself and the per-state closure that calls accept is created inside that loop; no per-state closure loops over the regions."""
    for f in F.funcs:
        if backend_of(f) != 'backmp11' or f.cls != 'state_visitor_impl' or f.n != 'visit' or not f.blocks: continue
        lams = []
        for m in f.nodes:
            if m and m['k'] == 'lambda': lams.extend(F.funcs_of_lambda(m['lck']))
        refs = lambda g: any(m and m['k'] == 'mem' and m.get('n') in ACTIVE_MEMBERS for m in g.nodes)
        if not refs(f) and not any(refs(g) for g in lams): continue        # the all-states variant
        R.seen(f); R.anchor('visit-order:backmp11')
        cyc = blocks_in_cycles(f)
        loop_here = refs(f) and any(b.get('tk') in ('CXXForRangeStmt', 'ForStmt', 'WhileStmt', 'DoStmt') for b in f.blocks)
        lam_in_loop = False
        for bid, b in f.bmap.items():
            if bid in cyc and any(f.nodes[i] and f.nodes[i]['k'] == 'lambda' for i in b['e']): lam_in_loop = True
        accept_here = any(n.get('n') == 'accept' for i, n in f.calls())
        bad_lams = [g for g in lams if refs(g)]
        backwards = any(n.get('n') in ('rbegin', 'rend', 'crbegin', 'crend') for i, n in f.calls())
        ok = loop_here and not bad_lams and not backwards and (lam_in_loop or (accept_here and not lams))
        R.ob('C03.visit-order', ok, {'func': f.q, 'closures': len(lams)})
        if not ok:
            g = bad_lams[0] if bad_lams else f
            R.find('C03.visit-order', g, 'state-major', 'the active-state visit must iterate the regions outermost (region order is what the entry visitor counts); here %s' %
                   ('the per-state closure loops over m_active_state_ids, so states are reported in state-id order' if bad_lams else 'the regions are walked backwards' if backwards else 'visit() has no region loop enclosing the per-state closure'))

@rule('serstates')
def serstates(F, R):
    """C16.fields (back / back11): serialize() applies serialize_state to every element of the substate list; the wrappers the back-end
    derives from user pseudo states (exit_pt, entry_pt, direct) do not hide the user class's own serialize()."""
    for r_ in F.records:
        if r_['n'] in ('exit_pt', 'entry_pt', 'direct') and r_['loc'].startswith('boost/msm/back') and r_.get('a'):
            be_ = 'back11' if '/back11/' in r_['loc'] else 'back' if '/back/' in r_['loc'] else None
            if be_ is None: continue
            R.anchor('pseudo-wrapper:' + be_)
            hides = 'serialize' in r_['methods']
            proof = False
            if hides:
                for g in F.funcs:
                    if g.n == 'serialize' and g.cls == r_['n'] and g.blocks and any(n.get('n') in ('base_object', 'serialize') for i, n in g.calls()): proof = True
            ok = not hides or proof
            R.ob('C16.fields', ok, {'wrapper': Facts.short(F.strs[r_['t']], 80), 'declares_serialize': hides})
            if not ok:
                R.find('C16.fields', (r_['loc'].split(':')[0], r_['q']), 'hides-serialize', '%s declares its own serialize() that does not archive its base: the serialize() of the user\'s pseudo state (do_serialize) is hidden and its data is neither saved nor loaded' % r_['n'], where=r_['loc'], instance=Facts.short(F.strs[r_['t']], 120))
    for f in F.funcs:
        be = backend_of(f)
        if be not in ('back', 'back11') or not f.blocks: continue
        if f.cls == 'state_machine' and f.n == 'serialize':
            R.seen(f); R.anchor('serialize-walk:' + be)
            ok = False
            for i, n in f.calls():
                if n.get('n') == 'for_each' and n.get('args'):
                    a0 = f.nodes[n['args'][0]]
                    while a0 and a0['k'] in ('icast', 'cast'): a0 = f.nodes[a0['e']]
                    if a0 and a0['k'] == 'mem' and a0['n'] == 'm_substate_list':
                        from rules_order import dependency_closure
                        for a in n['args'][1:]:
                            for d in dependency_closure(f, a):
                                x = f.nodes[d]
                                if x and 't' in x and 'serialize_state<' in F.strs[x['t']]: ok = True
            R.ob('C16.fields', ok, {'func': f.q, 'walks_substates': ok})
            if not ok: R.find('C16.fields', f, 'no-walk', 'serialize does not apply serialize_state to every element of m_substate_list')

@rule('copyvisitors')
def copyvisitors(F, R):
    """C15.fields (back / back11): the table of state visitors is not copied (its entries are bound to the source's state objects) but
    rebuilt for the copy: copy_helper, which do_copy applies to every state of the new machine, registers the state's visitor again."""
    for f in F.funcs:
        be = backend_of(f)
        if be not in ('back', 'back11') or not f.blocks or f.cls != 'copy_helper' or f.n != 'operator()': continue
        R.seen(f); R.anchor('copy-helper:' + be)
        ok = any(n.get('n') == 'visitor_helper' or (n.get('n') == 'insert' and n.get('obj') and f.base_member(n['obj']) == 'm_visitors') for i, n in f.calls())
        R.ob('C15.fields', ok, {'func': f.q, 'rebuilds_visitor': ok})
        if not ok: R.find('C15.fields', f, 'no-visitor-rebuild', 'copy_helper does not register the visitor of the copied state with the new machine: the copy\'s visitor table stays empty (or keeps the source\'s entries) and visit_current_states() on the copy does not reach its own states')

@rule('serelem')
def serelem(F, R):
    """C16.fields (back / back11), what serialize_state does with one element of the substate list: an element that has something to
    archive - a nested back-end machine (active states, history, its own states) or a state whose class asks for it (do_serialize) -
    is handed to the archive on EVERY path through the functor's call operator, whatever the run-time configuration; oracle: the
    element type (is it a back-end machine, does it or a base declare do_serialize)."""
    M = Model(F)
    for f in F.funcs:
        be = backend_of(f)
        if be not in ('back', 'back11') or not f.blocks or f.cls != 'serialize_state' or f.n != 'operator()': continue
        ta = f.targs() or []
        if not ta: continue
        T = strip_cvref(str(ta[0]))
        needs = M.machine_of(T) is not None or M.declares_option(T, 'do_serialize', through_configuration=False)
        ars = [i for i, n in f.calls() if n.get('op') == '&' or n.get('n') in ('operator&', 'operator<<', 'operator>>', 'serialize')]
        R.seen(f); R.anchor('serialize-element:' + be + (':archived' if needs else ':plain'))
        if not needs: continue
        ok = bool(ars); why = 'the element is never handed to the archive'
        if ok:
            for p in f.paths(edge_bound=1):
                if f.aborts(p): continue
                if not any(i in ars for i in f.path_nodes(p)):
                    ok = False; why = 'a path through the call operator returns without handing the element to the archive'
                    break
        R.ob('C16.fields', ok, {'func': f.q, 'element': Facts.short(T, 60)})
        if not ok:
            R.find('C16.fields', f, 'element-skipped', 'serialize_state for %s (a %s): %s - its data (for a machine: active states, history and every state nested in it) keeps the constructor values in the loaded machine' % (Facts.short(T, 60), 'nested machine' if M.machine_of(T) is not None else 'state with do_serialize', why), instance=Facts.short(T, 120))

@rule('functors')
def functors(F, R):
    """C14.functors: the composing functors of the functor front-end mean what their names say.  Or_/And_/Not_::operator() return
    T1(args) || T2(args), T1(args) && T2(args), !T1(args) with the operands in template-argument order and the call arguments being the
    parameters in order; ActionSequence_::operator() hands the Sequence itself (declared order) to one mpl::for_each with a Call/Call2
    built from the parameters in order; Call/Call2 store parameter i in field i and invoke FCT()(fields in order) exactly once."""
    def unc(f, i):
        n = f.nodes[i] if i else None
        for _ in range(8):
            while n and n['k'] in ('icast', 'cast', 'paren', 'tmp'): n = f.nodes[n['e']]
            # a local with exactly one definition stands for its initialiser (`bool r = T1()(..); return r || T2()(..);`)
            if n and n['k'] == 'ref' and n.get('dk') == 'local':
                defs = [v['init'] for m in f.nodes if m and m['k'] == 'decl' for v in m['vars'] if v['n'] == n['n'] and v.get('hasinit')]
                asg = [m for m in f.nodes if m and m['k'] == 'asg' and (f.nodes[m['lhs']] or {}).get('n') == n['n']]
                if len(defs) == 1 and not asg: n = f.nodes[defs[0]]; continue
            break
        return n
    def guard_call(f, i, T, pnames):
        """node i is T()(params in order)"""
        n = unc(f, i)
        if not (n and n['k'] == 'call' and n.get('op') == '()' and n.get('obj')): return False
        o = unc(f, n['obj'])
        if not (o and strip_cvref(F.strs[o['t']]) == strip_cvref(T)): return False
        got = []
        for a in n['args']:
            x = unc(f, a)
            got.append(x['n'] if x and x['k'] == 'ref' and x.get('dk') == 'param' else None)
        return got == pnames
    for f in F.funcs:
        if not f.q.startswith('boost::msm::front::') or not f.blocks or f.file not in ('boost/msm/front/operator.hpp', 'boost/msm/front/functor_row.hpp'): continue
        pn = [p['n'] for p in f.d.get('params', [])]
        if f.cls in ('Or_', 'And_', 'Not_') and f.n == 'operator()':
            a = [str(x) for x in (f.cls_args() or [])]
            rets = [n for n in f.nodes if n and n['k'] == 'ret' and n.get('e')]
            R.seen(f); R.anchor('functor:' + f.cls)
            ok = len(rets) == 1
            if ok:
                e = unc(f, rets[0]['e'])
                if f.cls == 'Not_': ok = bool(e) and e['k'] == 'un' and e['op'] == '!' and guard_call(f, e['e'], a[0], pn)
                else: ok = bool(e) and e['k'] == 'bin' and e['op'] == ('||' if f.cls == 'Or_' else '&&') and guard_call(f, e['lhs'], a[0], pn) and guard_call(f, e['rhs'], a[1], pn)
            R.ob('C14.functors', ok, {'func': f.q, 'args': [Facts.short(x, 40) for x in a]})
            if not ok: R.find('C14.functors', f, 'logic', '%s::operator() does not return %s over its template arguments in order, called with the parameters in order' % (f.cls, {'Or_': 'T1(..) || T2(..)', 'And_': 'T1(..) && T2(..)', 'Not_': '!T1(..)'}[f.cls]))
        elif f.cls == 'ActionSequence_' and f.n == 'operator()':
            a = [str(x) for x in (f.cls_args() or [])]
            fe = [(i, n) for i, n in f.calls() if n.get('n') == 'for_each']
            R.seen(f); R.anchor('functor:ActionSequence_')
            ok = len(fe) == 1 and not [n for i, n in f.calls() if n['k'] == 'call' and n.get('n') != 'for_each']
            if ok:
                i, n = fe[0]
                t0 = n.get('ta', [{}])[0]
                ok = isinstance(t0, dict) and 't' in t0 and strip_cvref(F.strs[t0['t']]) == strip_cvref(a[0])
                c = unc(f, n['args'][0]) if n.get('args') else None
                if ok: ok = bool(c) and c['k'] == 'ctor' and c.get('pc') in ('Call', 'Call2') and [(unc(f, x) or {}).get('n') for x in c['args']] == pn
            R.ob('C14.functors', ok, {'func': f.q})
            if not ok: R.find('C14.functors', f, 'sequence', 'ActionSequence_::operator() must run mpl::for_each over the declared Sequence itself (written order) with a Call/Call2 built from its parameters in order')
        elif f.cls in ('Call', 'Call2') and 'ActionSequence_' in f.classes:
            rec = F.rec_by_type(F.class_type(f))
            fields = [fd['n'] for fd in rec['fields']] if rec else []
            if f.n == f.cls and f.d.get('sp') in ('copy_ctor', 'move_ctor'): continue
            if f.n == f.cls:     # constructor: parameter i -> field i
                inits = [(n['member'], (unc(f, n['e']) or {}).get('n')) for n in f.nodes if n and n['k'] == 'init']
                R.seen(f); R.anchor('functor:Call-ctor')
                ok = [m for m, p in inits] == fields and [p for m, p in inits] == pn
                R.ob('C14.functors', ok, {'func': f.q, 'inits': inits})
                if not ok: R.find('C14.functors', f, 'call-ctor', '%s stores its constructor arguments as %s (fields %s)' % (f.cls, inits, fields))
            elif f.n == 'operator()':
                calls = [(i, n) for i, n in f.calls() if n.get('op') == '()']
                R.seen(f); R.anchor('functor:Call-op')
                ok = len(calls) == 1
                if ok:
                    i, n = calls[0]
                    pt = f.param_types()
                    h, wa, r = parse_type(strip_cvref(pt[0])) if pt else (None, None, None)
                    o = unc(f, n.get('obj'))
                    ok = bool(wa) and bool(o) and strip_cvref(F.strs[o['t']]) == strip_cvref(wa[0]) and [(unc(f, x) or {}).get('n') for x in n['args']] == fields
                R.ob('C14.functors', ok, {'func': f.q})
                if not ok: R.find('C14.functors', f, 'call-op', '%s::operator() must invoke the wrapped functor exactly once with the stored arguments in order %s' % (f.cls, fields))

@rule('ctrlblock')
def ctrlblock(F, R):
    """C20.block (backmp11): the per-type control blocks of the event pool element agree with the storage arm they are used for.
    heap block (create_control_block<T,false>): copy = `new T(copy of *src)` stored through dest, delete = `delete (T*)`, never
    marked inline; inline block of a non-trivially-copyable T: size = sizeof(T), inline mark set, copy / move = placement-new of T
    into dest from a copy / an rvalue of *src, destroy = explicit destructor call (no delete), present exactly when T is not trivially
    destructible; inline block of a trivially copyable T: {null, null, null, sizeof(T), true}."""
    def unc(f, i):
        n = f.nodes[i] if i else None
        while n and n['k'] in ('icast', 'cast', 'paren'): n = f.nodes[n['e']]
        return n
    def lam_of(f, i):
        """closure body functions assigned (through the conversion to a function pointer) by expression i"""
        from rules_order import dependency_closure
        for d in dependency_closure(f, i):
            m = f.nodes[d]
            if m and m['k'] == 'lambda':
                return [g for g in F.funcs_of_lambda(m['lck']) if g.n == 'operator()' and g.blocks]
        return []
    for f in F.funcs:
        if backend_of(f) != 'backmp11' or f.n != 'operator()' or not f.blocks or len(f.d['ctx']) < 2: continue
        owner = f.d['ctx'][-2]
        if owner.get('c') not in ('create_control_block', 'inline_control_bock') or 'lck' not in f.d['ctx'][-1]: continue
        a = owner.get('a') or []
        if len(a) < 2 or not isinstance(a[0], dict) and not isinstance(a[0], str): continue
        T = strip_cvref(F.strs[a[0]['t']]) if isinstance(a[0], dict) and 't' in a[0] else strip_cvref(str(a[0]))
        heap = owner['c'] == 'create_control_block'
        R.seen(f); R.anchor('ctrl-block:' + ('heap' if heap else 'inline'))
        asg = {}
        for i, n in enumerate(f.nodes):
            if n and n['k'] == 'asg':
                l = unc(f, n['lhs'])
                if l and l['k'] == 'mem' and l.get('oc') == 'control_block': asg[l['n']] = n['rhs']
        why = []
        def body(field):
            return lam_of(f, asg[field]) if field in asg else []
        def has(g, pred): return any(n and pred(n) for n in g.nodes)
        tyT = lambda n: strip_cvref(F.strs[n['ty']]) == T if 'ty' in n else False
        if heap:
            if 'is_inline' in asg and f.eval_const(asg['is_inline']) not in (0, None): why.append('heap block marked inline')
            cp = body('copy_construct_fn'); dl = body('delete_fn')
            if not cp or not all(has(g, lambda n: n['k'] == 'new' and not n['place'] and tyT(n) and (unc(g, n['init']) or {}).get('copy')) and
                                 has(g, lambda n: n['k'] == 'asg' and (unc(g, n['rhs']) or {}).get('k') == 'new') for g in cp):
                why.append('copy function does not store `new T(copy of the source object)` through dest (a shared pointer is deleted twice)')
            if not dl or not all(has(g, lambda n: n['k'] == 'delete') for g in dl): why.append('delete function does not delete the object')
        else:
            sz = unc(f, asg.get('size'))
            if not (sz and sz['k'] == 'sizeof' and sz.get('tk') == 0 and tyT(sz)): why.append('size is not sizeof(T)')
            if f.eval_const(asg.get('is_inline')) != 1: why.append('inline block not marked inline (get() would read the buffer as a pointer)')
            cp = body('copy_construct_fn'); mv = body('move_construct_fn'); dl = body('delete_fn')
            pnew = lambda kind: (lambda g: has(g, lambda n: n['k'] == 'new' and n['place'] and tyT(n) and bool((unc(g, n['init']) or {}).get(kind))))
            if not cp or not all(pnew('copy')(g) for g in cp): why.append('copy function is not a placement-new copy of T into dest')
            if mv and not all(pnew('move')(g) or pnew('copy')(g) for g in mv): why.append('move function is not a placement-new of T into dest')
            triv_d = None; triv_m = None
            for n in f.nodes:
                if n and n['k'] == 'ref' and n.get('n') == 'is_trivially_destructible_v' and 'v' in n: triv_d = bool(n['v'])
                if n and n['k'] == 'ref' and n.get('n') == 'is_trivially_move_constructible_v' and 'v' in n: triv_m = bool(n['v'])
            if triv_d is False and not dl: why.append('T is not trivially destructible but the block has no destroy function')
            if triv_m is False and not mv: why.append('T is not trivially move constructible but the block has no move function (memcpy would be used)')
            if dl and not all(has(g, lambda n: n['k'] == 'call' and str(n.get('n', '')).startswith('~')) and not has(g, lambda n: n['k'] == 'delete') for g in dl):
                why.append('destroy function of an inline object must be an explicit destructor call, never delete')
        R.ob('C20.block', not why, {'type': Facts.short(T, 60), 'arm': 'heap' if heap else 'inline', 'fields_set': sorted(asg)})
        if why: R.find('C20.block', f, 'heap' if heap else 'inline', 'control block for %s: %s' % (Facts.short(T, 60), '; '.join(why)), instance=Facts.short(T, 120))
    for r in F.records:
        if r['loc'].startswith('boost/msm/backmp11/') and r['n'] == 'inline_control_bock' and r.get('sinit', {}).get('instance'):
            a = r.get('a') or []
            T = strip_cvref(F.strs[a[0]['t']]) if a and isinstance(a[0], dict) and 't' in a[0] else None
            il = r['sinit']['instance']
            R.anchor('ctrl-block:inline-trivial')
            ok = len(il) == 5 and il[:3] == ['null', 'null', 'null'] and isinstance(il[3], dict) and il[3].get('tk') == 0 and strip_cvref(F.strs[il[3]['sizeof']]) == T and il[4] == 1
            R.ob('C20.block', ok, {'type': Facts.short(str(T), 60), 'arm': 'inline-trivial', 'initialiser': [x if not isinstance(x, dict) else 'sizeof(%s)' % Facts.short(F.strs[x['sizeof']], 40) for x in il]})
            if not ok: R.find('C20.block', ('boost/msm/backmp11/detail/basic_polymorphic.hpp', r['q']), 'inline-trivial', 'control block of trivially copyable %s must be {null, null, null, sizeof(T), true}; found %s' % (Facts.short(str(T), 60), il), where=r['loc'])

@rule('visitmode')
def visitmode(F, R):
    """C02.visit-mode (backmp11): entry and exit behaviours are applied to the active states of ONE machine level - a nested submachine
    runs the entries / exits of its own substates itself (its back-end on_entry / on_exit).  Every visit<Mode>(v) whose visitor runs
    entry or exit behaviours (state_entry_visitor, or a closure calling on_entry / on_exit) uses Mode = active, non-recursive."""
    for f in F.funcs:
        if backend_of(f) != 'backmp11' or not f.blocks: continue
        for i, n in f.calls():
            if n.get('n') not in ('visit', 'visit_if') or not n.get('args') or not n.get('ta'): continue
            mode = n['ta'][0].get('i') if isinstance(n['ta'][0], dict) else None
            if mode is None: continue
            a = f.nodes[n['args'][0]]
            while a and a['k'] in ('icast', 'cast', 'tmp', 'bind'): a = f.nodes[a['e']] if a.get('e') else None
            vt = F.strs[a['t']] if a and 't' in a else ''
            runs = None
            if 'state_entry_visitor<' in vt: runs = 'entry'
            elif a is not None:
                lam = a if a['k'] == 'lambda' else None
                if lam is None:
                    from rules_order import dependency_closure
                    for d in dependency_closure(f, n['args'][0]):
                        if f.nodes[d] and f.nodes[d]['k'] == 'lambda': lam = f.nodes[d]
                if lam is not None:
                    for g in F.funcs_of_lambda(lam['lck']):
                        for j, m in g.calls():
                            if m.get('n') in ('on_exit', 'on_entry'): runs = 'exit' if m['n'] == 'on_exit' else 'entry'
            if runs is None: continue
            R.seen(f); R.anchor('behaviour-visit:' + runs)
            ok = mode == 1
            R.ob('C02.visit-mode', ok, {'func': f.q, 'runs': runs, 'mode': mode})
            if not ok:
                R.find('C02.visit-mode', f, runs, 'the %s behaviours are applied with visit mode %d (required: active states, non-recursive = 1): states of a nested submachine, which runs its own %s, would be %s twice' % (runs, mode, 'entries' if runs == 'entry' else 'exits', 'entered' if runs == 'entry' else 'exited'), where=f.at(i))

@rule('rowwrap')
def rowwrap(F, R):
    """C14.wrap: the generated wrappers of the functor front-end hand the behaviour exactly what the back-end gave them:
    Row<...>::guard_call / action_call(fsm, evt, src, tgt, all_states) invoke Guard()/Action() once with (evt, fsm, src, tgt) - each
    parameter in its place (a guard that reads the TARGET state must see the target, not the source twice)."""
    for f in F.funcs:
        if not f.blocks or f.n not in ('guard_call', 'action_call') or f.file not in ('boost/msm/front/functor_row.hpp', 'boost/msm/front/internal_row.hpp'): continue
        pn = [p['n'] for p in f.d.get('params', [])]
        if len(pn) < 4: continue
        inv = [(i, n) for i, n in f.calls() if n.get('op') == '()' and len(n.get('args', [])) >= 3]
        if not inv: continue
        R.seen(f); R.anchor('row-wrapper:%s:%s' % (f.file.split('/')[-1], f.n))
        ok = len(inv) == 1
        got = None
        if ok:
            got = []
            for a in inv[0][1]['args']:
                x = f.nodes[a]
                while x and x['k'] in ('icast', 'cast', 'paren'): x = f.nodes[x['e']]
                got.append(x['n'] if x and x['k'] == 'ref' and x.get('dk') == 'param' else None)
            want = [pn[1], pn[0], pn[2], pn[3]][:len(got)]
            ok = got == want
        R.ob('C14.wrap', ok, {'func': f.q, 'passes': got})
        if not ok:
            R.find('C14.wrap', f, 'args', '%s::%s must invoke the behaviour once with (event, fsm, source, target) = (%s); found %s' % (f.cls, f.n, ', '.join([pn[1], pn[0], pn[2], pn[3]]), got))


@rule('rowregion')
def rowregion(F, R):
    """C06.row-region: an executor works on the region it was called for: every access of the active-state array in a row executor
    (external, internal, forwarding, chain) is indexed by its region parameter."""
    for f in F.funcs:
        be = backend_of(f)
        if be is None or not f.blocks or f.n != 'execute' or not f.d.get('static'): continue
        if f.cls not in ('row_', 'a_row_', 'g_row_', '_row_', 'frow', 'irow_', 'a_irow_', 'g_irow_', '_irow_', 'internal_', 'a_internal_', 'g_internal_', '_internal_', 'transition', 'internal_transition', 'forward_transition'): continue
        pn = [p['n'] for p in f.d.get('params', [])]
        if len(pn) < 2: continue
        region_param = pn[1]
        acc = []
        for i, n in enumerate(f.nodes):
            if n and (n['k'] == 'sub' or (n['k'] == 'call' and n.get('op') == '[]')):
                ai = active_index(f, i)
                if ai: acc.append((i, ai))
        if not acc: continue
        R.seen(f); R.anchor('row-region:%s:%s' % (be, f.cls))
        bad = None
        for i, (ix, add) in acc:
            x = f.nodes[ix]
            while x and x['k'] in ('icast', 'cast', 'paren'): x = f.nodes[x['e']]
            if not (x and x['k'] == 'ref' and x.get('dk') == 'param' and x['n'] == region_param and add == 0): bad = i
        R.ob('C06.row-region', bad is None, {'func': f.q, 'accesses': len(acc)})
        if bad is not None:
            R.find('C06.row-region', f, 'index', '%s::execute accesses the active-state array with %s instead of its region parameter %s: a machine with several regions has another region\'s state overwritten' % (f.cls, f.expr(bad), region_param), where=f.at(bad))

@rule('entrycount')
def entrycount(F, R):
    """C10.region-count (backmp11): state_entry_visitor numbers the regions by counting its own invocations and hands that number to the
    completion transition of the entered state.  The count is the region index only when the visitor is driven region by region, i.e. by
    the active-state visit of state_visitor.hpp; any other driver (an iteration over a list of target states, which may be written in any
    order) gives entered states the wrong region."""
    for f in F.funcs:
        if backend_of(f) != 'backmp11' or not f.blocks: continue
        for i, n in f.calls():
            if n.get('op') == '()' and n.get('pc') == 'state_entry_visitor':
                R.seen(f); R.anchor('entry-visitor-driver')
                ok = f.file.endswith('state_visitor.hpp')
                if not ok and f.file.endswith('history_impl.hpp'):
                    # the initial-state list of a machine is region ordered by construction: iterating InitialStateIds is a region-order driver
                    ctx = f.d['ctx']
                    outer = [g for g in F.funcs if g.blocks and any(m and m['k'] == 'lambda' and m.get('lck') == ctx[-1].get('lck') for m in g.nodes)] if 'lck' in ctx[-1] else []
                    for g in outer:
                        ia = g.cls_args('history_impl') or []
                        for j, m in g.calls():
                            if m.get('n') == 'mp_for_each' and m.get('ta') and ia:
                                t0 = m['ta'][0]
                                if isinstance(t0, dict) and 't' in t0 and strip_cvref(F.strs[t0['t']]) == strip_cvref(str(ia[-1])): ok = True
                R.ob('C10.region-count', ok, {'driver': f.q})
                if not ok:
                    R.find('C10.region-count', f, 'driver', 'the region-counting entry visitor is invoked from %s, which iterates a list of target states in the order they were written, not the regions in order: for targets listed out of region order the completion transition of an entered state is scheduled for another region (active ids of two regions get mixed up)' % f.q.split('::')[-3] if f.q.count('::') > 2 else f.q, where=f.at(i))

@rule('endevents')
def endevents(F, R):
    """C11.end-events: backmp11 favor_compile_time decides whether a type-erased event ends the interruption by comparing its
    run-time type with a candidate list generated per machine (one instantiation of the generic lambda per candidate); that list
    must contain every end-interrupt event the machine's own states declare (EndInterruptFlag<E> in their internal flag list),
    wherever - if anywhere - the event has a row.  An event missing from it is swallowed although the state declares it."""
    M = Model(F)
    for f in F.funcs:
        if backend_of(f) != 'backmp11' or not f.blocks or f.n != 'is_end_interrupt_event' or f.cls != 'compile_policy_impl': continue
        pts = f.param_types()
        if len(pts) < 2 or 'any' not in pts[1]: continue          # the typed variant asks the flag of the static event type
        m = M.machine_of(strip_cvref(pts[0]))
        if m is None or M.rows(m.fe) is None: continue
        declared = set()
        for s in M.states(m.fe):
            for fl in M.internal_flags(s):
                k, a, _rest = parse_type(fl)
                if k.endswith('EndInterruptFlag') and a: declared.add(strip_cvref(a[0]))
        if not declared: continue
        # candidates: the types whose typeid the function (or a lambda defined in it) compares the event's run-time type with
        cands = set(); nty = 0
        for g in F.funcs:
            if g is not f and not any(c.get('f') and c.get('k') == f.k for c in g.d.get('ctx', [])): continue
            for n in g.nodes:
                if n and n['k'] == 'typeid' and isinstance(n.get('ty'), int):
                    nty += 1; cands.add(strip_cvref(F.strs[n['ty']]))
        if not nty: continue                                       # another comparison scheme: not decidable by this rule (floor)
        R.seen(f); R.anchor('end-events:fct')
        missing = sorted(declared - cands)
        if any(d not in {strip_cvref(str(r['evt'])) for r in M.rows(m.fe)} for d in declared):
            R.anchor('end-events:fct:event-without-row')
        R.ob('C11.end-events', not missing, {'func': f.q, 'machine': Facts.short(m.fe, 60), 'declared_end_interrupt_events': sorted(Facts.short(x, 40) for x in declared), 'candidates': len(cands)})
        if missing:
            R.find('C11.end-events', f, 'missing:' + ','.join(Facts.short(x, 40) for x in missing),
                   'the type-erased end-interrupt test of %s compares the event only with %d candidate types, which do not include the end-interrupt event(s) %s declared by its interrupt state: such an event is swallowed while the machine is interrupted' % (Facts.short(m.fe, 50), len(cands), ', '.join(Facts.short(x, 40) for x in missing)))
