"""Entry / exit cascades and region-recursion helpers (C02.cascade, C03.start-stop, C08.sites, C09.entry, C10.first),
constructor wiring order (C07.wiring), history policy tables (C08.table), blocking gate (C11.gate), try/catch shape (C12.catch)."""
from engine import rule
from facts import Facts, strip_cvref, parse_type
from rules_core import backend_of, is_backend
from effects import Effects, leaf_class, ACTIVE_MEMBERS, FLAG_MEMBER
from rules_rtc import const_of, active_index, member_chain

def tokens_on_paths(f, classify, edge_bound=1):
    """list of token sequences, one per non-aborting CFG path"""
    out = []
    for p in f.paths(edge_bound=edge_bound):
        if f.aborts(p): continue
        seq = []
        for i in f.path_nodes(p):
            n = f.nodes[i]
            if not n: continue
            t = classify(i, n)
            if t: seq.append(t)
        out.append(seq)
    return out

def region_of(f):
    a = f.cls_args()
    if a and isinstance(a[0], str) and 'int_<' in a[0]:
        try: return int(a[0].split('int_<')[1].split('>')[0])
        except ValueError: return None
    return None

REGION_HELPERS = {'region_start_helper': ('do_start',), 'region_entry_exit_helper': ('do_entry', 'do_exit'), 'region_copy_helper': ('do_copy',)}

@rule('cascade')
def cascade(F, R):
    E = Effects(F)
    for f in F.funcs:
        if not is_backend(f) or not f.blocks: continue
        be = backend_of(f)
        # ---------------- A. region recursion helpers (back / back11)
        if f.cls in REGION_HELPERS and f.n in REGION_HELPERS[f.cls]:
            N = region_of(f)
            if N is None: continue
            R.seen(f)
            order = f.linear_nodes()
            rec = [(i, n) for i, n in f.calls() if n.get('n') == f.n and n.get('pc') == f.cls]
            work = []
            for i in order:
                n = f.nodes[i]
                if n and n['k'] in ('sub',) or (n and n['k'] == 'call' and n.get('op') == '[]'):
                    ai = active_index(f, i)
                    if ai: work.append((i, ai))
            if not rec and not work:
                R.anchor('region-helper-end:%s:%s::%s' % (be, f.cls, f.n)); continue
            R.anchor('region-helper-step:%s:%s::%s' % (be, f.cls, f.n))
            ok = True; why = ''
            if len(rec) != 1: ok = False; why = '%d recursive calls' % len(rec)
            else:
                ri, rn = rec[0]
                if ('int_<%d>' % (N + 1)) not in F.strs[rn['pt']]: ok = False; why = 'recursion does not continue with region %d' % (N + 1)
                for i, ai in work:
                    if const_of(f, ai[0]) != N: ok = False; why = 'region %d helper indexes the active-state array with %s' % (N, f.expr(ai[0]))
                    if order.index(i) > order.index(ri): ok = False; why = 'region %d is handled after the following regions (order of the cascade reversed)' % N
                if not work: ok = False; why = 'no work on region %d' % N
            rid = 'C02.cascade' if f.n in ('do_exit', 'do_start') else 'C03.region-index'
            R.ob(rid, ok, {'func': f.q, 'region': N})
            if not ok: R.find(rid, f, 'region-step', '%s<%d>::%s: %s' % (f.cls, N, f.n, why))
            continue
        if f.cls not in ('state_machine', 'state_machine_base', 'direct_event_start_helper', 'state_entry_visitor') and 'history_impl' not in f.classes: continue
        # ---------------- B. composite exit
        if f.n == 'do_exit' and f.cls == 'state_machine':
            def cl(i, n):
                if n['k'] != 'call': return None
                if n.get('pc') == 'region_entry_exit_helper' and n.get('n') == 'do_exit': return 'R0' if 'int_<0>' in F.strs[n['pt']] else 'R?'
                lc = leaf_class(F, n)
                if lc == 'EXIT': return 'X'
                if n.get('n') == 'history_exit': return 'H'
                if n.get('n') == 'process_deferred_events': return 'D'
                if n.get('n') == 'clear_deferred_queue': return 'C'
                if 'EXIT' in E.call_classes(f, n): return 'x?'
                return None
            seqs = tokens_on_paths(f, cl)
            R.seen(f); R.anchor('composite-exit:' + be)
            ok = bool(seqs) and all(s in (['R0', 'X', 'H', 'D'], ['R0', 'X', 'H', 'D', 'C']) for s in seqs)
            R.ob('C02.cascade', ok, {'func': f.q, 'sequences': seqs})
            if not ok: R.find('C02.cascade', f, 'composite-exit', 'composite exit must run: substates (region 0 upward), own on_exit, history_exit, then drop deferred events only if the history policy says so; found %s' % seqs)
            # C05.clear: the clear is on the branch where process_deferred_events(...) is false
            okc = True
            for p in f.paths(edge_bound=1):
                pn = f.path_nodes(p)
                has_c = any(f.nodes[i] and f.nodes[i]['k'] == 'call' and f.nodes[i].get('n') == 'clear_deferred_queue' for i in pn)
                if not has_c: continue
                dec = False
                for bi, b in enumerate(p[:-1]):
                    blk = f.bmap[b]
                    if blk.get('tc') and len(blk['s']) == 2:
                        c = f.nodes[blk['tc']]
                        neg = False
                        while c and c['k'] == 'un' and c['op'] == '!': neg = not neg; c = f.nodes[c['e']]
                        if c and c['k'] == 'call' and c.get('n') == 'process_deferred_events':
                            val = (p[bi + 1] == blk['s'][0]) != neg
                            if val is False: dec = True
                okc = okc and dec
            R.ob('C05.clear', okc, {'func': f.q})
            if not okc: R.find('C05.clear', f, 'clear-branch', 'deferred events are cleared on exit although the history policy asks to keep them')
        # ---------------- C. entry variants (back / back11)
        if f.n == 'operator()' and f.cls == 'direct_event_start_helper':
            def cl(i, n):
                if n['k'] == 'asg' and f.base_member(n['lhs']) in ACTIVE_MEMBERS: return 'W'
                if n['k'] != 'call': return None
                lc = leaf_class(F, n)
                if lc == 'ENTRY': return 'E'
                if n.get('n') == 'internal_start': return 'S'
                if n.get('n') == 'process_event': return 'P'
                if n.get('n') == 'for_each': return 'F'
                return None
            seqs = tokens_on_paths(f, cl)
            R.seen(f); R.anchor('entry-variant:' + be)
            ok = all(s in (['E', 'S'], ['E', 'W', 'S'], ['E', 'F', 'S'], ['E', 'W', 'S', 'P']) for s in seqs)
            # the substates are started with the unwrapped event, the entry point re-submits the same event
            unwrapped = True
            for i, n in f.calls():
                if n.get('n') in ('internal_start', 'process_event') and ('W' in seqs[0] or 'F' in seqs[0]):
                    a = f.nodes[n['args'][0]] if n['args'] else None
                    if not (a and a['k'] == 'mem' and a['n'] == 'm_event'): unwrapped = False
            # explicit region index statically within bounds (the static asserts are evaluated by the compiler; here: index is a constant)
            idx_ok = True
            for i, n in enumerate(f.nodes):
                if n and n['k'] == 'asg' and f.base_member(n['lhs']) in ACTIVE_MEMBERS:
                    ai = active_index(f, n['lhs'])
                    if not ai or const_of(f, ai[0]) is None or const_of(f, ai[0]) < 0: idx_ok = False
            R.ob('C09.entry', ok and unwrapped and idx_ok, {'func': f.q, 'sequences': seqs})
            if not (ok and unwrapped and idx_ok):
                R.find('C09.entry', f, 'entry-variant', 'entry variant must run own on_entry, then set explicit targets (constant region index), then start the substates with the original event (and re-submit it for an entry point); found %s unwrapped=%s index_const=%s' % (seqs, unwrapped, idx_ok))
        if f.cls == 'fork_helper' or (f.n == 'operator()' and 'fork_helper' in f.classes): pass
        # ---------------- D. internal_start / E. do_entry / F. start / G. stop (back / back11)
        if f.cls == 'state_machine' and f.n == 'internal_start':
            def cl(i, n):
                if n['k'] != 'call': return None
                if n.get('pc') == 'region_start_helper': return 'R0' if 'int_<0>' in F.strs[n['pt']] else 'R?'
                if n.get('n') == 'process_completion_event': return 'K'
                return None
            seqs = tokens_on_paths(f, cl)
            R.seen(f); R.anchor('internal-start:' + be)
            ok = all(s == ['R0', 'K'] for s in seqs)
            R.ob('C10.first', ok, {'func': f.q, 'sequences': seqs})
            if not ok: R.find('C10.first', f, 'internal-start', 'substate entries (region 0 upward) must be followed by the completion dispatch; found %s' % seqs)
        if f.cls == 'state_machine' and f.n == 'do_entry':
            def cl(i, n):
                if n['k'] != 'call': return None
                if n.get('pc') == 'region_entry_exit_helper' and n.get('n') == 'do_entry': return 'H0' if 'int_<0>' in F.strs[n['pt']] else 'H?'
                if n.get('pc') == 'direct_event_start_helper' and n.get('n') == 'operator()': return 'S'
                if n.get('n') == 'do_handle_deferred': return 'D'
                if n.get('n') == 'process_message_queue': return 'Q'
                return None
            seqs = tokens_on_paths(f, cl)
            R.seen(f); R.anchor('composite-entry:' + be)
            ok = all(s in (['H0', 'S', 'D', 'Q'], ['H0', 'S', 'Q']) for s in seqs)
            R.ob('C08.sites', ok, {'func': f.q, 'sequences': seqs})
            if not ok: R.find('C08.sites', f, 'composite-entry', 'composite entry must apply the history policy to all regions, then enter (explicit targets override), then handle deferred and queued events; found %s' % seqs)
        if f.cls == 'state_machine' and f.n == 'start':
            def cl(i, n):
                if n['k'] != 'call': return None
                if n.get('n') == 'for_each':
                    from rules_order import dependency_closure
                    for a in n['args']:
                        for d in dependency_closure(f, a):
                            an = f.nodes[d]
                            if an and an['k'] == 'ctor' and an.get('pc') in ('init_states', 'call_init'):
                                return {'init_states': 'I', 'call_init': 'C'}[an['pc']]
                    return 'f?'
                lc = leaf_class(F, n)
                if lc == 'ENTRY': return 'E'
                if n.get('n') == 'process_completion_event': return 'K'
                if n.get('n') == 'process_message_queue': return 'Q'
                return None
            seqs = tokens_on_paths(f, cl)
            R.seen(f); R.anchor('start:' + be)
            ok = all(s == ['I', 'E', 'C', 'K', 'Q'] for s in seqs)
            R.ob('C03.start-stop', ok, {'func': f.q, 'sequences': seqs})
            if not ok: R.find('C03.start-stop', f, 'start', 'start() must reset the active states to the initial ones, run the machine entry, the initial states\' entries, the completion dispatch and then the queued events; found %s' % seqs)
        if f.cls == 'state_machine' and f.n == 'stop':
            calls = [n.get('n') for i, n in f.calls() if n.get('org') == 1 and n['k'] == 'call' and not n.get('op')]
            R.seen(f); R.anchor('stop:' + be)
            ok = calls.count('do_exit') == 1
            R.ob('C03.start-stop', ok, {'func': f.q, 'calls': calls})
            if not ok: R.find('C03.start-stop', f, 'stop', 'stop() must run the composite exit cascade exactly once; calls: %s' % calls)
        # ---------------- H. backmp11
        if be == 'backmp11' and f.cls == 'state_machine_base':
            if f.n == 'on_exit' and len(f.d['params']) == 2:
                def cl(i, n):
                    if n['k'] != 'call': return None
                    if leaf_class(F, n) == 'EXIT': return 'X'
                    if n.get('n') == 'visit' and any(f.nodes[a] and f.nodes[a]['k'] == 'lambda' for a in n['args']):
                        mode = F.targs(n.get('ta'))
                        return 'V1' if mode and mode[0] == 1 else 'V?%s' % (mode[:1] if mode else '')
                    if n.get('n') == 'on_exit' and n.get('obj') and f.base_member(n['obj']) == 'm_history': return 'H'
                    return None
                seqs = tokens_on_paths(f, cl)
                R.seen(f); R.anchor('composite-exit:backmp11')
                ok = all(s == ['V1', 'X', 'H'] for s in seqs)
                R.ob('C02.cascade', ok, {'func': f.q, 'sequences': seqs})
                if not ok: R.find('C02.cascade', f, 'composite-exit', 'composite exit must visit the active substates (non-recursively, region order), then run its own on_exit, then let the history store the configuration; found %s' % seqs)
            if f.n == 'on_entry' and len(f.d['params']) == 2:
                def cl(i, n):
                    if n['k'] != 'call': return None
                    if n.get('n') == 'preprocess_entry': return 'P'
                    if n.get('n') == 'postprocess_entry': return 'Q'
                    if n.get('n') == 'on_entry' and n.get('obj') and f.base_member(n['obj']) == 'm_history': return 'H%d' % len(n['args'])
                    return None
                seqs = tokens_on_paths(f, cl)
                R.seen(f); R.anchor('composite-entry:backmp11')
                ok = all(s == ['P', 'H3', 'Q'] for s in seqs)
                R.ob('C08.sites', ok, {'func': f.q, 'sequences': seqs})
                if not ok: R.find('C08.sites', f, 'composite-entry', 'composite entry must run own entry, then the history-selected substates\' entries, then the pending events; found %s' % seqs)
            if f.n == 'preprocess_entry':
                def cl(i, n):
                    if n['k'] == 'asg' and f.base_member(n['lhs']) == 'm_running': return 'RUN'
                    if n['k'] == 'asg' and f.base_member(n['lhs']) == FLAG_MEMBER: return 'FLAG'
                    if n['k'] == 'call' and leaf_class(F, n) == 'ENTRY': return 'E'
                    return None
                seqs = tokens_on_paths(f, cl)
                R.seen(f); R.anchor('preprocess-entry:backmp11')
                ok = all(s in (['RUN', 'FLAG', 'E'], ['FLAG', 'RUN', 'E']) for s in seqs)
                R.ob('C02.cascade', ok, {'func': f.q, 'sequences': seqs})
                if not ok: R.find('C02.cascade', f, 'preprocess-entry', 'the machine is marked running and processing before its own entry behaviour runs; found %s' % seqs)
            if f.n == 'on_explicit_entry':
                def cl(i, n):
                    if n['k'] != 'call': return None
                    if n.get('n') == 'preprocess_entry': return 'P'
                    if n.get('n') == 'postprocess_entry': return 'Q'
                    if n.get('n') == 'on_entry' and n.get('obj') and f.base_member(n['obj']) == 'm_history': return 'H%d' % len(n['args'])
                    if n.get('n') in ('mp_for_each', 'visit'):
                        c = E.call_classes(f, n)
                        if 'ENTRY' in c: return 'E'
                        if 'W_ACTIVE' in c: return 'W'
                        return 'f?'
                    return None
                seqs = tokens_on_paths(f, cl)
                R.seen(f); R.anchor('explicit-entry:backmp11')
                ok = all(s in (['P', 'H2', 'W', 'E', 'Q'], ['P', 'W', 'E', 'Q']) for s in seqs)
                R.ob('C09.entry', ok, {'func': f.q, 'sequences': seqs})
                if not ok: R.find('C09.entry', f, 'explicit-entry', 'explicit entry must run own entry, apply history to the regions not named, override the named regions, run the entries, then the pending events; found %s' % seqs)
            if f.n == 'on_pseudo_entry':
                def cl(i, n):
                    if n['k'] != 'call': return None
                    if n.get('n') == 'on_explicit_entry': return 'X'
                    if n.get('n') == 'process_event': return 'P'
                    return None
                seqs = tokens_on_paths(f, cl)
                R.seen(f); R.anchor('pseudo-entry:backmp11')
                ok = all(s == ['X', 'P'] for s in seqs)
                # same event object
                R.ob('C09.entry', ok, {'func': f.q, 'sequences': seqs})
                if not ok: R.find('C09.entry', f, 'pseudo-entry', 'entry pseudostate must be entered and then the same event re-submitted; found %s' % seqs)
            if f.n == 'stop' and len(f.d['params']) == 1:
                def cl(i, n):
                    if n['k'] == 'asg' and f.base_member(n['lhs']) == 'm_running':
                        r = f.nodes[n['rhs']]; return 'RUN=%s' % (r.get('v') if r else '?')
                    if n['k'] == 'call' and n.get('n') == 'on_exit': return 'X'
                    return None
                seqs = tokens_on_paths(f, cl)
                R.seen(f); R.anchor('stop:backmp11')
                ok = sorted(map(tuple, seqs)) == sorted([(), ('X', 'RUN=False')])
                R.ob('C03.start-stop', ok, {'func': f.q, 'sequences': seqs})
                if not ok: R.find('C03.start-stop', f, 'stop', 'stop() must exit once, only while running, and clear the running mark afterwards; found %s' % seqs)
            if f.n == 'start' and len(f.d['params']) == 1:
                def cl(i, n):
                    if n['k'] == 'call' and n.get('n') == 'on_entry': return 'E'
                    return None
                seqs = tokens_on_paths(f, cl)
                R.seen(f); R.anchor('start:backmp11')
                ok = sorted(map(tuple, seqs)) == sorted([(), ('E',)])
                R.ob('C03.start-stop', ok, {'func': f.q, 'sequences': seqs})
                if not ok: R.find('C03.start-stop', f, 'start', 'start() must enter once, only while not running; found %s' % seqs)
        if be == 'backmp11' and f.cls == 'state_entry_visitor' and f.n == 'operator()':
            def cl(i, n):
                if n['k'] != 'call': return None
                if leaf_class(F, n) == 'ENTRY' or (n.get('n') == 'on_entry' and 'ENTRY' in E.call_classes(f, n)): return 'E'
                if n.get('n') == 'on_state_entry_completed': return 'K'
                return None
            seqs = tokens_on_paths(f, cl)
            R.seen(f); R.anchor('entry-visitor:backmp11')
            ok = all(s == ['E', 'K'] for s in seqs)
            R.ob('C10.first', ok, {'func': f.q, 'sequences': seqs})
            if not ok: R.find('C10.first', f, 'entry-visitor', 'each state entry must be followed by the completion hook for that state; found %s' % seqs)
        if be == 'backmp11' and 'history_impl' in f.classes and f.n == 'on_entry' and len(f.d['params']) == 3:
            def cl(i, n):
                if n['k'] != 'call': return None
                if n.get('n') == 'on_entry' and len(n['args']) == 2 and n.get('pc') == 'history_impl': return 'S'
                if n.get('n') in ('visit', 'mp_for_each'): return 'V'
                return None
            seqs = tokens_on_paths(f, cl)
            R.seen(f); R.anchor('history-entry:backmp11')
            ok = all(s == ['S', 'V'] for s in seqs)
            R.ob('C08.sites', ok, {'func': f.q, 'sequences': seqs})
            if not ok: R.find('C08.sites', f, 'history-entry', 'history entry must first set all active ids, then run the entries of exactly those states; found %s' % seqs)

# ------------------------------------------------------------------ constructor wiring (C07.wiring / C06 containment)

@rule('wiring')
def wiring(F, R):
    """back / back11: fill_states (which wires each substate to its container: containment mark, exit-point forwarders,
    visitors) is the last operation on the substate list in every constructor; nothing may overwrite the substates afterwards"""
    for f in F.funcs:
        if backend_of(f) not in ('back', 'back11') or not f.blocks or f.cls != 'state_machine': continue
        sp = f.d.get('sp', '')
        if not (sp and 'ctor' in sp) and f.n not in ('operator=', 'do_copy', 'set_states'): continue
        order = f.linear_nodes()
        fills = [i for i in order if f.nodes[i] and f.nodes[i]['k'] == 'call' and f.nodes[i].get('n') == 'fill_states']
        over = []
        for i in order:
            n = f.nodes[i]
            if not n: continue
            if n['k'] == 'call' and n.get('n') == 'set_states': over.append(i)
            if n['k'] == 'call' and n.get('op') == '=' and n.get('obj') and f.base_member(n['obj']) == 'm_substate_list': over.append(i)
            if n['k'] == 'asg' and f.base_member(n['lhs']) == 'm_substate_list': over.append(i)
        if not fills: continue
        R.seen(f); R.anchor('wiring:' + backend_of(f))
        bad = [i for i in over if order.index(i) > order.index(fills[0])]
        R.ob('C07.wiring', not bad, {'func': f.q, 'kind': sp or f.n})
        if bad:
            R.find('C07.wiring', f, 'overwrite-after-wiring', 'substates are overwritten at %s after fill_states wired them to this machine: contained submachines lose their containment mark (they then report no_transition themselves) and exit points their forwarder' % f.at(bad[0]), where=f.at(bad[0]))

@rule('kind')
def kind(F, R):
    """C02.kind / C07.cascade: the plain entry / exit behaviour of a state is never invoked on an object whose static type is a
    back-end machine (a composite state): composites must go through the composite entry / exit (do_entry / do_exit; backmp11: the
    back-end's own on_entry / on_exit), otherwise their substates are neither exited nor entered."""
    for f in F.funcs:
        if not is_backend(f) or not f.blocks: continue
        for i, n in f.calls():
            if n['k'] != 'call' or n.get('n') not in ('on_entry', 'on_exit') or not n.get('obj'): continue
            lc = leaf_class(F, n)
            if lc not in ('ENTRY', 'EXIT'): continue
            o = n['obj']
            while f.nodes[o] and f.nodes[o]['k'] == 'icast' and f.nodes[o].get('ck') in ('DerivedToBase', 'UncheckedDerivedToBase', 'NoOp'): o = f.nodes[o]['e']
            t = strip_cvref(f.type_of(o)).rstrip('*').strip()
            t = strip_cvref(t)
            R.seen(f); R.anchor('leaf-behaviour-call:' + backend_of(f))
            def machine_type(x):
                head, args, rest = parse_type(x)
                return args is not None and not rest.strip() and head in ('boost::msm::back::state_machine', 'boost::msm::back11::state_machine', 'boost::msm::backmp11::state_machine', 'boost::msm::backmp11::detail::state_machine_base')
            is_machine = machine_type(t)
            if not is_machine:
                rec = F.rec_by_type(t)
                # user classes deriving from a back-end machine (backmp11 'Derived' pattern)
                depth = 0
                while rec and depth < 4 and not is_machine:
                    nxt = None
                    for b in rec['bases']:
                        bt = F.strs[b['t']]
                        if machine_type(bt): is_machine = True
                        nxt = nxt or F.rec_by_type(bt)
                    rec = nxt; depth += 1
            R.ob('C02.kind', not is_machine, {'func': f.q, 'call': n['n'], 'receiver': Facts.short(t, 100)})
            if is_machine:
                R.find('C02.kind', f, 'plain-%s-on-composite' % n['n'], '%s resolves to the front-end behaviour of a composite state (%s): its substates are not %s' % (n['n'], Facts.short(t, 120), 'exited' if n['n'] == 'on_exit' else 'entered'), where=f.at(i))
