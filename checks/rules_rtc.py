"""Run-to-completion skeleton: processing-flag typestate (C04.flag), queue operation discipline
(C04.queue-ops / C05.ops / C20.ops), dequeue protocol (C04.dequeue, C04.single), stored callable target (C04.target),
blocking gate (C11.gate), try/catch shape (C12.catch), completion-first (C10.first), region loop and result folding (C06.*)."""
from engine import rule
from facts import Facts
from rules_core import backend_of, is_backend, is_result_type
from effects import Effects, leaf_class, ACTIVE_MEMBERS, FLAG_MEMBER, callee_is_backend

BEHAV = {'GUARD', 'EXIT', 'ACTION', 'ENTRY'}
DISPATCH_CORE = {'do_process_helper', 'do_process_event'}
QUEUE_FIELDS = {'m_events_queue': 'MSGQ', 'm_deferred_events_queue': 'DEFQ', 'events': 'POOL'}
MUTATORS = {'push_back', 'push_front', 'pop_front', 'pop_back', 'erase', 'clear', 'insert', 'emplace_back', 'emplace_front',
            'emplace', 'swap', 'assign', 'resize', 'operator=', 'set_capacity', 'rotate', 'linearize', 'rerase', 'rinsert'}
ALGOS = {'stable_sort', 'sort', 'for_each', 'remove', 'remove_if', 'reverse', 'unique', 'partition', 'stable_partition', 'rotate', 'copy', 'transform', 'swap_ranges', 'shuffle', 'nth_element', 'partial_sort'}

# (queue, op) -> functions (plain names) allowed to perform it; one line of reason each
QUEUE_ROLES = {
    ('MSGQ', 'push_back'): {'do_pre_msg_queue_helper': 'event submitted during processing is appended',
                            'enqueue_event_helper': 'enqueue_event appends'},
    ('MSGQ', 'pop_front'): {'process_message_queue': 'drain oldest first', 'execute_queued_events_helper': 'drain oldest first',
                            'execute_single_queued_event_helper': 'dispatch exactly the oldest'},
    ('DEFQ', 'push_back'): {'defer_event': 'deferred event appended with the next sequence tag',
                            'operator()': 'defer_event_kleene_helper: re-typed Kleene event appended'},
    ('DEFQ', 'pop_front'): {'do_handle_deferred': 'oldest deferred event of the current sequence re-offered'},
    ('DEFQ', 'clear'): {'clear': 'deferred_msg_queue_helper::clear, reached from clear_deferred_queue only',
                        'clear_deferred_queue': 'public API; inside the library called only by do_exit when the history policy drops deferred events (rule C05.clear)'},
    ('MSGQ', 'operator='): {'do_copy': 'copy of a machine copies its pending events', 'operator=': 'helper struct assignment'},
    ('DEFQ', 'operator='): {'do_copy': 'copy of a machine copies its deferred events', 'operator=': 'helper struct assignment'},
    ('POOL', 'operator='): {'operator=': 'defaulted assignment of the event pool'},
    ('DEFQ', 'stable_sort'): {'do_handle_deferred': 're-order by sequence tag, stable so that arrival order is kept'},
    ('DEFQ', 'for_each'): {'do_handle_deferred': 'reset the sequence tags'},
    ('POOL', 'push_back'): {'do_defer_event': 'submitted / deferred occurrences are appended'},
    ('POOL', 'push_front'): {'on_state_entry_completed': 'completion occurrences go before every other pending event'},
    ('POOL', 'erase'): {'do_process_event_pool': 'erase an occurrence already marked as processed'},
    ('POOL', 'clear'): {'on_entry': 'history_impl: pool reset on (re-)entry of a submachine without history'},
}

def member_chain(f, nid, depth=0):
    """field names from the outermost object to the innermost member designated by an lvalue expression;
    locals that are references initialised from such an expression are followed"""
    out = []
    seen = 0
    while nid and seen < 16:
        seen += 1
        n = f.nodes[nid]
        if n is None: break
        k = n['k']
        if k == 'mem' and n.get('dk') == 'field':
            out.append(n['n']); nid = n['b']
        elif k == 'mem' and n.get('dk') == 'method':
            nid = n['b']
        elif k in ('sub',): nid = n['b']
        elif k == 'un' and n['op'] in ('*', '&'): nid = n['e']
        elif k in ('icast', 'cast'): nid = n['e']
        elif k == 'ref' and n.get('dk') == 'local':
            init = f.local_init(n['n'])
            if not init: break
            nid = init
        elif k == 'call' and n.get('n') in ('get_event_pool', 'get_message_queue', 'get_deferred_queue', 'get_deferred_events_queue'):
            out.append({'get_event_pool': '(pool)', 'get_message_queue': 'm_events_queue', 'get_deferred_queue': 'm_deferred_events_queue', 'get_deferred_events_queue': 'm_deferred_events_queue'}[n['n']]); break
        else: break
    return list(reversed(out))

def queue_of(f, nid):
    ch = member_chain(f, nid)
    if not ch: return None
    q = QUEUE_FIELDS.get(ch[-1])
    if q == 'POOL' and not (len(ch) >= 2 or True): return None
    return q

def queue_ops(f):
    """(node id, queue kind, op name) for member calls on a queue container and std algorithms over its range"""
    for i in f.linear_nodes():
        n = f.nodes[i]
        if not n or n['k'] != 'call': continue
        if n.get('obj'):
            q = queue_of(f, n['obj'])
            if q:
                nm = n.get('n') if not n.get('op') else 'operator' + n['op']
                yield i, q, nm
        elif n.get('n') in ALGOS and n.get('org') == 0:
            for a in n['args']:
                an = f.nodes[a]
                if an and an['k'] == 'call' and an.get('n') in ('begin', 'end') and an.get('obj'):
                    q = queue_of(f, an['obj'])
                    if q:
                        yield i, q, n['n']; break

@rule('queues')
def queues(F, R):
    E = Effects(F)
    for f in F.funcs:
        if not is_backend(f) or not f.blocks: continue
        ops = list(queue_ops(f))
        if not ops: continue
        R.seen(f)
        be = backend_of(f)
        muts = [(i, q, op) for i, q, op in ops if op in MUTATORS or op in ALGOS]
        for i, q, op in muts:
            allowed = QUEUE_ROLES.get((q, op), {})
            ok = f.n in allowed
            R.anchor('queue-op:%s:%s:%s' % (be if q != 'POOL' else 'backmp11', q, op))
            R.ob('C04.queue-ops', ok, {'func': f.q, 'queue': q, 'op': op, 'at': f.at(i), 'role': allowed.get(f.n)})
            if not ok:
                R.find('C04.queue-ops', f, '%s.%s' % (q, op), '%s performs %s on the %s; allowed only in %s' % (f.n, op, {'MSGQ': 'message queue', 'DEFQ': 'deferred queue', 'POOL': 'event pool'}[q], sorted(allowed) or 'no function'), where=f.at(i))
        # dequeue protocol in the functions that pop
        pops = [x for x in muts if x[2] == 'pop_front']
        if pops:
            dequeue_protocol(F, E, f, R)
        # erase protocol (backmp11): erase only of an element whose marked_for_deletion() was just tested true
        if any(op == 'erase' for _, _, op in muts):
            erase_protocol(F, f, R)
        # stored callable (back/back11): bind(pf, this|m_fsm, event by value, source)
        for i, q, op in muts:
            if op == 'push_back' and q in ('MSGQ', 'DEFQ'):
                stored_callable(F, f, i, q, R)

def dequeue_protocol(F, E, f, R):
    """copy-out (front) < pop_front < invoke of the copy, on every path, per loop iteration"""
    R.anchor('dequeue-site:' + backend_of(f) + ':' + f.n)
    single = f.n.startswith('execute_single')
    bad = None; npaths = 0
    for p in f.paths(edge_bound=2):
        if f.aborts(p): continue
        npaths += 1
        seq = []
        for i in f.path_nodes(p):
            n = f.nodes[i]
            if not n or n['k'] != 'call': continue
            if n.get('obj') and queue_of(f, n['obj']) in ('MSGQ', 'DEFQ'):
                if n.get('n') == 'front': seq.append(('F', i))
                elif n.get('n') == 'pop_front': seq.append(('P', i))
            elif n.get('op') == '()' and n.get('obj'):
                o = f.nodes[n['obj']]
                while o and o['k'] in ('icast', 'cast'): o = f.nodes[o['e']]
                if o and o['k'] == 'ref' and o.get('dk') == 'local':
                    seq.append(('I', i, o['n']))
            elif n.get('n') in ('do_handle_deferred',):
                pass
        s = ''.join(x[0] for x in seq)
        # (F P I)* ; a trailing F (peek, then leave the loop) is allowed for the deferred queue
        t = s
        while t.startswith('FPI'): t = t[3:]
        if t not in ('', 'F'):
            bad = bad or ('sequence %s on a path (required: front, pop_front, invoke, repeated)' % s)
        if single and s != 'FPI':
            bad = bad or ('single-step variant performs %s (required exactly one front, pop_front, invoke)' % s)
        # the invoked callable is a by-value local (a copy made before the pop)
        for x in seq:
            if x[0] == 'I':
                byval = False
                for m in f.nodes:
                    if m and m['k'] == 'decl':
                        for v in m['vars']:
                            if v['n'] == x[2] and not v['ref']: byval = True
                if not byval: bad = bad or ('invoked callable %s is not a by-value copy taken before pop_front' % x[2])
    R.ob('C04.dequeue', bad is None, {'func': f.q, 'paths': npaths})
    if bad:
        R.find('C04.dequeue', f, 'protocol', 'dequeue protocol: ' + bad)

def erase_protocol(F, f, R):
    R.anchor('erase-site:' + f.n)
    ok = True; why = ''
    for p in f.paths(edge_bound=1):
        last_test = None
        for b_ix, b in enumerate(p):
            blk = f.bmap[b]
            for i in blk['e']:
                n = f.nodes[i]
                if n and n['k'] == 'call' and n.get('n') == 'erase' and n.get('obj') and queue_of(f, n['obj']) == 'POOL':
                    # the immediately preceding branch on this path must be marked_for_deletion() taken true
                    prev = None
                    for pb in range(b_ix - 1, -1, -1):
                        pblk = f.bmap[p[pb]]
                        if pblk.get('tc') and len(pblk['s']) == 2:
                            prev = (pblk, p[pb + 1]); break
                    if not prev: ok = False; why = 'erase not guarded'; continue
                    pblk, taken = prev
                    c = f.nodes[pblk['tc']]
                    if not (c and c['k'] == 'call' and c.get('n') == 'marked_for_deletion' and taken == pblk['s'][0]):
                        ok = False; why = 'erase at %s is not on the true branch of a marked_for_deletion() test (found %s)' % (f.at(i), f.expr(pblk['tc']))
    R.ob('C04.erase', ok, {'func': f.q})
    if not ok: R.find('C04.erase', f, 'unguarded-erase', why)

def stored_callable(F, f, push_node, q, R):
    """the pushed element is bind(pf, <machine>, <event by value>, source) with pf = &<same class>::process_event_internal"""
    R.anchor('stored-callable:' + backend_of(f) + ':' + q)
    n = f.nodes[push_node]
    # find the bind call in the operand tree of the push
    from rules_order import dependency_closure
    dep = dependency_closure(f, push_node)
    binds = [d for d in dep if f.nodes[d] and f.nodes[d]['k'] == 'call' and f.nodes[d].get('n') == 'bind']
    ok = False; why = 'no bind(...) in the pushed value'
    for b in binds:
        bn = f.nodes[b]; args = bn['args']
        if len(args) < 3: why = 'bind has too few arguments'; continue
        a0 = f.nodes[args[0]]; a1 = f.nodes[args[1]]; a2 = f.nodes[args[2]]
        # pf
        pf_ok = False
        if a0 and a0['k'] == 'ref' and a0.get('dk') == 'local':
            for m in f.nodes:
                if m and m['k'] == 'decl':
                    for v in m['vars']:
                        if v['n'] == a0['n'] and v['hasinit']:
                            init = f.nodes[v['init']]
                            if init and init['k'] == 'un' and init['op'] == '&':
                                tgt = f.nodes[init['e']]
                                if tgt and tgt.get('n') == 'process_event_internal': pf_ok = True
        tgt_ok = a1 and (a1['k'] == 'this' or (a1['k'] == 'mem' and a1['n'] == 'm_fsm'))
        # event argument: passed as an lvalue of the event (bind stores a decayed copy) or an any_cast value
        ev_ok = a2 is not None and not (a2['k'] == 'un' and a2['op'] == '&') and not (a2['k'] == 'call' and a2.get('n') in ('ref', 'cref'))
        ok = pf_ok and tgt_ok and ev_ok
        why = 'bind(%s): member function %s, target %s, event by value %s' % (', '.join(f.expr(a) for a in args[:3]), 'ok' if pf_ok else 'NOT process_event_internal', 'ok' if tgt_ok else 'NOT the submitting machine', 'ok' if ev_ok else 'NOT a copy')
        if ok: break
    R.ob('C04.target', ok, {'func': f.q, 'queue': q, 'bind': why})
    if not ok: R.find('C04.target', f, 'stored-callable:' + q, 'element pushed on the %s: %s' % (q, why), where=f.at(push_node))

# ------------------------------------------------------------------ processing flag typestate

class FlagAnalysis:
    """must-analysis of the processing flag over one function: U (untouched since entry), T, F, X (unknown)"""
    def __init__(self, F, E):
        self.F = F; self.E = E; self.summ = {}
    def guard_effects(self, type_id):
        """(ctor writes, dtor writes) of a scope-guard class holding a bool& to the flag: values written through the reference field"""
        cw = dw = None
        for g in self.F.funcs_of_class(type_id):
            sp = g.d.get('sp')
            for n in g.nodes:
                if n and n['k'] == 'asg' and n['op'] == '=':
                    l = g.nodes[n['lhs']]; r = g.nodes[n['rhs']]
                    if l and l['k'] == 'mem' and r and r['k'] == 'lit' and isinstance(r.get('v'), bool):
                        if sp == 'dtor': dw = r['v']
                        elif sp and 'ctor' in sp: cw = r['v']
        return cw, dw
    def guarded(self, f):
        r = self.run(f)
        return bool(r) and any(g[1] is False for g in r['guards'].values())
    def summary(self, fk, depth=0):
        """flag effect of calling fk: ('set', v) unconditional final state, ('cond', {ret: state}), or None (no effect)"""
        if fk in self.summ: return self.summ[fk]
        self.summ[fk] = None
        g = self.F.bykey.get(fk)
        if g is None or not g.blocks or depth > 6 or not is_backend(g): return None
        if g.n in ('process_event_internal', 'process_event', 'process_event_pool', 'do_process_event_pool', 'process_completion_transition',
                   'process_message_queue', 'do_handle_deferred', 'process_completion_event', 'do_handle_prio_msg_queue_deferred_queue',
                   'do_post_msg_queue_helper', 'do_entry', 'on_entry', 'on_explicit_entry', 'on_pseudo_entry', 'start', 'execute_queued_events'):
            return None   # balanced functions: checked on their own (I2), preserve the flag for their caller
        st = self.run(g, depth + 1)
        if st is None: return None
        rets = {}
        for (i, s, rv) in st['rets']:
            rets.setdefault(rv, set()).add(s)
        if all(s == {'U'} for s in rets.values()): return None
        allst = set().union(*rets.values()) if rets else set()
        if len(allst) == 1:
            r = ('set', allst.pop())
        else:
            r = ('cond', {rv: (ss.pop() if len(ss) == 1 else 'X') for rv, ss in rets.items()})
        self.summ[fk] = r
        return r
    def run(self, f, depth=0, init='U'):
        """returns dict(calls=[(node, state)], rets=[(node, state, const return)], plainT=set(nodes where T came from a plain write))"""
        if not f.blocks: return None
        F = self.F
        guards = {}      # local var -> (ctor write, dtor write)
        for i, n in enumerate(f.nodes):
            if n and n['k'] == 'decl':
                for v in n['vars']:
                    if not v['hasinit']: continue
                    ini = f.nodes[v['init']]
                    if not ini: continue
                    ops = ini.get('args', []) + ini.get('ch', [])
                    if any(f.base_member(a) == FLAG_MEMBER for a in ops):
                        tid = v['t']
                        cw, dw = self.guard_effects(tid)
                        guards[v['n']] = (cw, dw, i)
        def join(a, b):
            if a is None: return b
            if b is None: return a
            return a if a == b else 'X'
        IN = {b['id']: None for b in f.blocks}
        IN[f.entry] = (init, False)
        calls = {}; rets = {}; condcalls = {}
        work = [f.entry]; iters = 0
        while work and iters < 500:
            iters += 1
            b = work.pop()
            st = IN[b]
            if st is None: continue
            s, plain = st
            blk = f.bmap[b]
            cond_node = None
            for i in blk['e']:
                n = f.nodes[i]
                if not n: continue
                k = n['k']
                if k == 'asg' and f.base_member(n['lhs']) == FLAG_MEMBER:
                    r = f.nodes[n['rhs']]
                    if r and r['k'] == 'lit' and isinstance(r.get('v'), bool): s = 'T' if r['v'] else 'F'; plain = bool(r['v'])
                    else: s = 'X'
                elif k == 'decl':
                    for v in n['vars']:
                        if v['n'] in guards and guards[v['n']][0] is not None:
                            s = 'T' if guards[v['n']][0] else 'F'; plain = False
                elif k == 'dtor' and n.get('var') in guards and guards[n['var']][1] is not None:
                    s = 'T' if guards[n['var']][1] else 'F'; plain = False
                elif k == 'call' and 'fk' in n:
                    calls[i] = join(calls.get(i), s)
                    if plain and s == 'T': calls[(i, 'plain')] = True
                    sm = self.summary(n['fk'], depth)
                    if sm:
                        if sm[0] == 'set':
                            s = sm[1]; plain = (s == 'T')
                        else:
                            condcalls[i] = sm[1]
                elif k == 'ret':
                    rv = f.eval_const(n['e']) if n['e'] else None
                    rets[i] = (join(rets.get(i, (None,))[0], s), rv)
            succ = f.succ(b)
            tc = blk.get('tc')
            if f.exit in succ and not any(f.nodes[i] and f.nodes[i]['k'] == 'ret' for i in blk['e']) and not f.aborts([b]):
                last = blk['e'][-1] if blk['e'] else 0
                rets[('end', b)] = (join(rets.get(('end', b), (None,))[0], s), None)
            for ix, t in enumerate(succ):
                s2 = s
                # refinement on a branch over a conditional flag helper: if (!helper()) / if (helper())
                if tc and len(blk['s']) == 2 and blk.get('tcv') is None:
                    c = f.nodes[tc]; neg = False
                    while c and c['k'] == 'un' and c['op'] == '!': neg = not neg; c = f.nodes[c['e']]
                    cid = None
                    if c and c['k'] == 'call':
                        for ci, m in condcalls.items():
                            if f.nodes[ci] is c: cid = ci
                    if cid is not None and t in blk['s']:
                        truth = (blk['s'].index(t) == 0) != neg
                        m = condcalls[cid]
                        v = m.get(1 if truth else 0, m.get(None))
                        if v and v != 'U': s2 = v
                new = (s2, plain)
                old = IN.get(t)
                if old is None: mer = new
                else: mer = (join(old[0], new[0]), old[1] or new[1])
                if mer != old:
                    IN[t] = mer; work.append(t)
        return {'calls': calls, 'rets': [(i, s, rv) for i, (s, rv) in rets.items()], 'guards': guards}

FLAG_ROLE = {  # function name -> kinds of obligation
    'process_event_internal': 'event', 'process_completion_transition': 'event',
    'start': 'entry', 'do_entry': 'entry', 'on_entry': 'entry', 'on_explicit_entry': 'entry',
}

@rule('flag')
def flag(F, R):
    E = Effects(F); A = FlagAnalysis(F, E)
    cands = [f for f in F.funcs if is_backend(f) and f.blocks and f.n in FLAG_ROLE and f.cls in ('state_machine', 'state_machine_base')]
    results = {}
    def touched(res):
        return any(s != 'U' for i, s in res['calls'].items() if not isinstance(i, tuple)) or any(s != 'U' for _, s, _ in res['rets'])
    queue_classes = set()     # machine classes that take part in run-to-completion (their event entry point touches the flag)
    for f in cands:
        res = A.run(f)
        results[f.k] = res
        if res and f.n == 'process_event_internal' and touched(res): queue_classes.add(F.class_type(f))
    for f in cands:
        role = FLAG_ROLE[f.n]; be = backend_of(f)
        res = results[f.k]
        if res is None: continue
        R.seen(f)
        # machines without a queue / pool do not take part in run-to-completion: the flag helpers are no-ops there
        if not touched(res) and F.class_type(f) not in queue_classes:
            R.anchor('flag-fn-noqueue:%s:%s' % (be, f.n)); continue
        if be == 'backmp11' and f.n == 'start': continue      # delegates to on_entry
        R.anchor('flag-fn:%s:%s' % (be, f.n))
        check_flag_fn(F, E, A, R, f, f, res, role, be, 0)
        # I2: every exit leaves the flag cleared (or untouched on the re-entrant / blocked paths)
        for i, s, rv in res['rets']:
            ok = s in ('U', 'F')
            if isinstance(i, tuple): i = 0
            R.ob('C04.flag-exit', ok, {'func': f.q, 'return_at': f.at(i), 'flag_state': s})
            if not ok:
                R.find('C04.flag-exit', f, 'exit-state', 'function returns at %s with the processing flag %s' % (f.at(i), {'T': 'still set', 'X': 'not definitely cleared'}[s]), where=f.at(i))

def check_flag_fn(F, E, A, R, top, f, res, role, be, depth):
    """I1 on one function body given the flag states at its call sites; descends into helpers that write the flag"""
    for i, s in res['calls'].items():
        if isinstance(i, tuple): continue
        n = f.nodes[i]
        cls = E.call_classes(f, n)
        core = n.get('n') in DISPATCH_CORE or (be == 'backmp11' and f.n == 'process_completion_transition' and n.get('n') == 'execute')
        if A.summary(n['fk']) is not None and depth < 3:
            # a helper that itself manipulates the flag: analyse its body with the caller's state
            g = F.bykey.get(n['fk'])
            if g is not None:
                gres = A.run(g, init=s)
                if gres: check_flag_fn(F, E, A, R, top, g, gres, role, be, depth + 1)
            continue
        if (cls & BEHAV) or core:
            ok = s == 'T'
            R.ob('C04.flag', ok, {'func': top.q, 'in': f.n, 'call': n.get('n'), 'at': f.at(i), 'flag_state': s})
            if not ok:
                R.find('C04.flag', top, 'unprotected:' + str(n.get('n')), 'call of %s (runs %s) in %s is made while the processing flag is %s: an event submitted from that behaviour is dispatched immediately instead of after the current step' % (n.get('n'), sorted(cls & BEHAV) or 'the dispatch', f.n, {'U': 'not set', 'F': 'cleared', 'X': 'not definitely set'}[s]), where=f.at(i))
            # exception safety of entry sequences: T established by a plain write around user behaviour
            if role == 'entry' and (cls & BEHAV):
                plain = bool(res['calls'].get((i, 'plain'))) and not A.guarded(top)
                R.ob('C04.flag-exc', not plain, {'func': top.q, 'call': n.get('n')})
                if plain:
                    R.find('C04.flag-exc', top, 'plain-set:' + str(n.get('n')), 'behaviour call %s runs between a plain set and clear of the processing flag with no scope guard: an exception leaves the flag set and the machine never dispatches again' % n.get('n'), where=f.at(i))
        if n.get('n') in ('process_completion_event', 'do_handle_prio_msg_queue_deferred_queue', 'process_message_queue', 'do_handle_deferred', 'process_event_pool', 'do_post_msg_queue_helper'):
            ok = s in ('F',)
            R.ob('C04.flag-drain', ok, {'func': top.q, 'call': n.get('n'), 'flag_state': s})
            if not ok:
                R.find('C04.flag-drain', top, 'drain-under-flag:' + n['n'], 'pending-event processing %s is called with the processing flag %s (must be cleared first, otherwise nothing is dispatched)' % (n['n'], s), where=f.at(i))
