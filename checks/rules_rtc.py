"""Run-to-completion skeleton: processing-flag typestate (C04.flag), queue operation discipline
(C04.queue-ops / C05.ops / C20.ops), dequeue protocol (C04.dequeue, C04.single), stored callable target (C04.target),
blocking gate (C11.gate), try/catch shape (C12.catch), completion-first (C10.first), region loop and result folding (C06.*)."""
from engine import rule
from facts import Facts
from rules_core import backend_of, is_backend, is_result_type
from effects import Effects, leaf_class, ACTIVE_MEMBERS, FLAG_MEMBER, callee_is_backend

BEHAV = {'GUARD', 'EXIT', 'ACTION', 'ENTRY'}
DISPATCH_CORE = {'do_process_helper', 'do_process_event'}
QUEUE_FIELDS = {'m_events_queue': 'MSGQ', 'm_deferred_events_queue': 'DEFQ', 'events': 'POOL'}
MUTATORS = {'push_back', 'push_front', 'pop_front', 'pop_back', 'erase', 'clear', 'insert', 'emplace_back', 'emplace_front',
            'emplace', 'swap', 'assign', 'resize', 'operator=', 'set_capacity', 'rotate', 'linearize', 'rerase', 'rinsert'}
OP_HINTS = {('DEFQ', 'sort'): ' (an unstable sort does not keep the arrival order of deferred events that carry equal sequence tags; the re-ordering must be std::stable_sort)'}
ALGOS = {'stable_sort', 'sort', 'for_each', 'remove', 'remove_if', 'reverse', 'unique', 'partition', 'stable_partition', 'rotate', 'copy', 'transform', 'swap_ranges', 'shuffle', 'nth_element', 'partial_sort'}

# (queue, op) -> functions (plain names) allowed to perform it; one line of reason each
QUEUE_ROLES = {
    ('MSGQ', 'push_back'): {'do_pre_msg_queue_helper': 'event submitted during processing is appended',
                            'enqueue_event_helper': 'enqueue_event appends'},
    ('MSGQ', 'pop_front'): {'process_message_queue': 'drain oldest first', 'execute_queued_events_helper': 'drain oldest first',
                            'execute_single_queued_event_helper': 'dispatch exactly the oldest'},
    ('DEFQ', 'push_back'): {'defer_event': 'deferred event appended with the next sequence tag',
                            'operator()': 'defer_event_kleene_helper: re-typed Kleene event appended'},
    ('DEFQ', 'pop_front'): {'do_handle_deferred': 'oldest deferred event of the current sequence re-offered'},
    ('DEFQ', 'clear'): {'clear': 'deferred_msg_queue_helper::clear, reached from clear_deferred_queue only',
                        'clear_deferred_queue': 'public API; inside the library called only by do_exit when the history policy drops deferred events (rule C05.clear)'},
    ('MSGQ', 'operator='): {'do_copy': 'copy of a machine copies its pending events', 'operator=': 'helper struct assignment'},
    ('DEFQ', 'operator='): {'do_copy': 'copy of a machine copies its deferred events', 'operator=': 'helper struct assignment'},
    ('POOL', 'operator='): {'operator=': 'defaulted assignment of the event pool'},
    ('DEFQ', 'stable_sort'): {'do_handle_deferred': 're-order by sequence tag, stable so that arrival order is kept'},
    ('DEFQ', 'for_each'): {'do_handle_deferred': 'reset the sequence tags'},
    ('POOL', 'push_back'): {'do_defer_event': 'submitted / deferred occurrences are appended', 'operator=': 'copy of the pool (field coverage: rule C15.fields)', 'event_pool_t': 'copy constructor of the pool'},
    ('POOL', 'push_front'): {'on_state_entry_completed': 'completion occurrences go before every other pending event'},
    ('POOL', 'erase'): {'do_process_event_pool': 'erase an occurrence already marked as processed'},
    ('POOL', 'clear'): {'on_entry': 'history_impl: pool reset on (re-)entry of a submachine without history', 'reset_event_pool': 'history_impl: the same reset as a step of its own, called before the first entry behaviour', 'operator=': 'copy of the pool replaces the old content'},
}

def member_chain(f, nid, depth=0):
    """field names from the outermost object to the innermost member designated by an lvalue expression;
    locals that are references initialised from such an expression are followed"""
    out = []
    seen = 0
    while nid and seen < 16:
        seen += 1
        n = f.nodes[nid]
        if n is None: break
        k = n['k']
        if k == 'mem' and n.get('dk') == 'field':
            out.append(n['n']); nid = n['b']
        elif k == 'mem' and n.get('dk') == 'method':
            nid = n['b']
        elif k in ('sub',): nid = n['b']
        elif k == 'un' and n['op'] in ('*', '&'): nid = n['e']
        elif k in ('icast', 'cast'): nid = n['e']
        elif k == 'ref' and n.get('dk') == 'local':
            init = f.local_init(n['n'])
            if not init: break
            nid = init
        elif k == 'call' and n.get('n') in ('get_event_pool', 'get_message_queue', 'get_deferred_queue', 'get_deferred_events_queue'):
            out.append({'get_event_pool': '(pool)', 'get_message_queue': 'm_events_queue', 'get_deferred_queue': 'm_deferred_events_queue', 'get_deferred_events_queue': 'm_deferred_events_queue'}[n['n']]); break
        else: break
    return list(reversed(out))

def queue_of(f, nid):
    ch = member_chain(f, nid)
    if not ch: return None
    q = QUEUE_FIELDS.get(ch[-1])
    if q == 'POOL' and not (len(ch) >= 2 or True): return None
    return q

def queue_ops(f):
    """(node id, queue kind, op name) for member calls on a queue container and std algorithms over its range"""
    for i in f.linear_nodes():
        n = f.nodes[i]
        if not n or n['k'] != 'call': continue
        if n.get('obj'):
            q = queue_of(f, n['obj'])
            if q:
                nm = n.get('n') if not n.get('op') else 'operator' + n['op']
                yield i, q, nm
        elif n.get('n') in ALGOS and n.get('org') == 0:
            for a in n['args']:
                an = f.nodes[a]
                if an and an['k'] == 'call' and an.get('n') in ('begin', 'end') and an.get('obj'):
                    q = queue_of(f, an['obj'])
                    if q:
                        yield i, q, n['n']; break

def only_called_from_pred(F, f, pred, depth=0):
    """like only_called_from with a predicate on the calling function"""
    if not hasattr(F, '_callers'):
        F._callers = {}
        for g in F.funcs:
            if not g.blocks: continue
            for i, n in g.calls():
                if 'fk' in n: F._callers.setdefault(n['fk'], set()).add(g.k)
    cs = F._callers.get(f.k, set())
    if not cs or depth > 2: return False
    for ck in cs:
        g = F.bykey.get(ck)
        if g is None: return False
        if pred(g): continue
        if not only_called_from_pred(F, g, pred, depth + 1): return False
    return True

def only_called_from(F, f, allowed, depth=0):
    """a helper extracted from role functions keeps their role: f is called at least once and every caller is a role function (or such a
    helper itself); resolved callees, same translation unit"""
    if not hasattr(F, '_callers'):
        F._callers = {}
        for g in F.funcs:
            if not g.blocks: continue
            for i, n in g.calls():
                if 'fk' in n: F._callers.setdefault(n['fk'], set()).add(g.k)
    cs = F._callers.get(f.k, set())
    if not cs or depth > 2: return False
    for ck in cs:
        g = F.bykey.get(ck)
        if g is None: return False
        if g.n in allowed: continue
        if not only_called_from(F, g, allowed, depth + 1): return False
    return True

@rule('queues')
def queues(F, R):
    E = Effects(F)
    for f in F.funcs:
        if not is_backend(f) or not f.blocks: continue
        ops = list(queue_ops(f))
        if not ops: continue
        R.seen(f)
        be = backend_of(f)
        muts = [(i, q, op) for i, q, op in ops if op in MUTATORS or op in ALGOS]
        for i, q, op in muts:
            allowed = QUEUE_ROLES.get((q, op), {})
            ok = f.n in allowed or only_called_from(F, f, allowed)
            R.anchor('queue-op:%s:%s:%s' % (be if q != 'POOL' else 'backmp11', q, op))
            R.ob('C04.queue-ops', ok, {'func': f.q, 'queue': q, 'op': op, 'at': f.at(i), 'role': allowed.get(f.n)})
            if not ok:
                R.find('C04.queue-ops', f, '%s.%s' % (q, op), '%s performs %s on the %s; allowed only in %s' % (f.n, op, {'MSGQ': 'message queue', 'DEFQ': 'deferred queue', 'POOL': 'event pool'}[q], sorted(allowed) or 'no function') + OP_HINTS.get((q, op), ''), where=f.at(i))
        # dequeue protocol in the functions that pop
        pops = [x for x in muts if x[2] == 'pop_front']
        if pops:
            dequeue_protocol(F, E, f, R)
        # erase protocol (backmp11): erase only of an element whose marked_for_deletion() was just tested true
        if any(op == 'erase' for _, _, op in muts):
            erase_protocol(F, f, R)
        # stored callable (back/back11): bind(pf, this|m_fsm, event by value, source)
        for i, q, op in muts:
            if op == 'push_back' and q in ('MSGQ', 'DEFQ'):
                stored_callable(F, f, i, q, R)

@rule('directmark')
def directmark(F, R):
    """C06.direct-mark, the case in which process_event()'s queueing helper does not push itself but hands the event to another
    function of the machine (e.g. the helper of enqueue_event): what that function stores is then what a busy machine keeps of a
    direct submission, and it must carry the direct mark just the same."""
    for f in F.funcs:
        be = backend_of(f)
        if be not in ('back', 'back11') or not f.blocks or f.n != 'do_pre_msg_queue_helper' or f.cls != 'state_machine': continue
        if any(q == 'MSGQ' and op == 'push_back' for _i, q, op in queue_ops(f)): continue      # judged by stored_callable
        found = None
        todo = [(f, 0)]; seen = set()
        while todo and found is None:
            g, dpt = todo.pop()
            if g.k in seen or dpt > 2: continue
            seen.add(g.k)
            for i, n in g.calls():
                h = F.bykey.get(n.get('fk')) if 'fk' in n else None
                if h is None or not h.blocks or h.cls != 'state_machine' or backend_of(h) != be: continue
                if any(q == 'MSGQ' and op == 'push_back' for _i, q, op in queue_ops(h)): found = h; break
                todo.append((h, dpt + 1))
        if found is None: continue       # no push reachable: this overload does not queue (no_message_queue variant)
        R.seen(f); R.anchor('direct-mark:' + be)
        txt = ' '.join(found.expr(i) for i, n in found.calls() if n.get('n') == 'bind' or n.get('n') == 'process_event_internal')
        okd = 'EVENT_SOURCE_DIRECT' in txt
        R.ob('C06.direct-mark', okd, {'func': f.q, 'stores_through': found.n})
        if not okd: R.find('C06.direct-mark', f, 'queued-direct-call', 'process_event() on a busy machine hands the event to %s, which stores it without the mark of a direct submission: a contained machine that finds no transition for it later does not call no_transition (and its container is not asked either)' % found.n)

def dequeue_protocol(F, E, f, R):
    """copy-out (front) < pop_front < invoke of the copy, on every path, per loop iteration"""
    R.anchor('dequeue-site:' + backend_of(f) + ':' + f.n)
    single = f.n.startswith('execute_single')
    bad = None; npaths = 0
    for p in f.paths(edge_bound=2):
        if f.aborts(p): continue
        npaths += 1
        seq = []
        for i in f.path_nodes(p):
            n = f.nodes[i]
            if not n or n['k'] != 'call': continue
            if n.get('obj') and queue_of(f, n['obj']) in ('MSGQ', 'DEFQ'):
                if n.get('n') == 'front': seq.append(('F', i))
                elif n.get('n') == 'pop_front': seq.append(('P', i))
            elif n.get('op') == '()' and n.get('obj'):
                o = f.nodes[n['obj']]
                while o and o['k'] in ('icast', 'cast'): o = f.nodes[o['e']]
                if o and o['k'] == 'ref' and o.get('dk') == 'local':
                    seq.append(('I', i, o['n']))
            elif n.get('n') in ('do_handle_deferred',):
                pass
        s = ''.join(x[0] for x in seq)
        # (F P I)* ; a trailing F (peek, then leave the loop) is allowed for the deferred queue
        t = s
        while t.startswith('FPI'): t = t[3:]
        if t not in ('', 'F'):
            bad = bad or ('sequence %s on a path (required: front, pop_front, invoke, repeated)' % s)
        if single and s != 'FPI':
            bad = bad or ('single-step variant performs %s (required exactly one front, pop_front, invoke)' % s)
        # the invoked callable is a by-value local (a copy made before the pop)
        for x in seq:
            if x[0] == 'I':
                byval = False
                for m in f.nodes:
                    if m and m['k'] == 'decl':
                        for v in m['vars']:
                            if v['n'] == x[2] and not v['ref']: byval = True
                if not byval: bad = bad or ('invoked callable %s is not a by-value copy taken before pop_front' % x[2])
    R.ob('C04.dequeue', bad is None, {'func': f.q, 'paths': npaths})
    if bad:
        R.find('C04.dequeue', f, 'protocol', 'dequeue protocol: ' + bad)

def erase_protocol(F, f, R):
    R.anchor('erase-site:' + f.n)
    ok = True; why = ''
    for p in f.paths(edge_bound=1):
        last_test = None
        for b_ix, b in enumerate(p):
            blk = f.bmap[b]
            for i in blk['e']:
                n = f.nodes[i]
                if n and n['k'] == 'call' and n.get('n') == 'erase' and n.get('obj') and queue_of(f, n['obj']) == 'POOL':
                    # the immediately preceding branch on this path must be marked_for_deletion() taken true
                    prev = None
                    for pb in range(b_ix - 1, -1, -1):
                        pblk = f.bmap[p[pb]]
                        if pblk.get('tc') and len(pblk['s']) == 2:
                            prev = (pblk, p[pb + 1]); break
                    if not prev: ok = False; why = 'erase not guarded'; continue
                    pblk, taken = prev
                    c = f.nodes[pblk['tc']]
                    if not (c and c['k'] == 'call' and c.get('n') == 'marked_for_deletion' and taken == pblk['s'][0]):
                        ok = False; why = 'erase at %s is not on the true branch of a marked_for_deletion() test (found %s)' % (f.at(i), f.expr(pblk['tc']))
    R.ob('C04.erase', ok, {'func': f.q})
    if not ok: R.find('C04.erase', f, 'unguarded-erase', why)

def stored_callable(F, f, push_node, q, R, _depth=0):
    """the pushed element is bind(pf, <machine>, <event by value>, source) with pf = &<same class>::process_event_internal"""
    R.anchor('stored-callable:' + backend_of(f) + ':' + q)
    n = f.nodes[push_node]
    # find the bind call in the operand tree of the push
    from rules_order import dependency_closure
    dep = dependency_closure(f, push_node)
    binds = [d for d in dep if f.nodes[d] and f.nodes[d]['k'] == 'call' and f.nodes[d].get('n') == 'bind']
    ok = False; why = 'no bind(...) in the pushed value'
    if not binds:
        # another kind of callable (a functor object, a closure): judged by how it holds the event and by what its call operator does -
        # the event is a member BY VALUE of the submitted event's (decayed) type (a reference / pointer member dangles when the
        # submitted object dies before the drain), the call operator hands exactly that member to process_event_internal of the stored
        # machine, with the source mark of this queue.  A form that cannot be read this way is not decided (no obligation, no anchor
        # beyond the one above: nothing is reported for it).
        from facts import strip_cvref
        ptypes = {strip_cvref(F.strs[p['t']]) for p in f.d.get('params', [])}
        need = 'EVENT_SOURCE_MSG_QUEUE' if q == 'MSGQ' else 'EVENT_SOURCE_DEFERRED'
        for d in dep:
            x = f.nodes[d]
            if not x or not isinstance(x.get('t'), int): continue
            tname = strip_cvref(F.strs[x['t']])
            rec = F.rec_by_type(tname)
            if not rec or not rec.get('fields') or not rec['loc'].startswith('boost/msm/'): continue
            if 'function<' in tname or rec['n'] in ('state_machine', 'state_machine_base'): continue
            evf = [fl for fl in rec['fields'] if strip_cvref(F.strs[fl['t']].rstrip('*').strip()) in ptypes]
            if not evf: continue
            byref = [fl for fl in evf if F.strs[fl['t']].strip().endswith('&') or F.strs[fl['t']].strip().endswith('*')]
            if byref:
                why = 'the stored callable %s holds the event in member %s of type %s: a reference / pointer to the caller\'s object, not a copy - it dangles when the submitted object dies before the queue is drained' % (rec['n'], byref[0]['n'], F.strs[byref[0]['t']])
                R.ob('C04.target', False, {'func': f.q, 'queue': q, 'callable': rec['n']})
                R.find('C04.target', f, 'stored-callable:' + q, 'element pushed on the %s: %s' % (q, why), where=f.at(push_node))
                return
            ops = [g for g in F.funcs if g.n == 'operator()' and g.blocks and strip_cvref(F.class_type(g) or '') == tname]
            verdict = None
            for g in ops:
                for ci, cn in g.calls():
                    if cn.get('n') != 'process_event_internal' or not cn.get('args'): continue
                    a0dep = dependency_closure(g, cn['args'][0])
                    ev_ok = any(g.nodes[z] and g.nodes[z]['k'] == 'mem' and g.nodes[z].get('n') == evf[0]['n'] for z in a0dep)
                    mark_ok = len(cn['args']) >= 2 and need in g.expr(cn['args'][1])
                    verdict = (ev_ok and mark_ok, 'functor %s: passes its event member %s, source mark %s' % (rec['n'], 'ok' if ev_ok else 'NO', 'ok' if mark_ok else 'MISSING (%s)' % (g.expr(cn['args'][1]) if len(cn['args']) >= 2 else 'no source argument')))
                    if q == 'MSGQ' and f.n == 'do_pre_msg_queue_helper' and len(cn['args']) >= 2:
                        R.anchor('direct-mark:' + backend_of(f))
                        okd = 'EVENT_SOURCE_DIRECT' in g.expr(cn['args'][1])
                        R.ob('C06.direct-mark', okd, {'func': f.q, 'source': g.expr(cn['args'][1])})
                        if not okd: R.find('C06.direct-mark', f, 'queued-direct-call', 'process_event() on a busy machine stores the event with source %s: the mark of a direct submission is lost, so a contained machine that finds no transition for it later does not call no_transition (and its container is not asked either)' % g.expr(cn['args'][1]), where=f.at(push_node))
            if verdict is not None:
                R.ob('C04.target', verdict[0], {'func': f.q, 'queue': q, 'callable': verdict[1]})
                if not verdict[0]: R.find('C04.target', f, 'stored-callable:' + q, 'element pushed on the %s: %s' % (q, verdict[1]), where=f.at(push_node))
                return
        if _depth < 2:
            # the pushed value is handed in by the caller (a push helper extracted from the role functions): judge it at the call sites
            pnames = {p['n'] for p in f.d.get('params', [])}
            if any(f.nodes[d] and f.nodes[d]['k'] == 'ref' and f.nodes[d].get('dk') == 'param' and f.nodes[d]['n'] in pnames for d in dep):
                sites = [(g, i) for g in F.funcs if g.blocks for i, n in g.calls() if n.get('fk') == f.k]
                if sites:
                    for g, i in sites: stored_callable(F, g, i, q, R, _depth + 1)
                    return
        # unknown form
        R.note('C04.target: the element pushed on the %s in %s is neither a bind(...) nor a functor this rule can read; not decided' % (q, f.q))
        return
    for b in binds:

        bn = f.nodes[b]; args = bn['args']
        if len(args) < 3: why = 'bind has too few arguments'; continue
        a0 = f.nodes[args[0]]; a1 = f.nodes[args[1]]; a2 = f.nodes[args[2]]
        # pf
        pf_ok = False
        if a0 and a0['k'] == 'ref' and a0.get('dk') == 'local':
            for m in f.nodes:
                if m and m['k'] == 'decl':
                    for v in m['vars']:
                        if v['n'] == a0['n'] and v['hasinit']:
                            init = f.nodes[v['init']]
                            if init and init['k'] == 'un' and init['op'] == '&':
                                tgt = f.nodes[init['e']]
                                if tgt and tgt.get('n') == 'process_event_internal': pf_ok = True
        tgt_ok = a1 and (a1['k'] == 'this' or (a1['k'] == 'mem' and a1['n'] == 'm_fsm'))
        # event argument: passed as an lvalue of the event (bind stores a decayed copy) or an any_cast value
        ev_ok = a2 is not None and not (a2['k'] == 'un' and a2['op'] == '&') and not (a2['k'] == 'call' and a2.get('n') in ('ref', 'cref'))
        # ... and it is the submitted event: the function's event parameter, or - in the Kleene deferral helper, whose parameter is only
        # a default-constructed probe of the candidate type - the value held by the stored any (m_event)
        evdep = dependency_closure(f, args[2])
        if f.cls == 'defer_event_kleene_helper':
            src_ok = any(f.nodes[d] and f.nodes[d]['k'] == 'mem' and f.nodes[d].get('n') == 'm_event' for d in evdep)
        else:
            src_ok = any(f.nodes[d] and f.nodes[d]['k'] == 'ref' and f.nodes[d].get('dk') == 'param' for d in evdep)
        # the stored call records where the event will come from when it is dispatched: the message queue / the deferred queue
        # (that mark is what keeps the drain from re-entering itself and what single-stepping relies on)
        mark_ok = True; mark_txt = ''
        if len(args) >= 4 and q == 'MSGQ' and f.n == 'do_pre_msg_queue_helper':
            # C06.direct-mark: an event that process_event() could not dispatch at once (the machine was busy) is still a direct
            # submission to THIS machine: the stored call keeps EVENT_SOURCE_DIRECT next to the queue mark.  Without it a contained
            # machine treats the event, when it comes out of the queue, like one forwarded by its container and does not report
            # no_transition for it - nobody does.  (enqueue_event() stores the queue mark alone: same for both back-ends.)
            R.anchor('direct-mark:' + backend_of(f))
            okd = 'EVENT_SOURCE_DIRECT' in f.expr(args[3])
            R.ob('C06.direct-mark', okd, {'func': f.q, 'source': f.expr(args[3])})
            if not okd: R.find('C06.direct-mark', f, 'queued-direct-call', 'process_event() on a busy machine stores the event with source %s: the mark of a direct submission is lost, so a contained machine that finds no transition for it later does not call no_transition (and its container is not asked either)' % f.expr(args[3]), where=f.at(push_node))
        if len(args) >= 4:
            e3 = f.expr(args[3])
            need = 'EVENT_SOURCE_MSG_QUEUE' if q == 'MSGQ' else 'EVENT_SOURCE_DEFERRED'
            a3 = f.nodes[args[3]]
            while a3 and a3['k'] in ('icast', 'cast', 'paren'): a3 = f.nodes[a3['e']]
            if a3 and a3['k'] == 'ref' and a3.get('dk') == 'param' and _depth < 2:
                # the mark is a parameter of a push helper: every call site must pass a marked source
                idx = [p['n'] for p in f.d.get('params', [])].index(a3['n']) if a3['n'] in [p['n'] for p in f.d.get('params', [])] else None
                for g in F.funcs:
                    if not g.blocks: continue
                    for i, n in g.calls():
                        if n.get('fk') == f.k and idx is not None:
                            if idx < len(n.get('args', [])):
                                if need not in g.expr(n['args'][idx]): mark_ok = False; mark_txt = '%s passes %s' % (g.n, g.expr(n['args'][idx]))
                            else:
                                # default argument of the helper
                                pass
            elif need not in e3: mark_ok = False; mark_txt = e3
        ok = pf_ok and tgt_ok and ev_ok and src_ok and mark_ok
        if not mark_ok:
            why = 'bind(%s): the stored call is not marked %s (%s): it is dispatched as if submitted directly, so the drain re-enters itself and a single step runs more than one event' % (', '.join(f.expr(a) for a in args[:4]), 'EVENT_SOURCE_MSG_QUEUE' if q == 'MSGQ' else 'EVENT_SOURCE_DEFERRED', mark_txt)
        else: why = 'bind(%s): member function %s, target %s, event by value %s, event is the submitted one %s' % (', '.join(f.expr(a) for a in args[:3]), 'ok' if pf_ok else 'NOT process_event_internal', 'ok' if tgt_ok else 'NOT the submitting machine', 'ok' if ev_ok else 'NOT a copy', 'ok' if src_ok else 'NO (a default-constructed probe object is stored, the payload is lost)')
        if ok: break
    R.ob('C04.target', ok, {'func': f.q, 'queue': q, 'bind': why})
    if not ok: R.find('C04.target', f, 'stored-callable:' + q, 'element pushed on the %s: %s' % (q, why), where=f.at(push_node))

# ------------------------------------------------------------------ processing flag typestate

class FlagAnalysis:
    """must-analysis of the processing flag over one function: U (untouched since entry), T, F, X (unknown)"""
    def __init__(self, F, E):
        self.F = F; self.E = E; self.summ = {}
    def guard_effects(self, type_id):
        """(ctor writes, dtor writes) of a scope-guard class holding a bool& to the flag: values written through the reference field"""
        cw = dw = None
        for g in self.F.funcs_of_class(type_id):
            sp = g.d.get('sp')
            for n in g.nodes:
                if n and n['k'] == 'asg' and n['op'] == '=':
                    l = g.nodes[n['lhs']]; r = g.nodes[n['rhs']]
                    if l and l['k'] == 'mem' and r and r['k'] == 'lit' and isinstance(r.get('v'), bool):
                        if sp == 'dtor': dw = r['v']
                        elif sp and 'ctor' in sp: cw = r['v']
        return cw, dw
    def guarded(self, f):
        r = self.run(f)
        return bool(r) and any(g[1] is False for g in r['guards'].values())
    def summary(self, fk, depth=0):
        """flag effect of calling fk: ('set', v) unconditional final state, ('cond', {ret: state}), or None (no effect)"""
        if fk in self.summ: return self.summ[fk]
        self.summ[fk] = None
        g = self.F.bykey.get(fk)
        if g is None or not g.blocks or depth > 6 or not is_backend(g): return None
        if g.n in ('process_event_internal', 'process_event', 'process_event_pool', 'do_process_event_pool', 'process_completion_transition',
                   'process_message_queue', 'do_handle_deferred', 'process_completion_event', 'do_handle_prio_msg_queue_deferred_queue',
                   'do_post_msg_queue_helper', 'do_entry', 'on_entry', 'on_explicit_entry', 'on_pseudo_entry', 'start', 'execute_queued_events'):
            return None   # balanced functions: checked on their own (I2), preserve the flag for their caller
        st = self.run(g, depth + 1)
        if st is None: return None
        rets = {}
        for (i, s, rv) in st['rets']:
            rets.setdefault(rv, set()).add(s)
        if all(s <= {'U', 'T0', 'F0'} for s in rets.values()): return None
        allst = set().union(*rets.values()) if rets else set()
        if len(allst) == 1:
            r = ('set', allst.pop())
        else:
            r = ('cond', {rv: (ss.pop() if len(ss) == 1 else 'X') for rv, ss in rets.items()})
        self.summ[fk] = r
        return r
    def run(self, f, depth=0, init='U'):
        """returns dict(calls=[(node, state)], rets=[(node, state, const return)], plainT=set(nodes where T came from a plain write))"""
        if not f.blocks: return None
        F = self.F
        guards = {}      # local var -> (ctor write, dtor write)
        for i, n in enumerate(f.nodes):
            if n and n['k'] == 'decl':
                for v in n['vars']:
                    if not v['hasinit']: continue
                    ini = f.nodes[v['init']]
                    if not ini: continue
                    ops = ini.get('args', []) + ini.get('ch', [])
                    if any(f.base_member(a) == FLAG_MEMBER for a in ops):
                        tid = v['t']
                        cw, dw = self.guard_effects(tid)
                        guards[v['n']] = (cw, dw, i)
        UNT = ('U', 'T0', 'F0')
        def join(a, b):
            if a is None: return b
            if b is None: return a
            if a == b: return a
            if a in UNT and b in UNT: return 'U'
            if {a, b} == {'F', 'F0'}: return 'F'
            return 'X'
        def unc(c):
            while c and c['k'] in ('icast', 'cast'): c = f.nodes[c['e']]
            return c
        def deciding(tc, blk=None):
            # in an if/while/for the block that evaluates the last operand of a && / || chain carries the whole chain as
            # terminator condition and is reached only when the earlier operands did not short-circuit
            c = unc(f.nodes[tc])
            if blk is not None and blk.get('tk') not in ('IfStmt', 'WhileStmt', 'ForStmt', 'DoStmt'): return c
            while c and c['k'] == 'bin' and c['op'] in ('&&', '||'): c = unc(f.nodes[c['rhs']])
            return c
        def implied(c, truth, out):
            # atomic facts implied by the outcome of a condition: (node, value)
            c = unc(c)
            if not c: return
            if c['k'] == 'un' and c['op'] == '!': implied(f.nodes[c['e']], not truth, out)
            elif c['k'] == 'bin' and c['op'] == '&&' and truth: implied(f.nodes[c['lhs']], True, out); implied(f.nodes[c['rhs']], True, out)
            elif c['k'] == 'bin' and c['op'] == '||' and not truth: implied(f.nodes[c['lhs']], False, out); implied(f.nodes[c['rhs']], False, out)
            else: out.append((c, truth))
        IN = {b['id']: None for b in f.blocks}
        IN[f.entry] = (init, False)
        calls = {}; rets = {}; condcalls = {}; sets = {}
        try_guards = []   # (set of node ids of a try body, [guard vars declared inside])
        for t in f.d.get('tries', []):
            tn = set(t['nodes'])
            gv = [g for g, (cw, dw, di) in guards.items() if di in tn]
            try_guards.append((tn, gv, [h['b'] for h in t['handlers']]))
        work = [f.entry]; iters = 0
        while work and iters < 500:
            iters += 1
            b = work.pop()
            st = IN[b]
            if st is None: continue
            s, plain = st
            blk = f.bmap[b]
            cond_node = None
            pending_rets = []      # destructors of scope guards run after the return value is computed: take the state at the end of the block
            for i in blk['e']:
                n = f.nodes[i]
                if not n: continue
                k = n['k']
                if k == 'asg' and f.base_member(n['lhs']) == FLAG_MEMBER:
                    r = f.nodes[n['rhs']]
                    if r and r['k'] == 'lit' and isinstance(r.get('v'), bool):
                        if r['v']: sets[i] = join(sets.get(i), s)
                        s = 'T' if r['v'] else 'F'; plain = bool(r['v'])
                    else: s = 'X'
                elif k == 'decl':
                    for v in n['vars']:
                        if v['n'] in guards and guards[v['n']][0] is not None:
                            s = 'T' if guards[v['n']][0] else 'F'; plain = False
                elif k == 'dtor' and n.get('var') in guards and guards[n['var']][1] is not None:
                    s = 'T' if guards[n['var']][1] else 'F'; plain = False
                elif k == 'call' and 'fk' in n:
                    calls[i] = join(calls.get(i), s)
                    if plain and s == 'T': calls[(i, 'plain')] = True
                    sm = self.summary(n['fk'], depth)
                    if sm:
                        if sm[0] == 'set':
                            s = sm[1]; plain = (s == 'T')
                        else:
                            condcalls[i] = sm[1]
                elif k == 'ret':
                    rv = f.eval_const(n['e']) if n['e'] else None
                    pending_rets.append((i, rv))
            for (ri, rv) in pending_rets:
                rets[ri] = (join(rets.get(ri, (None,))[0], s), rv)
            succ = f.succ(b)
            tc = blk.get('tc')
            if f.exit in succ and not any(f.nodes[i] and f.nodes[i]['k'] == 'ret' for i in blk['e']) and not f.aborts([b]):
                last = blk['e'][-1] if blk['e'] else 0
                rets[('end', b)] = (join(rets.get(('end', b), (None,))[0], s), None)
            normal = f.succ(b, handlers=False)
            for ix, t in enumerate(succ):
                s2 = s
                if t not in normal:
                    # exceptional edge into a handler: scope guards declared in the try body are destroyed during unwinding
                    for tn, gv, hbs in try_guards:
                        if t in hbs and any(e in tn for e in blk['e']):
                            for g in gv:
                                if guards[g][1] is not None: s2 = 'T' if guards[g][1] else 'F'
                # branch on the flag itself: if (m_event_processing) / m_event_processing || ...
                if tc and len(blk['s']) == 2 and t in blk['s'] and blk.get('tcv') is None:
                    facts_ = []
                    implied(f.nodes[tc], blk['s'].index(t) == 0, facts_)
                    implied(deciding(tc, blk), blk['s'].index(t) == 0, facts_)
                    for cn, val in facts_:
                        if cn['k'] == 'mem' and cn['n'] == FLAG_MEMBER and s2 in UNT: s2 = 'T0' if val else 'F0'
                    c0 = deciding(tc, blk); neg0 = False
                    while c0 and c0['k'] == 'un' and c0['op'] == '!': neg0 = not neg0; c0 = unc(f.nodes[c0['e']])
                    # backmp11: info == process_info::event_pool means the call comes from do_process_event_pool, which is only
                    # entered with the flag tested false (rule poolchain)
                    if c0 and c0['k'] == 'bin' and c0['op'] in ('!=', '=='):
                        l0 = f.nodes[c0['lhs']]; r0 = f.nodes[c0['rhs']]
                        if l0 and r0 and l0.get('n') == 'info' and r0.get('n') == 'event_pool':
                            is_pool = ((blk['s'].index(t) == 0) != neg0) == (c0['op'] == '==')
                            if is_pool and s2 in UNT: s2 = 'F0'
                # refinement on a branch over a conditional flag helper: if (!helper()) / if (helper())
                if tc and len(blk['s']) == 2 and blk.get('tcv') is None:
                    c = deciding(tc, blk); neg = False
                    while c and c['k'] == 'un' and c['op'] == '!': neg = not neg; c = f.nodes[c['e']]
                    cid = None
                    if c and c['k'] == 'call':
                        for ci, m in condcalls.items():
                            if f.nodes[ci] is c: cid = ci
                    if cid is not None and t in blk['s']:
                        truth = (blk['s'].index(t) == 0) != neg
                        m = condcalls[cid]
                        v = m.get(1 if truth else 0, m.get(None))
                        if v and v != 'U': s2 = v
                new = (s2, plain)
                old = IN.get(t)
                if old is None: mer = new
                else: mer = (join(old[0], new[0]), old[1] or new[1])
                if mer != old:
                    IN[t] = mer; work.append(t)
        return {'calls': calls, 'rets': [(i, s, rv) for i, (s, rv) in rets.items()], 'guards': guards, 'sets': sets}

FLAG_ROLE = {  # function name -> kinds of obligation
    'process_event_internal': 'event', 'process_completion_transition': 'event',
    'start': 'entry', 'do_entry': 'entry', 'on_entry': 'entry', 'on_explicit_entry': 'entry',
    # the composite exit: its exit behaviours may submit events to the machine that is being left
    'do_exit': 'exit', 'on_exit': 'exit',
}

@rule('flag')
def flag(F, R):
    E = Effects(F); A = FlagAnalysis(F, E)
    cands = [f for f in F.funcs if is_backend(f) and f.blocks and f.n in FLAG_ROLE and f.cls in ('state_machine', 'state_machine_base')]
    results = {}
    def touched(res):
        return any(s not in ('U',) for i, s in res['calls'].items() if not isinstance(i, tuple)) or any(s != 'U' for _, s, _ in res['rets'])
    queue_classes = set()     # machine classes that take part in run-to-completion (their event entry point touches the flag)
    for f in cands:
        res = A.run(f)
        results[f.k] = res
        if res and f.n == 'process_event_internal' and touched(res): queue_classes.add(F.class_type(f))
    for f in cands:
        role = FLAG_ROLE[f.n]; be = backend_of(f)
        res = results[f.k]
        if res is None: continue
        R.seen(f)
        # machines without a queue / pool do not take part in run-to-completion: the flag helpers are no-ops there
        if not touched(res) and F.class_type(f) not in queue_classes:
            R.anchor('flag-fn-noqueue:%s:%s' % (be, f.n)); continue
        if be == 'backmp11' and f.n == 'start': continue      # delegates to on_entry
        R.anchor('flag-fn:%s:%s' % (be, f.n))
        check_flag_fn(F, E, A, R, f, f, res, role, be, 0)
        # I2: every exit leaves the flag cleared (or untouched on the re-entrant / blocked paths)
        for i, s, rv in res['rets']:
            ok = s in ('U', 'F', 'T0', 'F0')
            if isinstance(i, tuple): i = 0
            R.ob('C04.flag-exit', ok, {'func': f.q, 'return_at': f.at(i), 'flag_state': s})
            if not ok:
                R.find('C04.flag-exit', f, 'exit-state', 'function returns at %s with the processing flag %s' % (f.at(i), {'T': 'still set', 'X': 'not definitely cleared'}.get(s, s)), where=f.at(i))

def check_flag_fn(F, E, A, R, top, f, res, role, be, depth):
    """I1 on one function body given the flag states at its call sites; descends into helpers that write the flag"""
    if role == 'event' and top.n == 'process_event_internal':
        # test-and-set: the flag is only set on a path where it was just tested false (else a nested submission would run re-entrantly)
        for i, prior in res.get('sets', {}).items():
            ok = prior in ('F', 'F0')
            R.ob('C04.flag-test', ok, {'func': top.q, 'in': f.n, 'set_at': f.at(i), 'prior_state': prior})
            if not ok:
                R.find('C04.flag-test', top, 'set-untested', 'the processing flag is set at %s on a path where it was not tested false (state %s): an event arriving while another is processed is dispatched re-entrantly' % (f.at(i), prior), where=f.at(i))
    for i, s in res['calls'].items():
        if isinstance(i, tuple): continue
        n = f.nodes[i]
        cls = E.call_classes(f, n)
        core = n.get('n') in DISPATCH_CORE or (be == 'backmp11' and f.n == 'process_completion_transition' and n.get('n') == 'execute')
        if A.summary(n['fk']) is not None and depth < 3:
            # a helper that itself manipulates the flag: analyse its body with the caller's state
            g = F.bykey.get(n['fk'])
            if g is not None:
                gres = A.run(g, init=s)
                if gres: check_flag_fn(F, E, A, R, top, g, gres, role, be, depth + 1)
            continue
        if role == 'exit':
            # the composite exit (a submachine left by a transition of its container, or stop()): its exit behaviours run while the
            # machine being left is not marked busy, so an event one of them sends to that machine is dispatched in the middle of the
            # exit cascade (own rule id: the sites are a known finding of the pinned tree, see DESIGN section 9)
            if cls & BEHAV:
                ok = s == 'T'
                R.ob('C04.exit-flag', ok, {'func': top.q, 'call': n.get('n'), 'at': f.at(i), 'flag_state': s})
                if not ok:
                    R.find('C04.exit-flag', top, 'unprotected:' + str(n.get('n')), 'the composite exit calls %s (runs exit behaviours) while the processing flag of the machine being left is %s: an event such a behaviour sends to that machine is dispatched at once, in the middle of the exit cascade (states exited twice, states entered in a machine that is being left)' % (n.get('n'), {'U': 'not set', 'F': 'cleared', 'X': 'not definitely set', 'F0': 'tested false but not set', 'T0': 'set by another step'}.get(s, s)), where=f.at(i))
            continue
        if (cls & (BEHAV | {'EXCEPTION_CAUGHT', 'NO_TRANSITION'})) or core:
            ok = s == 'T'
            R.ob('C04.flag', ok, {'func': top.q, 'in': f.n, 'call': n.get('n'), 'at': f.at(i), 'flag_state': s})
            if not ok:
                R.find('C04.flag', top, 'unprotected:' + str(n.get('n')), 'call of %s (runs %s) in %s is made while the processing flag is %s: an event submitted from that behaviour is dispatched immediately instead of after the current step' % (n.get('n'), sorted(cls & BEHAV) or 'the dispatch', f.n, {'U': 'not set', 'F': 'cleared', 'X': 'not definitely set', 'F0': 'tested false but not set', 'T0': 'set by another step'}.get(s, s)), where=f.at(i))
            # exception safety of entry sequences: T established by a plain write around user behaviour
            if role == 'entry' and (cls & BEHAV):
                plain = bool(res['calls'].get((i, 'plain'))) and not A.guarded(top)
                R.ob('C04.flag-exc', not plain, {'func': top.q, 'call': n.get('n')})
                if plain:
                    R.find('C04.flag-exc', top, 'plain-set:' + str(n.get('n')), 'behaviour call %s runs between a plain set and clear of the processing flag with no scope guard: an exception leaves the flag set and the machine never dispatches again' % n.get('n'), where=f.at(i))
        if n.get('n') in ('process_completion_event', 'do_handle_prio_msg_queue_deferred_queue', 'process_message_queue', 'do_handle_deferred', 'process_event_pool', 'do_post_msg_queue_helper'):
            ok = s in ('F', 'F0')
            R.ob('C04.flag-drain', ok, {'func': top.q, 'call': n.get('n'), 'flag_state': s})
            if not ok:
                R.find('C04.flag-drain', top, 'drain-under-flag:' + n['n'], 'pending-event processing %s is called with the processing flag %s (must be cleared first, otherwise nothing is dispatched)' % (n['n'], s), where=f.at(i))

# ------------------------------------------------------------------ regions, result folding, no_transition (C06)

def entries_dispatch(f, n):
    """is this call the invocation of a dispatch-table cell (function pointer or functor taken from `entries[...]`)?
    returns the index expression node id or None"""
    if n['k'] != 'call': return None
    cal = n.get('fn') or n.get('obj')
    seen = 0
    while cal and seen < 8:
        seen += 1
        c = f.nodes[cal]
        if not c: return None
        if c['k'] == 'sub':
            b = f.nodes[c['b']]
            while b and b['k'] in ('icast', 'cast'): b = f.nodes[b['e']]
            if b and b['k'] == 'mem' and b['n'] == 'entries': return c['i']
            return None
        if c['k'] == 'un' and c['op'] in ('*', '&'): cal = c['e']
        elif c['k'] in ('icast', 'cast'): cal = c['e']
        elif c['k'] == 'call' and c.get('op') == '[]': 
            o = f.nodes[c['obj']] if c.get('obj') else None
            if o and o['k'] == 'mem' and o['n'] == 'entries': return c['args'][0] if c['args'] else None
            return None
        else: return None
    return None

def const_of(f, nid):
    n = f.nodes[nid] if nid else None
    if n is None: return None
    if 'cv' in n: return n['cv']
    if n['k'] == 'lit' and isinstance(n.get('v'), int): return int(n['v'])
    if n['k'] == 'ref' and n.get('dk') in ('enum', 'smember', 'var', 'local') and 'v' in n: return n.get('v')
    if n['k'] in ('icast', 'cast'): return const_of(f, n['e'])
    return None

def active_index(f, nid):
    """for an expression m_states[k] / m_active_state_ids[k] (possibly + const): (index node, addend)"""
    n = f.nodes[nid] if nid else None
    add = 0
    while n and n['k'] in ('icast', 'cast'): n = f.nodes[n['e']]
    if n and n['k'] == 'bin' and n['op'] == '+':
        c = const_of(f, n['rhs'])
        if c is None: return None
        add = c; n = f.nodes[n['lhs']]
        while n and n['k'] in ('icast', 'cast'): n = f.nodes[n['e']]
    if n and n['k'] == 'sub':
        b = f.nodes[n['b']]
        while b and b['k'] in ('icast', 'cast'): b = f.nodes[b['e']]
        if b and b['k'] == 'mem' and b['n'] in ACTIVE_MEMBERS: return n['i'], add
    if n and n['k'] == 'call' and n.get('op') == '[]' and n.get('obj'):
        b = f.nodes[n['obj']]
        if b and b['k'] == 'mem' and b['n'] in ACTIVE_MEMBERS: return (n['args'][0] if n['args'] else 0), add
    return None

def acc_writes(f, acc):
    """(node, ok, text): every write of the accumulator must OR the old value with a dispatch result"""
    out = []
    for i, n in enumerate(f.nodes):
        if not n: continue
        if n['k'] == 'asg':
            l = f.nodes[n['lhs']]
            if l and l['k'] in ('ref', 'mem') and l['n'] == acc:
                if n['op'] == '|=': out.append((i, True, f.expr(i)))
                elif n['op'] == '=':
                    from rules_order import dependency_closure
                    dep = dependency_closure(f, n['rhs'])
                    ors = [d for d in dep if f.nodes[d] and f.nodes[d]['k'] == 'bin' and f.nodes[d]['op'] == '|']
                    ok = False
                    for d in ors:
                        dd = dependency_closure(f, d)
                        if any(f.nodes[x] and f.nodes[x]['k'] in ('ref', 'mem') and f.nodes[x]['n'] == acc for x in dd): ok = True
                    out.append((i, ok, f.expr(i)))
                else: out.append((i, False, f.expr(i)))
        elif n['k'] == 'call' and n.get('op') in ('|=', '&=', '=', '^=') and n.get('args'):
            a0 = f.nodes[n['args'][0]] if not n.get('obj') else f.nodes[n['obj']]
            if a0 and a0['k'] == 'ref' and a0['n'] == acc:
                out.append((i, n['op'] == '|=', f.expr(i)))
    return out

@rule('regions')
def regions(F, R):
    E = Effects(F)
    for f in F.funcs:
        if not is_backend(f) or not f.blocks: continue
        be = backend_of(f)
        # ---- back / back11 region helpers
        if f.n == 'process' and 'region_processing_helper' in f.classes and f.cls in ('In', 'region_processing_helper'):
            calls = [(i, n) for i, n in f.calls()]
            disp = [(i, n, entries_dispatch(f, n)) for i, n in calls]
            disp = [(i, n, ix) for i, n, ix in disp if ix is not None]
            rec = [(i, n) for i, n in calls if n.get('n') == 'process' and n.get('pc') == 'In']
            fin = [(i, n) for i, n in calls if n.get('n') == 'process' and n.get('pc') == 'process_fsm_internal_table']
            R.seen(f)
            if f.cls == 'In':
                region = f.cls_args()[0]
                reg = int(region.split('<')[1].split('>')[0]) if isinstance(region, str) and '<' in region else None
                if not disp:
                    # terminal specialisation In<nr_regions>: only the machine-internal table
                    R.anchor('region-end:' + be)
                    ok = len(fin) == 1 and not rec
                    R.ob('C06.regions', ok, {'func': f.q, 'region': reg, 'terminal': True})
                    if not ok: R.find('C06.regions', f, 'terminal', 'end of the region recursion must dispatch to the machine-internal table exactly once')
                    continue
                R.anchor('region-step:' + be)
                ok = len(disp) == 1 and len(rec) == 1
                why = ''
                if ok:
                    i, n, ix = disp[0]
                    ai = active_index(f, ix)
                    a = n['args']
                    # cell index = active id of this region + 1; arguments (fsm, region, active id of this region, evt)
                    ok = ai is not None and const_of(f, ai[0]) == reg and ai[1] == 1
                    if not ok: why = 'cell index %s is not m_states[%s]+1' % (f.expr(ix), reg)
                    if ok and not (len(a) >= 4 and const_of(f, a[1]) == reg):
                        ok = False; why = 'region argument %s is not %s' % (f.expr(a[1]) if len(a) > 1 else '?', reg)
                    if ok:
                        a2 = active_index(f, a[2])
                        if not (a2 and const_of(f, a2[0]) == reg and a2[1] == 0): ok = False; why = 'state argument %s is not m_states[%s]' % (f.expr(a[2]), reg)
                    if ok:
                        # recursion continues with region+1, after the dispatch
                        ri, rn = rec[0]
                        nxt = F.strs[rn['pt']]
                        if ('int_<%d>' % (reg + 1)) not in nxt: ok = False; why = 'recursion goes to %s, not region %d' % (Facts.short(nxt, 80), reg + 1)
                        order = f.linear_nodes()
                        if ok and order.index(ri) < order.index(i): ok = False; why = 'next region dispatched before this one'
                else: why = '%d cell invocations, %d recursive calls' % (len(disp), len(rec))
                if ok:
                    # must-pass: on every path this region is dispatched once and the recursion to the next region is reached once
                    from rules_struct import tokens_on_paths
                    di, ri = disp[0][0], rec[0][0]
                    seqs = tokens_on_paths(f, lambda i, n: 'D' if i == di else 'R' if i == ri else None)
                    if not all(s == ['D', 'R'] for s in seqs):
                        ok = False; why = 'a path through the step of region %s runs %s (required: dispatch, then the next region): later regions and the machine-internal table are not offered the event' % (reg, sorted(set(''.join(s) for s in seqs)))
                R.ob('C06.regions', ok, {'func': f.q, 'region': reg})
                if not ok: R.find('C06.regions', f, 'step', 'region step: ' + why)
            elif rec and not disp:
                # entry of the multi-region recursion: starts with region 0
                R.anchor('region-entry:' + be)
                ok = len(rec) == 1 and 'int_<0>' in F.strs[rec[0][1]['pt']]
                R.ob('C06.regions', ok, {'func': f.q, 'starts_at': 0})
                if not ok: R.find('C06.regions', f, 'entry', 'region recursion does not start with region 0')
                continue
            else:
                R.anchor('region-single:' + be)
                ok = len(disp) == 1 and len(fin) == 1
                why = '%d cell invocations, %d internal-table calls' % (len(disp), len(fin))
                if ok:
                    i, n, ix = disp[0]; ai = active_index(f, ix); a = n['args']
                    ok = bool(ai) and const_of(f, ai[0]) == 0 and ai[1] == 1 and len(a) >= 4 and const_of(f, a[1]) == 0
                    a2 = active_index(f, a[2]) if len(a) > 2 else None
                    ok = ok and bool(a2) and const_of(f, a2[0]) == 0
                    why = 'cell index / arguments are not those of region 0: ' + f.expr(i)
                R.ob('C06.regions', ok, {'func': f.q, 'region': 0})
                if not ok: R.find('C06.regions', f, 'single', 'single-region step: ' + why)
            # result folding
            acc = 'result_' if f.cls == 'In' else 'result'
            for i, ok, txt in acc_writes(f, acc):
                R.ob('C06.or', ok, {'func': f.q, 'write': txt})
                if not ok: R.find('C06.or', f, 'acc-write', 'accumulated result is overwritten instead of OR-ed: ' + txt, where=f.at(i))
            if disp and not acc_writes(f, acc):
                R.find('C06.or', f, 'acc-missing', 'the region result is not folded into the accumulated result')
        # ---- machine-internal table gate (back / back11)
        if f.n == 'do_process' and f.cls == 'process_fsm_internal_table':
            disp = [(i, n, entries_dispatch(f, n)) for i, n in f.calls()]
            disp = [(i, n, ix) for i, n, ix in disp if ix is not None]
            if not disp: continue
            R.seen(f); R.anchor('internal-gate:' + be)
            i, n, ix = disp[0]
            ok = const_of(f, ix) == 0
            R.ob('C06.regions', ok, {'func': f.q, 'cell': f.expr(ix)})
            if not ok: R.find('C06.regions', f, 'internal-cell', 'machine-internal table must use cell 0, found ' + f.expr(ix))
            for wi, wok, txt in acc_writes(f, 'result'):
                R.ob('C06.or', wok, {'func': f.q, 'write': txt})
                if not wok: R.find('C06.or', f, 'acc-write', 'accumulated result is overwritten instead of OR-ed: ' + txt, where=f.at(wi))
            # gate: the internal table is consulted only when the regions did not consume the event (bit test on both bits)
            gate_ok = False
            for p in f.paths():
                if i not in f.path_nodes(p): continue
                for b in p:
                    blk = f.bmap[b]
                    if blk.get('tc'):
                        from rules_order import dependency_closure
                        dep = dependency_closure(f, blk['tc'])
                        names = {f.nodes[d]['n'] for d in dep if f.nodes[d] and f.nodes[d]['k'] == 'ref'}
                        if 'result' in names and 'HANDLED_TRUE' in names and 'HANDLED_DEFERRED' in names: gate_ok = True
            R.ob('C01.levels', gate_ok, {'func': f.q})
            if not gate_ok: R.find('C01.levels', f, 'gate', 'machine-internal table is not gated by a test of the handled and deferred bits of the regions\' result')
        # ---- do_process_event: accumulator, region loop (backmp11), no_transition contract
        if f.n == 'do_process_event' and f.cls in ('state_machine', 'state_machine_base'):
            R.seen(f); R.anchor('do_process_event:' + be)
            acc = 'handled' if be != 'backmp11' else 'result'
            init_ok = False
            for n in f.nodes:
                if n and n['k'] == 'decl':
                    for v in n['vars']:
                        if v['n'] == acc and v['hasinit']:
                            iv = f.nodes[v['init']]
                            if iv and iv['k'] == 'ref' and iv['n'] == 'HANDLED_FALSE': init_ok = True
            R.ob('C06.or', init_ok, {'func': f.q, 'acc_init': acc})
            if not init_ok: R.find('C06.or', f, 'acc-init', 'accumulated result does not start at HANDLED_FALSE')
            for wi, wok, txt in acc_writes(f, acc):
                R.ob('C06.or', wok, {'func': f.q, 'write': txt})
                if not wok: R.find('C06.or', f, 'acc-write', 'accumulated result is overwritten instead of OR-ed: ' + txt, where=f.at(wi))
            rets = [n for n in f.nodes if n and n['k'] == 'ret']
            okr = bool(rets) and all(f.nodes[r['e']] and f.nodes[r['e']]['k'] == 'ref' and f.nodes[r['e']]['n'] == acc for r in rets)
            R.ob('C06.or', okr, {'func': f.q, 'returns': acc})
            if not okr: R.find('C06.or', f, 'ret', 'do_process_event does not return the accumulated result')
            if be == 'backmp11':
                mp11_region_loop(F, f, R)
            no_transition_contract(F, E, f, R, acc, be)

def mp11_region_loop(F, f, R):
    """for (region_id = 0; region_id < nr_regions; region_id++) result |= dispatch(self, region_id, event); then the gated internal dispatch"""
    disp = [(i, n) for i, n in f.calls() if n.get('n') == 'dispatch']
    idisp = [(i, n) for i, n in f.calls() if n.get('n') == 'internal_dispatch']
    ok = len(disp) == 1; why = '%d dispatch calls' % len(disp)
    if ok:
        i, n = disp[0]
        a = n['args']
        rv = f.nodes[a[1]] if len(a) > 1 else None
        while rv and rv['k'] in ('icast', 'cast'): rv = f.nodes[rv['e']]
        ok = bool(rv) and rv['k'] == 'ref' and rv.get('dk') == 'local'
        why = 'region argument is not the loop variable'
        if ok:
            var = rv['n']
            init0 = any(v['n'] == var and v['hasinit'] and const_of(f, v['init']) == 0 for m in f.nodes if m and m['k'] == 'decl' for v in m['vars'])
            bound = False; inc = False
            for b in f.blocks:
                if b.get('tc'):
                    c = f.nodes[b['tc']]
                    if c['k'] == 'bin' and c['op'] == '<':
                        l = f.nodes[c['lhs']]; r = f.nodes[c['rhs']]
                        if l and l['k'] == 'ref' and l['n'] == var and r and r.get('n') == 'nr_regions': bound = True
            for m in f.nodes:
                if m and m['k'] == 'un' and m['op'] == '++':
                    e = f.nodes[m['e']]
                    if e and e['k'] == 'ref' and e['n'] == var: inc = True
            ok = init0 and bound and inc
            why = 'loop over regions: starts at 0=%s, bounded by nr_regions=%s, increments by one=%s' % (init0, bound, inc)
    R.ob('C06.regions', ok, {'func': f.q, 'loop': why})
    if not ok: R.find('C06.regions', f, 'mp11-loop', 'region loop: ' + why)
    if idisp:
        i, n = idisp[0]
        gate_ok = False
        for p in f.paths(edge_bound=1):
            if i not in f.path_nodes(p): continue
            for b in p:
                blk = f.bmap[b]
                if blk.get('tc'):
                    from rules_order import dependency_closure
                    dep = dependency_closure(f, blk['tc'])
                    names = {f.nodes[d].get('n') for d in dep if f.nodes[d] and f.nodes[d]['k'] in ('ref', 'call')}
                    if 'result' in names and ('handled_true_or_deferred' in names or ('HANDLED_TRUE' in names and 'HANDLED_DEFERRED' in names)) and 'operator&' in names: gate_ok = True
            break
        order = f.linear_nodes()
        after = all(order.index(di) < order.index(i) for di, _ in disp)
        R.ob('C01.levels', gate_ok and after, {'func': f.q})
        if not (gate_ok and after): R.find('C01.levels', f, 'gate', 'machine-internal dispatch must follow the region loop and be gated by a bit test of handled|deferred on the accumulated result')

def no_transition_contract(F, E, f, R, acc, be):
    nts = [(i, n) for i, n in f.calls() if leaf_class(F, n) == 'NO_TRANSITION']
    ev_t = f.targs()[0] if f.targs() else ''
    from facts import strip_cvref
    evrec = F.rec_by_type(strip_cvref(ev_t)) if isinstance(ev_t, str) else None
    is_completion = bool(evrec and 'completion_event' in evrec['tds'])
    reach = f.reachable_blocks()
    live = [(i, n) for i, n in nts if any(i in f.bmap[b]['e'] for b in reach)]
    if is_completion and be != 'backmp11':
        R.anchor('nt-completion:' + be)
        ok = not live
        R.ob('C06.nt', ok, {'func': f.q, 'event': Facts.short(str(ev_t), 60), 'completion': True})
        if not ok: R.find('C06.nt', f, 'completion-nt', 'no_transition is reachable for a completion event')
        return
    if not live:
        R.ob('C06.nt', False, {'func': f.q})
        R.find('C06.nt', f, 'nt-missing', 'no_transition is never called for event %s' % Facts.short(str(ev_t), 60))
        return
    R.anchor('nt-site:' + be)
    ok = len(live) == 1; why = '%d no_transition call sites' % len(live)
    if ok:
        i, n = live[0]
        # on `this`, with the event, once per region with that region's active id
        o = f.nodes[n['obj']] if n.get('obj') else None
        while o and o['k'] in ('icast', 'cast'): o = f.nodes[o['e']]
        if not (o and o['k'] == 'this'): ok = False; why = 'no_transition is not called on the machine that processes the event'
        a = n['args']
        if ok:
            st = a[2] if len(a) > 2 else 0
            ai = active_index(f, st)
            sn = f.nodes[st] if st else None
            loopvar_ok = False
            if ai:
                iv = f.nodes[ai[0]]
                while iv and iv['k'] in ('icast', 'cast'): iv = f.nodes[iv['e']]
                loopvar_ok = bool(iv) and iv['k'] == 'ref' and iv.get('dk') == 'local' and ai[1] == 0
            elif sn is not None:
                # range-for over the active-state array: the element variable
                while sn and sn['k'] in ('icast', 'cast'): sn = f.nodes[sn['e']]
                if sn and sn['k'] == 'ref' and sn.get('dk') == 'local':
                    for m in f.nodes:
                        if m and m['k'] == 'decl':
                            for v in m['vars']:
                                if v['n'] == '__range5' or v['n'].startswith('__range'):
                                    if f.base_member(v['init']) in ACTIVE_MEMBERS: loopvar_ok = True
            if not loopvar_ok: ok = False; why = 'state argument %s is not the active id of the region being reported' % f.expr(st)
        if ok:
            # every path reaching the call passes "accumulated result is zero" (taken true) and the containment / direct-call test
            zero_ok = True; cont_ok = True
            for p in f.paths(edge_bound=1):
                pn = f.path_nodes(p)
                if i not in pn: continue
                z = False; c = False
                for bi, b in enumerate(p[:-1]):
                    blk = f.bmap[b]
                    if not blk.get('tc') or len(blk['s']) != 2: continue
                    taken_true = p[bi + 1] == blk['s'][0]
                    cn = f.nodes[blk['tc']]
                    # the terminator of the block that evaluates the last operand of a && chain is the whole chain
                    conj = []
                    def flat(x):
                        m = f.nodes[x]
                        if m and m['k'] == 'bin' and m['op'] == '&&': flat(m['lhs']); flat(m['rhs'])
                        else: conj.append(x)
                    flat(blk['tc'])
                    for x in conj:
                        m = f.nodes[x]
                        if m and m['k'] == 'un' and m['op'] == '!':
                            e = f.nodes[m['e']]
                            while e and e['k'] in ('icast', 'cast'): e = f.nodes[e['e']]
                            if e and e['k'] == 'ref' and e['n'] == acc and taken_true: z = True
                        from rules_order import dependency_closure
                        dep = dependency_closure(f, x)
                        nm = {f.nodes[d].get('n') for d in dep if f.nodes[d]}
                        if ('is_contained' in nm or 'is_direct_call' in nm or 'info' in nm) and taken_true: c = True
                zero_ok = zero_ok and z; cont_ok = cont_ok and c
            if not zero_ok: ok = False; why = 'no_transition is reachable without the test "accumulated result is zero"'
            elif not cont_ok: ok = False; why = 'no_transition is reachable without the containment / direct-call test'
    if ok and be == 'backmp11':
        # which kinds of call report an unmatched event: a direct process_event and an event taken from the pool do, an event forwarded by
        # the enclosing machine does not (that machine reports it).  The guarding conditions are evaluated for each process_info value.
        from rules_struct import cond_facts
        i, n = live[0]
        INFO = {'direct_call': 0, 'submachine_call': 1, 'event_pool': 2}
        def evi(nid, v):
            m = f.nodes[nid] if nid else None
            while m and m['k'] in ('icast', 'cast', 'paren'): m = f.nodes[m['e']]
            if m is None: return None
            if m['k'] == 'ref':
                if m.get('dk') == 'param' and m['n'] == 'info': return v
                if m.get('dk') == 'enum' and m['n'] in INFO: return m.get('v', INFO[m['n']])
                return None
            if m['k'] == 'un' and m['op'] == '!':
                x = evi(m['e'], v); return None if x is None else int(not x)
            if m['k'] == 'bin' and m['op'] in ('==', '!='):
                a_, b_ = evi(m['lhs'], v), evi(m['rhs'], v)
                if a_ is None or b_ is None: return None
                return int((a_ == b_) == (m['op'] == '=='))
            return None
        reach_v = {}
        for name, v in INFO.items():
            r_ = False
            for p in f.paths(edge_bound=1):
                if i not in f.path_nodes(p): continue
                good = True
                cut = p[:next((k for k, b in enumerate(p) if i in f.bmap[b]['e']), len(p)) + 1]
                for bi, b in enumerate(cut[:-1]):
                    for c, t in cond_facts(f, f.bmap[b], cut[bi + 1]):
                        cid = next((k for k, x in enumerate(f.nodes) if x is c), None)
                        val = evi(cid, v) if cid is not None else None
                        if val is not None and bool(val) != t: good = False
                if good: r_ = True
            reach_v[name] = r_
        want = {'direct_call': True, 'event_pool': True, 'submachine_call': False}
        if reach_v != want:
            ok = False
            why = 'an unmatched event is reported through no_transition for %s; required: for a direct call and for an event taken from the event pool, not for an event forwarded by the enclosing machine' % sorted(k for k, x in reach_v.items() if x)
    R.ob('C06.nt', ok, {'func': f.q, 'event': Facts.short(str(ev_t), 60)})
    if not ok: R.find('C06.nt', f, 'nt-contract', why)
    # who else may call no_transition: nobody in the back-end except do_process_event and the Kleene-defer "unknown type" paths


@rule('poolchain')
def poolchain(F, R):
    """backmp11: do_process_event_pool (which dispatches pending occurrences, incl. completion transitions that set the flag
    without a test) is entered only from process_event_pool, after the test "pool empty or already processing"."""
    E = Effects(F); A = FlagAnalysis(F, E)
    for f in F.funcs:
        if backend_of(f) != 'backmp11' or not f.blocks: continue
        for i, n in f.calls():
            if n.get('n') == 'do_process_event_pool':
                R.seen(f); R.anchor('pool-entry:' + f.n)
                ok = f.n == 'process_event_pool'
                st = None
                if ok:
                    res = A.run(f)
                    st = res['calls'].get(i) if res else None
                    ok = st in ('F', 'F0')
                R.ob('C04.flag-test', ok, {'func': f.q, 'call': 'do_process_event_pool', 'flag_state': st})
                if not ok:
                    R.find('C04.flag-test', f, 'pool-entry', 'do_process_event_pool is entered from %s with the processing flag %s (must be tested false first)' % (f.n, st), where=f.at(i))

SEQ_NAMES = {'m_cur_seq', 'cur_seq', 'cur_seq_cnt', 'm_seq_cnt', 'seq_cnt'}

def unwrap_(f, i):
    x = f.nodes[i] if i else None
    while x and x['k'] in ('icast', 'cast', 'paren'): x = f.nodes[x['e']]
    return x

@rule('seqtype')
def seqtype(F, R):
    """C05.seq-type: the sequence tag stored with a deferred event and the machine's current-sequence counter are compared for
    equality to decide which events are re-offered; both operands must have the same integral type (a tag narrower than the
    counter stops matching after wrap-around and the deferred events are never re-offered)."""
    from rules_order import dependency_closure
    for f in F.funcs:
        if not is_backend(f) or not f.blocks: continue
        hit = False
        for i, n in enumerate(f.nodes):
            if not n or n['k'] != 'bin' or n['op'] not in ('==', '!='): continue
            names = set()
            for side in (n['lhs'], n['rhs']):
                for d in dependency_closure(f, side):
                    m = f.nodes[d]
                    if m and m['k'] in ('ref', 'mem'): names.add(m['n'])
            if not (names & SEQ_NAMES): continue
            from facts import strip_cvref
            lt, rt = strip_cvref(F.strs[n['lt']]), strip_cvref(F.strs[n['rt']])
            hit = True
            ok = lt == rt
            R.ob('C05.seq-type', ok, {'func': f.q, 'compare': f.expr(i), 'types': [lt, rt]})
            if not ok:
                R.find('C05.seq-type', f, 'width', 'sequence tags compared with different types (%s vs %s) in %s' % (lt, rt, f.expr(i)), where=f.at(i))
        if hit:
            R.seen(f); R.anchor('seq-compare:' + backend_of(f))
        # C05.seq-order: the counter is incremented once per handled event and is 8 bits wide: it wraps every 256 handled events.
        # Equality is wrap-proof; an ORDERING of two raw stamps is not (127 > -128): where stamps are ordered - to put re-queued entries
        # back in front of the untouched ones - the comparison must go through their difference (modulo arithmetic)
        for i, n in enumerate(f.nodes):
            if not n or n['k'] != 'bin' or n['op'] not in ('<', '>', '<=', '>='): continue
            sides = []
            for side in (n['lhs'], n['rhs']):
                x = f.nodes[side]
                while x and x['k'] in ('icast', 'cast', 'paren'): x = f.nodes[x['e']]
                sides.append(x)
            def stamp(x):
                if not x or x['k'] != 'mem' or x['n'] != 'second': return False
                from facts import strip_cvref
                return strip_cvref(F.strs[x['t']]) in ('char', 'signed char', 'unsigned char') if 't' in x else False
            if all(stamp(x) for x in sides):
                R.seen(f); R.anchor('seq-order:' + backend_of(f))
                R.ob('C05.seq-order', False, {'func': f.q, 'compare': f.expr(i)})
                R.find('C05.seq-order', f, 'raw-order', 'two sequence stamps of the 8-bit wrapping counter are ordered directly (%s): at the wrap (127 -> -128, reached after 127 handled events) the re-queued entries sort behind the untouched ones and deferred events change their order' % f.expr(i), where=f.at(i))
            elif any(stamp(x) for x in sides) or any(x and x['k'] == 'bin' and x['op'] == '-' and all(stamp(y) for y in [unwrap_(f, x['lhs']), unwrap_(f, x['rhs'])]) for x in sides):
                R.seen(f); R.anchor('seq-order:' + backend_of(f))
                R.ob('C05.seq-order', True, {'func': f.q, 'compare': f.expr(i)})

@rule('seqproto')
def seqproto(F, R):
    """C05.seq-protocol (back / back11): the correlation sequence of the deferred queue.
    * an event deferred now is stamped with the NEXT sequence (m_cur_seq + 1), so that it is not re-offered within the step that
      deferred it but is as soon as a new sequence starts;
    * do_handle_deferred(new_seq): starts a new sequence by one increment only when asked, re-offers the front entries whose stamp
      EQUALS the current sequence (an ordering comparison breaks at wrap-around of the char counter), and after a handled entry
      re-stamps all pending entries with m_cur_seq + 1 before recursing with new_seq = true;
    * the post-step call sites start a new sequence exactly when the step was handled (bit test of HANDLED_TRUE); start-up passes true."""
    from rules_order import dependency_closure
    from rules_struct import cond_facts
    def plus_one_of_cur(f, i):
        """expression i is (cast of) m_cur_seq + 1"""
        n = f.nodes[i] if i else None
        for _ in range(8):
            while n and n['k'] in ('icast', 'cast', 'paren', 'tmp'): n = f.nodes[n['e']]
            if n and n['k'] == 'ref' and n.get('dk') == 'local':      # `char next = m_cur_seq + 1;` used as the stamp
                defs = [v['init'] for m in f.nodes if m and m['k'] == 'decl' for v in m['vars'] if v['n'] == n['n'] and v.get('hasinit')]
                asg = [m for m in f.nodes if m and m['k'] == 'asg' and (f.nodes[m['lhs']] or {}).get('n') == n['n']]
                if len(defs) == 1 and not asg: n = f.nodes[defs[0]]; continue
            break
        if not (n and n['k'] == 'bin' and n['op'] == '+'): return False
        a, b = n['lhs'], n['rhs']
        def is_cur(x):
            m = f.nodes[x]
            while m and m['k'] in ('icast', 'cast', 'paren'): m = f.nodes[m['e']]
            return bool(m) and m['k'] == 'mem' and m['n'] == 'm_cur_seq'
        return (is_cur(a) and const_of(f, b) == 1) or (is_cur(b) and const_of(f, a) == 1)
    for f in F.funcs:
        be = backend_of(f)
        if be not in ('back', 'back11') or not f.blocks: continue
        # ---- stamping of new entries
        for i, q, op in queue_ops(f):
            if q != 'DEFQ' or op != 'push_back': continue
            n = f.nodes[i]
            stamp = None
            for d in dependency_closure(f, i):
                m = f.nodes[d]
                if m and m['k'] == 'call' and m.get('n') == 'make_pair' and len(m.get('args', [])) == 2: stamp = m['args'][1]
            if stamp is None: continue
            R.seen(f); R.anchor('defer-stamp:' + be)
            ok = plus_one_of_cur(f, stamp)
            R.ob('C05.seq-protocol', ok, {'func': f.q, 'stamp': f.expr(stamp)})
            if not ok: R.find('C05.seq-protocol', f, 'stamp', 'a newly deferred event must be stamped with the next sequence (m_cur_seq + 1); found %s: it would be re-offered within the step that deferred it, or never' % f.expr(stamp), where=f.at(i))
        # ---- the re-offer loop
        if f.n == 'do_handle_deferred' and f.cls == 'handle_defer_helper' and any(nn.get('n') == 'pop_front' for i, nn in f.calls()):
            R.seen(f); R.anchor('defer-loop:' + be)
            why = []
            incs = [i for i, n in enumerate(f.nodes) if n and n['k'] == 'un' and n['op'] in ('++', 'pre++', 'post++') and f.base_member(n['e']) == 'm_cur_seq']
            incs += [i for i, n in enumerate(f.nodes) if n and n['k'] == 'asg' and f.base_member(n['lhs']) == 'm_cur_seq']
            if len(incs) != 1: why.append('%d writes of m_cur_seq (one increment expected)' % len(incs))
            else:
                # executed exactly on the paths where the parameter new_seq is true
                for p in f.paths(edge_bound=1):
                    if f.aborts(p): continue
                    did = incs[0] in f.path_nodes(p)
                    fact = None
                    for bi, b in enumerate(p[:-1]):
                        for c, t in cond_facts(f, f.bmap[b], p[bi + 1]):
                            if c['k'] == 'ref' and c.get('dk') == 'param' and c['n'] == 'new_seq': fact = t if fact is None else fact
                    if fact is not None and did != fact: why.append('the sequence is %s although new_seq is %s' % ('advanced' if did else 'not advanced', fact)); break
            cmps = []
            for i, n in enumerate(f.nodes):
                if n and n['k'] == 'bin' and n['op'] in ('==', '!=', '<', '>', '<=', '>='):
                    names = {f.nodes[d].get('n') for d in dependency_closure(f, i) if f.nodes[d] and f.nodes[d]['k'] in ('ref', 'mem')}
                    if 'second' in names and ('cur_seq' in names or 'm_cur_seq' in names): cmps.append((i, n['op']))
            if not cmps: why.append('no comparison of an entry\'s stamp with the current sequence')
            for i, op in cmps:
                if op not in ('==', '!='): why.append('stamp compared with %s (%s): must be an equality test, the char counter wraps' % (op, f.expr(i)))
            # re-stamp after a handled entry, then recurse with a new sequence
            rest = [n for i, n in f.calls() if n.get('n') == 'for_each']
            okr = False
            for n in rest:
                for a in n.get('args', []):
                    for d in dependency_closure(f, a):
                        m = f.nodes[d]
                        if m and m['k'] == 'ctor' and m.get('pc') == 'set_sequence' and m.get('args') and plus_one_of_cur(f, m['args'][0]): okr = True
            # the same written with a closure: [seq = m_cur_seq](entry& d) { d.second = seq + 1; }
            for m in f.nodes:
                if not (m and m['k'] == 'lambda'): continue
                for g in F.funcs_of_lambda(m['lck']):
                    if g.n != 'operator()': continue
                    for x in g.nodes:
                        if not (x and x['k'] == 'asg' and (g.nodes[x['lhs']] or {}).get('n') == 'second'): continue
                        r = g.nodes[x['rhs']]
                        while r and r['k'] in ('icast', 'cast', 'paren'): r = g.nodes[r['e']]
                        if not (r and r['k'] == 'bin' and r['op'] == '+'): continue
                        a, b = g.nodes[r['lhs']], g.nodes[r['rhs']]
                        while a and a['k'] in ('icast', 'cast'): a = g.nodes[a['e']]
                        while b and b['k'] in ('icast', 'cast'): b = g.nodes[b['e']]
                        var = a if (b and b['k'] == 'lit' and b.get('v') == 1) else b if (a and a['k'] == 'lit' and a.get('v') == 1) else None
                        if not (var and var['k'] == 'ref'): continue
                        # the captured local is a copy of the current sequence
                        for dn in f.nodes:
                            if dn and dn['k'] == 'decl':
                                for v in dn['vars']:
                                    if v['n'] == var['n'] and v.get('hasinit'):
                                        iv = f.nodes[v['init']]
                                        while iv and iv['k'] in ('icast', 'cast'): iv = f.nodes[iv['e']]
                                        if iv and iv['k'] == 'mem' and iv['n'] == 'm_cur_seq': okr = True
            if not okr: why.append('pending entries are not re-stamped with m_cur_seq + 1 after a handled entry')
            rec = [n for i, n in f.calls() if n.get('n') == 'do_handle_deferred']
            if not (len(rec) == 1 and rec[0].get('args') and const_of(f, rec[0]['args'][0]) == 1): why.append('the retry after a handled entry does not start a new sequence (do_handle_deferred(true))')
            R.ob('C05.seq-protocol', not why, {'func': f.q})
            if why: R.find('C05.seq-protocol', f, 'loop', '; '.join(why))
        # ---- call sites: new sequence exactly when the step was handled
        if f.cls == 'state_machine' and f.n != 'do_handle_deferred':
            for i, n in f.calls():
                if n.get('n') != 'do_handle_deferred' or n.get('pc') != 'handle_defer_helper' or not n.get('args'): continue
                a = n['args'][0]
                R.seen(f); R.anchor('defer-site:' + be)
                c = const_of(f, a)
                names = [f.nodes[d] for d in dependency_closure(f, a) if f.nodes[d]]
                bit = any(m['k'] in ('bin', 'call') and m.get('op') == '&' for m in names) and any(m['k'] == 'ref' and m.get('n') == 'HANDLED_TRUE' for m in names)
                cmpx = any(m['k'] == 'bin' and m.get('op') in ('==', '!=') for m in names)
                ok = c == 1 or (bit and not cmpx)
                R.ob('C05.seq-protocol', ok, {'func': f.q, 'new_seq_argument': f.expr(a)})
                if not ok: R.find('C05.seq-protocol', f, 'site', 'the deferred queue is re-offered with new_seq = %s; required: true at start-up, else the bit test HANDLED_TRUE & handled (a guard reject or a deferral must not start a new sequence)' % f.expr(a), where=f.at(i))

@rule('poolreset')
def poolreset(F, R):
    """C04.pool-reset (backmp11): the reset of the event pool that belongs to (re-)entering a machine (history policy) happens before
    the first entry behaviour of that entry sequence runs - otherwise an event the machine's own on_entry submits (it is stored,
    the machine is marked busy) is wiped by the reset that follows and is never dispatched.  Path rule over the entry drivers of
    state_machine_base: on no path does a call that reaches an entry behaviour precede a call that reaches a pool clear."""
    from effects import Effects
    E = Effects(F)
    clears = {}
    def reaches_clear(fk, depth=0):
        if fk in clears: return clears[fk]
        clears[fk] = False
        g = F.bykey.get(fk)
        if g is None or not g.blocks or depth > 4: return False
        r = any(q == 'POOL' and op == 'clear' for _i, q, op in queue_ops(g))
        if not r:
            for _i, n in g.calls():
                if 'fk' in n and n.get('org') == 1 and reaches_clear(n['fk'], depth + 1): r = True; break
        clears[fk] = r
        return r
    for f in F.funcs:
        if backend_of(f) != 'backmp11' or not f.blocks or f.cls != 'state_machine_base': continue
        if f.n not in ('on_entry', 'on_explicit_entry', 'on_pseudo_entry', 'start'): continue
        sites = [(i, n) for i, n in f.calls() if 'fk' in n and reaches_clear(n['fk'])]
        if not sites: continue
        R.seen(f); R.anchor('pool-reset-driver:' + f.n)
        bad = None
        for p in f.paths(edge_bound=1):
            entered = None
            for i in f.path_nodes(p):
                n = f.nodes[i]
                if not n or n['k'] != 'call': continue
                if 'fk' in n and reaches_clear(n['fk']):
                    if entered is not None: bad = (entered, i)
                elif 'ENTRY' in E.call_classes(f, n) and entered is None: entered = i
            if bad: break
        R.ob('C04.pool-reset', bad is None, {'func': f.q, 'reset_sites': [f.expr(i)[:60] for i, n in sites]})
        if bad:
            R.find('C04.pool-reset', f, 'entry-before-reset', '%s runs an entry behaviour through %s (%s) and resets the event pool afterwards through %s (%s): an event submitted by that behaviour is stored and then wiped, it is never dispatched' % (f.n, f.expr(bad[0])[:60], f.at(bad[0]), f.expr(bad[1])[:60], f.at(bad[1])), where=f.at(bad[1]))
