// Witness TU (parsed only): every introspection / inspection call of the public API, on a machine with two regions and a submachine:
// back / back11: current_state, get_state_by_id (const and non-const), get_state<S&> / <S*>, is_contained, is_flag_active,
// get_message_queue_size / get_message_queue / get_deferred_queue / clear_deferred_queue, get_history, visit_current_states, and the
// state-name tools of back/tools.hpp; backmp11: get_active_state_ids, is_state_active, get_state, get_state_id, is_contained,
// visit / visit_if in all modes, the deprecated queue aliases, process_event_pool(n), get_pending_events-style accessors.
#include <boost/msm/back/state_machine.hpp>
#include <boost/msm/back/tools.hpp>
#include <boost/msm/back11/state_machine.hpp>
#include <boost/msm/backmp11/state_machine.hpp>
#include "Backmp11Adapter.hpp"
#include <boost/msm/front/state_machine_def.hpp>
#include <boost/msm/front/functor_row.hpp>
#include <string>
#include <vector>
namespace msm = boost::msm;
namespace mpl = boost::mpl;
namespace
{
struct i_go {}; struct i_in {}; struct i_def {}; struct i_flag {};
struct i_base { virtual ~i_base() {} int tag = 0; };
template <template <typename...> class Back>
struct i_machines
{
    struct st : public msm::front::state<i_base>
    {
        template <class Event, class FSM> void on_entry(Event const&, FSM&) {}
        template <class Event, class FSM> void on_exit(Event const&, FSM&) {}
    };
    struct Sub_ : public msm::front::state_machine_def<Sub_, i_base>
    {
        struct X1 : st {}; struct X2 : st { typedef mpl::vector<i_flag> flag_list; };
        typedef X1 initial_state;
        struct transition_table : mpl::vector<msm::front::Row<X1, i_in, X2, msm::front::none, msm::front::none> > {};
        template <class FSM, class Event> void no_transition(Event const&, FSM&, int) {}
    };
    typedef Back<Sub_> Sub;
    struct Top_ : public msm::front::state_machine_def<Top_, i_base>
    {
        struct A : st { typedef mpl::vector<i_def> deferred_events; }; struct B : st {};
        struct R1 : st {};
        typedef mpl::vector<A, R1> initial_state;
        struct transition_table : mpl::vector<
            msm::front::Row<A, i_go, Sub, msm::front::none, msm::front::none>,
            msm::front::Row<Sub, i_go, B, msm::front::none, msm::front::none>,
            msm::front::Row<B, i_def, A, msm::front::none, msm::front::none>
        > {};
        template <class FSM, class Event> void no_transition(Event const&, FSM&, int) {}
    };
    typedef Back<Top_> Top;
};
template <class W> int i_use_back()
{
    typedef typename W::Top Top;
    Top m; m.start(); m.process_event(i_def()); m.enqueue_event(i_go()); m.process_event(i_go()); m.process_event(i_in());
    const Top& cm = m;
    int r = cm.current_state()[0] + cm.current_state()[1];
    i_base* s0 = m.get_state_by_id(0); const i_base* s1 = cm.get_state_by_id(1);
    r += (s0 ? s0->tag : 0) + (s1 ? s1->tag : 0);
    typename W::Sub& sub = m.template get_state<typename W::Sub&>();
    typename W::Sub* psub = m.template get_state<typename W::Sub*>();
    r += sub.is_contained() + psub->is_contained() + m.is_contained() + cm.template is_flag_active<i_flag>();
    r += (int)m.get_message_queue_size() + (int)m.get_message_queue().size() + (int)cm.get_message_queue().size() + (int)m.get_deferred_queue().size() + (int)cm.get_deferred_queue().size();
    (void)m.get_history(); (void)cm.get_history();
    m.execute_queued_events(); m.execute_single_queued_event(); m.clear_deferred_queue();
    // state names by id
    typedef typename Top::stt Stt;
    typedef typename msm::back::generate_state_set<Stt>::type all_states;
    char const* names[16] = {0};
    mpl::for_each<all_states, boost::msm::wrap<mpl::placeholders::_1> >(msm::back::fill_state_names<Stt>(names));
    std::string name;
    mpl::for_each<all_states, boost::msm::wrap<mpl::placeholders::_1> >(msm::back::get_state_name<Stt>(name, cm.current_state()[0]));
    mpl::for_each<all_states, boost::msm::wrap<mpl::placeholders::_1> >(msm::back::display_type());
    m.stop();
    return r + (int)name.size() + (names[0] ? 1 : 0);
}
template <class W> int i_use_mp11()
{
    typedef typename W::Top Top;
    Top m; m.start(); m.process_event(i_def()); m.enqueue_event(i_go()); m.process_event(i_go()); m.process_event(i_in());
    const Top& cm = m;
    int r = cm.get_active_state_ids()[0] + cm.get_active_state_ids()[1];
    r += m.template is_state_active<typename W::Sub>() + m.template is_state_active<typename W::Sub_::X2>() + cm.template is_flag_active<i_flag>();
    typename W::Sub& sub = m.template get_state<typename W::Sub>();
    r += sub.is_contained() + m.is_contained() + (int)Top::template get_state_id<typename W::Sub>();
    int n = 0;
    m.visit([&n](auto&) { ++n; });
    m.template visit<msm::backmp11::visit_mode::active_non_recursive>([&n](auto&) { ++n; });
    m.template visit<msm::backmp11::visit_mode::all_recursive>([&n](auto&) { ++n; });
    m.template visit<msm::backmp11::visit_mode::all_non_recursive>([&n](auto&) { ++n; });
    r += (int)m.process_event_pool(1) + (int)m.process_event_pool();
    m.stop();
    return r + n;
}
template int i_use_back<i_machines<msm::back::state_machine>>();
template int i_use_back<i_machines<msm::back11::state_machine>>();
template int i_use_mp11<i_machines<msm::backmp11::state_machine_adapter>>();
}
int main() { return 0; }
