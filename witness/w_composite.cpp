// Witness TU (parsed only, never linked or run): the repository's composite test machine in all five back-end
// configurations, plus uses the tests do not make: stop() on a hierarchical machine, a third nesting level (the whole player as a
// submachine state of Root3), copy construction / assignment, lvalue / const-lvalue event submission, queued events,
// introspection calls.
#include "CompositeMachine.cpp"
#include <boost/msm/front/functor_row.hpp>

namespace
{
struct w_enter {};
struct w_leave {};
struct w_other {};

struct w_step {};
struct w_in {};
struct w_flag {};
struct w_deep {};
struct w_st : public msm::front::state<>
{
    template <class Event, class FSM> void on_entry(Event const&, FSM&) {}
    template <class Event, class FSM> void on_exit(Event const&, FSM&) {}
};
struct w_act { template <class E, class F, class S, class T> void operator()(E const&, F&, S&, T&) {} };
struct w_grd { template <class E, class F, class S, class T> bool operator()(E const&, F&, S&, T&) { return true; } };

template <template <typename...> class Back, typename Policy = void>
struct w_depth3
{
    struct Inner_ : public msm::front::state_machine_def<Inner_>
    {
        struct L1 : w_st {}; struct L2 : w_st { typedef mpl::vector<w_flag> flag_list; };
        typedef L1 initial_state;
        template <class Event, class FSM> void on_entry(Event const&, FSM&) {}
        template <class Event, class FSM> void on_exit(Event const&, FSM&) {}
        struct transition_table : mpl::vector<
            msm::front::Row<L1, w_step, L2, w_act, msm::front::none>,
            msm::front::Row<L2, w_step, L1, msm::front::none, w_grd>,
            msm::front::Row<L1, w_deep, L2, msm::front::none, msm::front::none>   // an event only the innermost level knows
        > {};
        template <class FSM, class Event> void no_transition(Event const&, FSM&, int) {}
    };
    typedef Back<Inner_, Policy> Inner;
    struct Mid_ : public msm::front::state_machine_def<Mid_>
    {
        struct A1 : w_st {}; struct A2 : w_st {}; struct B1 : w_st {};
        typedef mpl::vector<A1, B1> initial_state;          // two orthogonal regions, Inner lives in the second
        template <class Event, class FSM> void on_entry(Event const&, FSM&) {}
        template <class Event, class FSM> void on_exit(Event const&, FSM&) {}
        struct transition_table : mpl::vector<
            msm::front::Row<A1, w_step, A2, w_act, w_grd>,
            msm::front::Row<A2, w_step, A1, msm::front::none, msm::front::none>,
            msm::front::Row<B1, w_in, Inner, w_act, msm::front::none>,
            msm::front::Row<Inner, w_other, B1, msm::front::none, w_grd>,
            msm::front::Row<Inner, w_step, B1, w_act, w_grd>    // outer row on an event Inner also handles
        > {};
        template <class FSM, class Event> void no_transition(Event const&, FSM&, int) {}
    };
    typedef Back<Mid_, Policy> Mid;
    struct Root3_ : public msm::front::state_machine_def<Root3_>
    {
        struct Idle : w_st {};
        typedef Idle initial_state;
        template <class Event, class FSM> void on_entry(Event const&, FSM&) {}
        template <class Event, class FSM> void on_exit(Event const&, FSM&) {}
        struct transition_table : mpl::vector<
            msm::front::Row<Idle, w_enter, Mid, w_act, msm::front::none>,
            msm::front::Row<Mid, w_leave, Idle, msm::front::none, w_grd>,
            msm::front::Row<Mid, w_step, Idle, w_act, w_grd>
        > {};
        template <class FSM, class Event> void no_transition(Event const&, FSM&, int) {}
    };
    typedef Back<Root3_, Policy> Root3;
    // a fourth level: Root3 itself used as a state (events known only three levels down must still be forwarded)
    struct Root4_ : public msm::front::state_machine_def<Root4_>
    {
        struct Idle4 : w_st {};
        typedef Idle4 initial_state;
        template <class Event, class FSM> void on_entry(Event const&, FSM&) {}
        template <class Event, class FSM> void on_exit(Event const&, FSM&) {}
        struct transition_table : mpl::vector<
            msm::front::Row<Idle4, w_flag, Root3, msm::front::none, msm::front::none>,
            msm::front::Row<Root3, w_other, Idle4, msm::front::none, w_grd>
        > {};
        template <class FSM, class Event> void no_transition(Event const&, FSM&, int) {}
    };
    typedef Back<Root4_, Policy> Root4;
};

template <class Cfg>
void w_use_player()
{
    typename Cfg::player p;
    p.start();
    p.process_event(open_close());
    open_close oc; p.process_event(oc);
    const cd_detected cd("x"); p.process_event(cd);
    p.process_event(play());
    NextSong ns; p.process_event(ns);
    p.enqueue_event(pause());
    p.execute_queued_events();
    p.process_event(end_pause());
    p.stop();                                   // composite exit cascade from the root
    typename Cfg::player q(p);                  // copy from a non-const lvalue
    const typename Cfg::player& cp = p;
    typename Cfg::player r(cp);                 // copy from a const reference
    q = cp;
    (void)r.current_state();
    r.start(); r.process_event(stop()); r.stop();
    r.start(play());                            // start(Event) overload
    r.stop(stop());                             // stop(Event) overload
}

template <class M, class S> auto w_query(M& m, int) -> decltype(m.template is_state_active<S>(), void()) { (void)m.template is_state_active<S>(); }
template <class M, class S> void w_query(M&, long) {}

template <class D3>
void w_use_depth3()
{
    typename D3::Root3 m;
    m.start();
    m.process_event(w_enter());
    m.process_event(w_in());
    w_step st; m.process_event(st);
    const w_in cin_{}; (void)cin_;
    m.process_event(w_deep());
    m.process_event(w_other());
    m.process_event(w_leave());
    m.process_event(w_enter());
    m.process_event(w_in());
    w_query<typename D3::Root3, typename D3::Inner_::L2>(m, 0);     // introspection two levels down (backmp11 only)
    (void)m.template is_flag_active<w_flag>();
    m.stop();                                   // exits Inner's substate, Inner, Mid's regions, Mid, then Root3
    typename D3::Root3 c(static_cast<const typename D3::Root3&>(m));
    c = m;
    c.start(w_enter()); c.stop(w_leave());
    typename D3::Root4 r4;
    r4.start();
    r4.process_event(w_flag()); r4.process_event(w_enter()); r4.process_event(w_in());
    r4.process_event(w_deep());                  // handled only by Inner, three levels below Root4
    r4.process_event(w_step());
    r4.stop();
}

template void w_use_player<hierarchical_state_machine<boost::msm::back::state_machine>>();
template void w_use_player<hierarchical_state_machine<boost::msm::back::state_machine, boost::msm::back::favor_compile_time>>();
template void w_use_player<hierarchical_state_machine<boost::msm::back11::state_machine>>();
template void w_use_player<hierarchical_state_machine<boost::msm::backmp11::state_machine_adapter>>();
template void w_use_player<hierarchical_state_machine<boost::msm::backmp11::state_machine_adapter, boost::msm::backmp11::favor_compile_time>>();
// backmp11 with the function_pointer_array dispatch strategy (no base-class triggers: that strategy does not compile with them)
struct w_fpa_policy : boost::msm::backmp11::favor_runtime_speed { using dispatch_strategy = boost::msm::backmp11::dispatch_strategy::function_pointer_array; };
struct w_fpa_config : boost::msm::backmp11::state_machine_config { using compile_policy = w_fpa_policy; };
template <typename FE, typename...> struct w_fpa : boost::msm::backmp11::state_machine<FE, w_fpa_config, w_fpa<FE>> {};
template void w_use_depth3<w_depth3<w_fpa>>();
template void w_use_depth3<w_depth3<boost::msm::back::state_machine>>();
template void w_use_depth3<w_depth3<boost::msm::back::state_machine, boost::msm::back::favor_compile_time>>();
template void w_use_depth3<w_depth3<boost::msm::back11::state_machine>>();
template void w_use_depth3<w_depth3<boost::msm::backmp11::state_machine_adapter>>();
template void w_use_depth3<w_depth3<boost::msm::backmp11::state_machine_adapter, boost::msm::backmp11::favor_compile_time>>();
}
// favor_compile_time: the submachines re-type boost::any events with the generated process_any_event
using w_fct_mid = w_depth3<boost::msm::back::state_machine, boost::msm::back::favor_compile_time>::Mid;
using w_fct_inner = w_depth3<boost::msm::back::state_machine, boost::msm::back::favor_compile_time>::Inner;
using w_fct_root3 = w_depth3<boost::msm::back::state_machine, boost::msm::back::favor_compile_time>::Root3;
BOOST_MSM_BACK_GENERATE_PROCESS_EVENT(w_fct_mid);
BOOST_MSM_BACK_GENERATE_PROCESS_EVENT(w_fct_inner);
BOOST_MSM_BACK_GENERATE_PROCESS_EVENT(w_fct_root3);
