// Type-level witness (compiled with -fsyntax-only): an eUML transition-table expression yields exactly the functor rows a user would
// write by hand - source / event / target, action sequence in written order, guard expression with the C++ precedence of ! && ||.
#include <boost/msm/back/state_machine.hpp>
#include <boost/msm/front/euml/euml.hpp>
#include <boost/msm/front/functor_row.hpp>
#include <boost/msm/front/operator.hpp>
#include <type_traits>
using namespace boost::msm::front::euml;
namespace mf = boost::msm::front;
namespace fu = boost::fusion;
BOOST_MSM_EUML_EVENT(ev1)
BOOST_MSM_EUML_EVENT(ev2)
BOOST_MSM_EUML_STATE((), S1)
BOOST_MSM_EUML_STATE((), S2)
BOOST_MSM_EUML_ACTION(a1){ template <class E,class F,class S,class T> void operator()(E const&,F&,S&,T&){} };
BOOST_MSM_EUML_ACTION(a2){ template <class E,class F,class S,class T> void operator()(E const&,F&,S&,T&){} };
BOOST_MSM_EUML_ACTION(a3){ template <class E,class F,class S,class T> void operator()(E const&,F&,S&,T&){} };
BOOST_MSM_EUML_ACTION(g1){ template <class E,class F,class S,class T> bool operator()(E const&,F&,S&,T&){return true;} };
BOOST_MSM_EUML_ACTION(g2){ template <class E,class F,class S,class T> bool operator()(E const&,F&,S&,T&){return true;} };
BOOST_MSM_EUML_ACTION(g3){ template <class E,class F,class S,class T> bool operator()(E const&,F&,S&,T&){return true;} };
typedef std::remove_cv_t<decltype(S1)> S1t; typedef std::remove_cv_t<decltype(S2)> S2t;
typedef std::remove_cv_t<decltype(ev1)> E1t; typedef std::remove_cv_t<decltype(ev2)> E2t;
typedef a1_impl A1t; typedef a2_impl A2t; typedef a3_impl A3t;       // BOOST_MSM_EUML_ACTION(x) defines the functor x_impl
typedef g1_impl G1t; typedef g2_impl G2t; typedef g3_impl G3t;
#define ROWOF(expr) BOOST_TYPEOF(BOOST_MSM_EUML_BUILD_STT_HELPER BOOST_MSM_EUML_BUILD_STT_HELPER2((expr)))
template <class A> using Seq1 = mf::ActionSequence_<fu::vector<A>>;
static_assert(std::is_same<ROWOF(S2 == S1 + ev1 [g1 && !g2] / (a1, a2)), fu::vector<mf::Row<S1t, E1t, S2t, mf::ActionSequence_<fu::vector<A1t, A2t>>, And_<G1t, Not_<G2t>>>>>::value, "EUML-001: target == source + event [guard] / (actions)");
static_assert(std::is_same<ROWOF(S1 == S2 + ev2 / a1), fu::vector<mf::Row<S2t, E2t, S1t, Seq1<A1t>, mf::none>>>::value, "EUML-002: action only");
static_assert(std::is_same<ROWOF(S2 + ev1 [g1 || g2 && g3]), fu::vector<mf::Row<S2t, E1t, mf::none, mf::none, Or_<G1t, And_<G2t, G3t>>>>>::value, "EUML-003: && binds tighter than ||, internal row without target");
static_assert(std::is_same<ROWOF(S2 + ev1 [(g1 || g2) && !g3]), fu::vector<mf::Row<S2t, E1t, mf::none, mf::none, And_<Or_<G1t, G2t>, Not_<G3t>>>>>::value, "EUML-004: parentheses and negation");
static_assert(std::is_same<ROWOF(S1 + ev2 [g2] / a2), fu::vector<mf::Row<S1t, E2t, mf::none, Seq1<A2t>, G2t>>>::value, "EUML-005: internal row with guard and action");
static_assert(std::is_same<ROWOF(S2 == S1 + ev1 / (a1, a2, a3)), fu::vector<mf::Row<S1t, E1t, S2t, mf::ActionSequence_<fu::vector<A1t, A2t, A3t>>, mf::none>>>::value, "EUML-006: three actions in written order");
static_assert(std::is_same<ROWOF(S2 == S1 + ev1), fu::vector<mf::Row<S1t, E1t, S2t, mf::none, mf::none>>>::value, "EUML-007: plain row");
static_assert(std::is_same<ROWOF(S1 + ev1 == S2), fu::vector<mf::Row<S1t, E1t, S2t, mf::none, mf::none>>>::value, "EUML-008: source + event == target spelling");
static_assert(std::is_same<ROWOF(S1 + ev1 [g1] / a1 == S2), fu::vector<mf::Row<S1t, E1t, S2t, Seq1<A1t>, G1t>>>::value, "EUML-009: full row in source-first spelling");

// ---- eUML configuration objects: each stands for exactly the option its name says
namespace eu = boost::msm::front::euml;
static_assert(std::is_same<decltype(eu::switch_active_before_transition)::active_state_switch_policy, boost::msm::active_state_switch_before_transition>::value, "EUML-010: switch_active_before_transition selects active_state_switch_before_transition");
static_assert(std::is_same<decltype(eu::switch_active_after_exit)::active_state_switch_policy, boost::msm::active_state_switch_after_exit>::value, "EUML-011: switch_active_after_exit selects active_state_switch_after_exit");
static_assert(std::is_same<decltype(eu::switch_active_after_action)::active_state_switch_policy, boost::msm::active_state_switch_after_transition_action>::value, "EUML-012: switch_active_after_action selects active_state_switch_after_transition_action");
static_assert(has_no_exception_thrown<std::remove_const<decltype(eu::no_exception)>::type>::value && !has_no_message_queue<std::remove_const<decltype(eu::no_exception)>::type>::value, "EUML-013: no_exception declares no_exception_thrown only");
static_assert(has_no_message_queue<std::remove_const<decltype(eu::no_msg_queue)>::type>::value && !has_no_exception_thrown<std::remove_const<decltype(eu::no_msg_queue)>::type>::value, "EUML-014: no_msg_queue declares no_message_queue only");
static_assert(has_activate_deferred_events<std::remove_const<decltype(eu::deferred_events)>::type>::value, "EUML-015: deferred_events declares activate_deferred_events");
// comparison operators inside a guard build the functor named after the operator, operands in written order
static_assert(std::is_same<ROWOF(S2 + ev1 [g1 >= g2]), fu::vector<mf::Row<S2t, E1t, mf::none, mf::none, GreaterEqual_<G1t, G2t>>>>::value, "EUML-016: a >= b builds GreaterEqual_<a, b>");
static_assert(std::is_same<ROWOF(S2 + ev1 [g1 > g2]), fu::vector<mf::Row<S2t, E1t, mf::none, mf::none, Greater_<G1t, G2t>>>>::value, "EUML-017: a > b builds Greater_<a, b>");
static_assert(std::is_same<ROWOF(S2 + ev1 [g1 <= g2]), fu::vector<mf::Row<S2t, E1t, mf::none, mf::none, LessEqual_<G1t, G2t>>>>::value, "EUML-018: a <= b builds LessEqual_<a, b>");
static_assert(std::is_same<ROWOF(S2 + ev1 [g1 < g2]), fu::vector<mf::Row<S2t, E1t, mf::none, mf::none, Less_<G1t, G2t>>>>::value, "EUML-019: a < b builds Less_<a, b>");
static_assert(std::is_same<ROWOF(S2 + ev1 [g1 == g2]), fu::vector<mf::Row<S2t, E1t, mf::none, mf::none, EqualTo_<G1t, G2t>>>>::value, "EUML-020: a == b builds EqualTo_<a, b>");
static_assert(std::is_same<ROWOF(S2 + ev1 [g1 != g2]), fu::vector<mf::Row<S2t, E1t, mf::none, mf::none, NotEqualTo_<G1t, G2t>>>>::value, "EUML-021: a != b builds NotEqualTo_<a, b>");
