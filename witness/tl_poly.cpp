// Type-level witness (compiled with -fsyntax-only): inline / heap selection of the backmp11 event pool element over a matrix of
// sizes, alignments and move-exception specifications; capacity of the control block's size field.
#include <boost/msm/backmp11/detail/basic_polymorphic.hpp>
#include <limits>
#include <type_traits>
namespace d = boost::msm::backmp11::detail;
struct tl_base { virtual ~tl_base() = default; };
template <std::size_t BS, std::size_t BA>
struct probe : d::basic_polymorphic_base<BS, BA>
{
    template <class U> static constexpr bool inl = d::basic_polymorphic_base<BS, BA>::template IsInline<U>::value;
};
template <std::size_t N, std::size_t A, bool NothrowMove>
struct alignas(A) obj
{
    unsigned char b[N];
    obj() = default;
    obj(const obj&) = default;
    obj(obj&&) noexcept(NothrowMove) {}
};
constexpr std::size_t BS = 64 - sizeof(d::control_block*);
constexpr std::size_t BA = alignof(void*);
template <std::size_t N, std::size_t A, bool NM>
constexpr bool expect = sizeof(obj<N, A, NM>) <= BS && alignof(obj<N, A, NM>) <= BA && NM;
#define CHK(N, A, NM, ID) static_assert(probe<BS, BA>::inl<obj<N, A, NM>> == expect<N, A, NM>, ID ": inline selection for size " #N " align " #A " nothrow-move " #NM);
CHK(1, 1, true, "POLY-001") CHK(1, 1, false, "POLY-002") CHK(8, 8, true, "POLY-003") CHK(55, 1, true, "POLY-004") CHK(56, 1, true, "POLY-005")
CHK(57, 1, true, "POLY-006") CHK(56, 8, true, "POLY-007") CHK(64, 8, true, "POLY-008") CHK(16, 16, true, "POLY-009") CHK(32, 32, true, "POLY-010")
CHK(64, 64, true, "POLY-011") CHK(512, 1, true, "POLY-012") CHK(48, 8, false, "POLY-013") CHK(2, 2, true, "POLY-014") CHK(4, 4, true, "POLY-015")
// the boundary cases really are on both sides of the limit
static_assert(probe<BS, BA>::inl<obj<56, 1, true>> && !probe<BS, BA>::inl<obj<57, 1, true>>, "POLY-016: size boundary");
static_assert(probe<BS, BA>::inl<obj<8, 8, true>> && !probe<BS, BA>::inl<obj<16, 16, true>>, "POLY-017: alignment boundary");
static_assert(!probe<BS, BA>::inl<obj<8, 8, false>>, "POLY-018: throwing move goes to the heap");
// the size field of the control block can hold every inline size
static_assert(std::numeric_limits<decltype(d::control_block::size)>::max() >= BS, "POLY-019: control_block::size can hold the buffer size");
static_assert(sizeof(d::basic_polymorphic<tl_base>) == 64, "POLY-020: pool element occupies one cache line as documented");
