// Witness TU (parsed only): deferral declared at nesting depth 0, 1 and 2 (Root > Mid > Inner > Hold), conflicting outer rows,
// a Defer action row, in all five back-end configurations.
#include "BackCommon.hpp"
#include <boost/msm/front/state_machine_def.hpp>
#include <boost/msm/front/functor_row.hpp>
namespace msm = boost::msm;
namespace mpl = boost::mpl;
namespace
{
struct wd_go {}; struct wd_in {}; struct wd_d {}; struct wd_release {}; struct wd_e2 {};
struct wd_st : public msm::front::state<>
{
    template <class Event, class FSM> void on_entry(Event const&, FSM&) {}
    template <class Event, class FSM> void on_exit(Event const&, FSM&) {}
};
struct wd_act { template <class E, class F, class S, class T> void operator()(E const&, F&, S&, T&) {} };
struct wd_grd { template <class E, class F, class S, class T> bool operator()(E const&, F&, S&, T&) { return true; } };

template <template <typename...> class Back, typename Policy = void>
struct wd_machines
{
    struct Inner_ : public msm::front::state_machine_def<Inner_>
    {
        struct Hold : wd_st { typedef mpl::vector<wd_d> deferred_events; };     // defers wd_d at depth 2
        struct Free : wd_st {};
        typedef Hold initial_state;
        template <class Event, class FSM> void on_entry(Event const&, FSM&) {}
        template <class Event, class FSM> void on_exit(Event const&, FSM&) {}
        struct transition_table : mpl::vector<
            msm::front::Row<Hold, wd_release, Free, wd_act, msm::front::none>,
            msm::front::Row<Free, wd_d, Hold, wd_act, wd_grd>
        > {};
        template <class FSM, class Event> void no_transition(Event const&, FSM&, int) {}
    };
    typedef Back<Inner_, Policy> Inner;
    struct Mid_ : public msm::front::state_machine_def<Mid_>
    {
        struct M1 : wd_st {};                                                    // Mid has no deferring state of its own
        typedef M1 initial_state;
        template <class Event, class FSM> void on_entry(Event const&, FSM&) {}
        template <class Event, class FSM> void on_exit(Event const&, FSM&) {}
        struct transition_table : mpl::vector<
            msm::front::Row<M1, wd_in, Inner, msm::front::none, msm::front::none>,
            msm::front::Row<Inner, wd_e2, M1, wd_act, msm::front::none>
        > {};
        template <class FSM, class Event> void no_transition(Event const&, FSM&, int) {}
    };
    typedef Back<Mid_, Policy> Mid;
    struct Root_ : public msm::front::state_machine_def<Root_>
    {
        struct Idle : wd_st { typedef mpl::vector<wd_e2> deferred_events; };     // depth-0 deferral of another event
        struct Other : wd_st {};
        typedef Idle initial_state;
        template <class Event, class FSM> void on_entry(Event const&, FSM&) {}
        template <class Event, class FSM> void on_exit(Event const&, FSM&) {}
        struct transition_table : mpl::vector<
            msm::front::Row<Idle, wd_go, Mid, wd_act, msm::front::none>,
            msm::front::Row<Mid, wd_d, Other, wd_act, wd_grd>,                   // outer row on the event deferred two levels below
            msm::front::Row<Other, wd_go, Idle, msm::front::none, msm::front::none>,
            msm::front::Row<Other, wd_release, msm::front::none, msm::front::Defer, msm::front::none>
        > {};
        template <class FSM, class Event> void no_transition(Event const&, FSM&, int) {}
    };
    typedef Back<Root_, Policy> Root;
};

template <class W>
void wd_use()
{
    typename W::Root m;
    m.start();
    m.process_event(wd_e2());
    m.process_event(wd_go());
    m.process_event(wd_in());
    m.process_event(wd_d());
    wd_d d; m.process_event(d);
    const wd_e2 ce2{}; m.process_event(ce2);          // const lvalue submission of an event the root's Idle state defers
    m.process_event(wd_release());
    m.process_event(wd_e2());
    m.stop();
}
template void wd_use<wd_machines<boost::msm::back::state_machine>>();
template void wd_use<wd_machines<boost::msm::back::state_machine, boost::msm::back::favor_compile_time>>();
template void wd_use<wd_machines<boost::msm::back11::state_machine>>();
template void wd_use<wd_machines<boost::msm::backmp11::state_machine_adapter>>();
template void wd_use<wd_machines<boost::msm::backmp11::state_machine_adapter, boost::msm::backmp11::favor_compile_time>>();
// ---- a Defer action row whose trigger is a BASE class of the submitted event (the action sees, and defers, the base part only)
struct wd_bjob { int id = 0; };
struct wd_ujob : wd_bjob { int prio = 0; };
struct wd_ready {};
template <template <typename...> class Back>
struct wd_base_defer
{
    struct Top_ : public msm::front::state_machine_def<Top_>
    {
        typedef int activate_deferred_events;
        struct Waiting : wd_st {}; struct Working : wd_st {};
        typedef Waiting initial_state;
        struct transition_table : mpl::vector<
            msm::front::Row<Waiting, wd_bjob, msm::front::none, msm::front::Defer, msm::front::none>,
            msm::front::Row<Waiting, wd_ready, Working, msm::front::none, msm::front::none>,
            msm::front::Row<Working, wd_ujob, Waiting, wd_act, msm::front::none>
        > {};
        template <class FSM, class Event> void no_transition(Event const&, FSM&, int) {}
    };
    typedef Back<Top_> Top;
};
template <class W> void wd_slice_use() { typename W::Top m; m.start(); m.process_event(wd_ujob()); m.process_event(wd_bjob()); m.process_event(wd_ready()); m.stop(); }
template void wd_slice_use<wd_base_defer<boost::msm::back::state_machine>>();
template void wd_slice_use<wd_base_defer<boost::msm::back11::state_machine>>();
template void wd_slice_use<wd_base_defer<boost::msm::backmp11::state_machine_adapter>>();
// ---- deferring actions other than the plain Defer functor: a sequence containing Defer, a user functor marked deferring_action
struct wd_sjob {}; struct wd_mjob {};
struct wd_my_defer { typedef int deferring_action; template <class E, class F, class S, class T> void operator()(E const& e, F& f, S&, T&) { f.defer_event(e); } };
template <template <typename...> class Back>
struct wd_seq_defer
{
    struct Top_ : public msm::front::state_machine_def<Top_>
    {
        typedef int activate_deferred_events;
        struct Waiting : wd_st {}; struct Working : wd_st {};
        typedef Waiting initial_state;
        struct transition_table : mpl::vector<
            msm::front::Row<Waiting, wd_sjob, msm::front::none, msm::front::ActionSequence_<mpl::vector<msm::front::Defer, wd_act> >, msm::front::none>,
            msm::front::Row<Waiting, wd_mjob, msm::front::none, wd_my_defer, msm::front::none>,
            msm::front::Row<Waiting, wd_ready, Working, msm::front::none, msm::front::none>,
            msm::front::Row<Working, wd_sjob, Waiting, wd_act, msm::front::none>,
            msm::front::Row<Working, wd_mjob, Waiting, wd_act, msm::front::none>
        > {};
        template <class FSM, class Event> void no_transition(Event const&, FSM&, int) {}
    };
    typedef Back<Top_> Top;
};
template <class W> void wd_seq_use() { typename W::Top m; m.start(); m.process_event(wd_sjob()); m.process_event(wd_mjob()); m.process_event(wd_ready()); m.stop(); }
template void wd_seq_use<wd_seq_defer<boost::msm::back::state_machine>>();
template void wd_seq_use<wd_seq_defer<boost::msm::back11::state_machine>>();
template void wd_seq_use<wd_seq_defer<boost::msm::backmp11::state_machine_adapter>>();
// two orthogonal regions whose active states BOTH defer the same event (no row on it in either of them)
struct wd_twice {};
template <template <typename...> class Back>
struct wd_both_defer
{
    struct Top_ : public msm::front::state_machine_def<Top_>
    {
        struct A1 : wd_st { typedef mpl::vector<wd_twice> deferred_events; };
        struct A2 : wd_st {};
        struct B1 : wd_st { typedef mpl::vector<wd_twice> deferred_events; };
        struct B2 : wd_st {};
        typedef mpl::vector<A1, B1> initial_state;
        struct transition_table : mpl::vector<
            msm::front::Row<A1, wd_go, A2, msm::front::none, msm::front::none>,
            msm::front::Row<A2, wd_twice, msm::front::none, wd_act, msm::front::none>,
            msm::front::Row<B1, wd_go, B2, msm::front::none, msm::front::none>
        > {};
        template <class FSM, class Event> void no_transition(Event const&, FSM&, int) {}
    };
    typedef Back<Top_> Top;
};
template <class W> void wd_both_use() { typename W::Top m; m.start(); m.process_event(wd_twice()); m.process_event(wd_go()); m.stop(); }
template void wd_both_use<wd_both_defer<boost::msm::back::state_machine>>();
template void wd_both_use<wd_both_defer<boost::msm::back11::state_machine>>();
template void wd_both_use<wd_both_defer<boost::msm::backmp11::state_machine_adapter>>();
}
