// Witness TU (parsed only): user flags on ordinary states, on terminate / interrupt states (which also carry the library's internal
// flags), on a submachine's front-end and on its substates two levels down; OR and AND queries; back, back11, backmp11.
#include <boost/msm/back/state_machine.hpp>
#include <boost/msm/back11/state_machine.hpp>
#include <boost/msm/backmp11/state_machine.hpp>
#include <boost/msm/backmp11/favor_compile_time.hpp>
#include "Backmp11Adapter.hpp"
#include <boost/msm/front/state_machine_def.hpp>
#include <boost/msm/front/functor_row.hpp>
namespace msm = boost::msm;
namespace mpl = boost::mpl;
namespace
{
struct f_go {}; struct f_err {}; struct f_halt {}; struct f_resume {}; struct f_in {}; struct f_deeper {}; struct f_ping {};
struct f_A {}; struct f_B {}; struct f_C {}; struct f_D {};
template <class FE> struct f_back { typedef msm::back::state_machine<FE> type; };
template <class FE> struct f_back11 { typedef msm::back11::state_machine<FE> type; };
template <class FE> struct f_mp11 { typedef msm::backmp11::state_machine_adapter<FE> type; };
template <class FE> struct f_mp11_fct { typedef msm::backmp11::state_machine_adapter<FE, msm::backmp11::favor_compile_time> type; };
template <template <class> class Back>
struct f_machines
{
    struct st : public msm::front::state<>
    {
        template <class Event, class FSM> void on_entry(Event const&, FSM&) {}
        template <class Event, class FSM> void on_exit(Event const&, FSM&) {}
    };
    struct Low_ : public msm::front::state_machine_def<Low_>
    {
        struct L1 : st {}; struct L2 : st { typedef mpl::vector<f_D> flag_list; };
        typedef L1 initial_state;
        struct transition_table : mpl::vector<msm::front::Row<L1, f_deeper, L2, msm::front::none, msm::front::none> > {};
        template <class FSM, class Event> void no_transition(Event const&, FSM&, int) {}
    };
    typedef typename Back<Low_>::type Low;
    struct Mid_ : public msm::front::state_machine_def<Mid_>
    {
        typedef mpl::vector<f_C> flag_list;              // flag of the submachine state itself
        struct M1 : st {};
        typedef M1 initial_state;
        struct transition_table : mpl::vector<msm::front::Row<M1, f_in, Low, msm::front::none, msm::front::none> > {};
        template <class FSM, class Event> void no_transition(Event const&, FSM&, int) {}
    };
    typedef typename Back<Mid_>::type Mid;
    struct Top_ : public msm::front::state_machine_def<Top_>
    {
        struct S1 : st { typedef mpl::vector<f_A> flag_list; };
        struct S2 : st { typedef mpl::vector<f_A, f_B> flag_list; };
        struct Ok : st { typedef mpl::vector<f_A> flag_list; };
        // two end-interrupt events; the second one has no row in the machine's transition table, only an internal row of the state
        struct Halted : public msm::front::interrupt_state<mpl::vector<f_resume, f_ping> >
        {
            typedef mpl::vector<f_B> flag_list;
            struct internal_transition_table : mpl::vector<msm::front::Internal<f_ping, msm::front::none, msm::front::none> > {};
        };
        struct Dead : public msm::front::terminate_state<> { typedef mpl::vector<f_B, f_A> flag_list; };
        typedef mpl::vector<S1, Ok> initial_state;
        struct transition_table : mpl::vector<
            msm::front::Row<S1, f_go, S2, msm::front::none, msm::front::none>,
            msm::front::Row<S2, f_in, Mid, msm::front::none, msm::front::none>,
            msm::front::Row<Ok, f_halt, Halted, msm::front::none, msm::front::none>,
            msm::front::Row<Halted, f_resume, Ok, msm::front::none, msm::front::none>,
            msm::front::Row<Ok, f_err, Dead, msm::front::none, msm::front::none>
        > {};
        template <class FSM, class Event> void no_transition(Event const&, FSM&, int) {}
    };
    typedef typename Back<Top_>::type Top;
};
template <class M> bool f_query_back(M& m)
{
    return m.template is_flag_active<f_A>() | m.template is_flag_active<f_B>() | m.template is_flag_active<f_C>() | m.template is_flag_active<f_D>()
         | m.template is_flag_active<f_A, typename M::Flag_AND>() | m.template is_flag_active<f_B, typename M::Flag_AND>();
}
template <class M> bool f_query_mp11(M& m)
{
    return m.template is_flag_active<f_A>() | m.template is_flag_active<f_B>() | m.template is_flag_active<f_C>() | m.template is_flag_active<f_D>()
         | m.template is_flag_active<f_A, msm::backmp11::flag_and>() | m.template is_flag_active<f_B, msm::backmp11::flag_and>();
}
template <class M> void f_drive(M& m)
{
    m.start(); m.process_event(f_go()); m.process_event(f_in()); m.process_event(f_in()); m.process_event(f_deeper());
    m.process_event(f_halt()); m.process_event(f_ping()); m.process_event(f_resume()); m.process_event(f_err());
}
void f_use()
{
    { f_machines<f_back>::Top m; f_drive(m); (void)f_query_back(m); m.stop(); }
    { f_machines<f_back11>::Top m; f_drive(m); (void)f_query_back(m); m.stop(); }
    { f_machines<f_mp11>::Top m; f_drive(m); (void)f_query_mp11(m); m.stop(); }
    { f_machines<f_mp11_fct>::Top m; f_drive(m); (void)f_query_mp11(m); m.stop(); }
}
// a blocking state that lists the library's terminate flag in its PLAIN flag_list, the way the eUML terminate states do
template <template <class> class Back>
struct f_plain_blocking
{
    struct Top_ : public msm::front::state_machine_def<Top_>
    {
        struct Run : public msm::front::state<> {};
        struct Dead : public msm::front::state<> { typedef mpl::vector<msm::TerminateFlag> flag_list; };
        typedef Run initial_state;
        struct transition_table : mpl::vector<
            msm::front::Row<Run, f_err, Dead, msm::front::none, msm::front::none>,
            msm::front::Row<Dead, f_go, Run, msm::front::none, msm::front::none>
        > {};
        template <class FSM, class Event> void no_transition(Event const&, FSM&, int) {}
    };
    typedef typename Back<Top_>::type Top;
};
template <class M> void f_drive_plain() { M m; m.start(); m.process_event(f_err()); m.process_event(f_go()); m.stop(); }
void f_use_plain()
{
    f_drive_plain<f_plain_blocking<f_back>::Top>();
    f_drive_plain<f_plain_blocking<f_back11>::Top>();
    f_drive_plain<f_plain_blocking<f_mp11>::Top>();
    f_drive_plain<f_plain_blocking<f_mp11_fct>::Top>();
}
}
int main() { return 0; }
