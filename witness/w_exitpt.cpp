// Witness TU (parsed only): rows whose SOURCE is an exit point of a submachine, in every row flavour the back-ends accept
// (plain, action-only, guard-only; guard+action for back and backmp11 - back11 does not compile that one), under the default and a
// non-default active-state-switch policy, plus an exit point reached from two regions.
#include <boost/msm/back/state_machine.hpp>
#include <boost/msm/back11/state_machine.hpp>
#include <boost/msm/backmp11/state_machine.hpp>
#include <boost/msm/backmp11/favor_compile_time.hpp>
#include "Backmp11Adapter.hpp"
#include <boost/msm/front/state_machine_def.hpp>
#include <boost/msm/front/functor_row.hpp>
namespace msm = boost::msm;
namespace mpl = boost::mpl;
namespace
{
struct x_go {}; struct x_in {}; struct x_back {};
struct x_out1 { int a = 0; }; struct x_out2 {}; struct x_out3 {}; struct x_out4 {};
struct x_pad { long p = 0; };
struct x_mi : x_pad, x_out1 {};      // reaches exit point E1 too: the exit event is a base at a non-zero offset
struct x_act { template <class E, class F, class S, class T> void operator()(E const&, F&, S&, T&) {} };
struct x_grd { template <class E, class F, class S, class T> bool operator()(E const&, F&, S&, T&) { return true; } };
struct x_st : public msm::front::state<>
{
    template <class Event, class FSM> void on_entry(Event const&, FSM&) {}
    template <class Event, class FSM> void on_exit(Event const&, FSM&) {}
};
template <template <class> class Back, bool FullRow>
struct x_machines
{
    struct Sub_ : public msm::front::state_machine_def<Sub_>
    {
        struct A : x_st {}; struct B : x_st {};
        struct E1 : public msm::front::exit_pseudo_state<x_out1> {};
        struct E2 : public msm::front::exit_pseudo_state<x_out2> {};
        struct E3 : public msm::front::exit_pseudo_state<x_out3> {};
        struct E4 : public msm::front::exit_pseudo_state<x_out4> {};
        typedef mpl::vector<A, B> initial_state;
        struct transition_table : mpl::vector<
            msm::front::Row<A, x_out1, E1, msm::front::none, msm::front::none>,
            msm::front::Row<A, x_out2, E2, msm::front::none, msm::front::none>,
            msm::front::Row<B, x_out3, E3, msm::front::none, msm::front::none>,
            msm::front::Row<B, x_out4, E4, msm::front::none, msm::front::none>
        > {};
        template <class FSM, class Event> void no_transition(Event const&, FSM&, int) {}
    };
    typedef Back<Sub_> Sub;
    struct Top_ : public msm::front::state_machine_def<Top_>
    {
        struct Idle : x_st {}; struct Done1 : x_st {}; struct Done2 : x_st {}; struct Done3 : x_st {}; struct Done4 : x_st {};
        typedef Idle initial_state;
        typedef typename mpl::if_c<FullRow,
            msm::front::Row<typename Sub::template exit_pt<typename Sub_::E4>, x_out4, Done4, x_act, x_grd>,
            msm::front::Row<typename Sub::template exit_pt<typename Sub_::E4>, x_out4, Done4, msm::front::none, msm::front::none> >::type row4;
        struct transition_table : mpl::vector<
            msm::front::Row<Idle, x_go, Sub, msm::front::none, msm::front::none>,
            msm::front::Row<typename Sub::template exit_pt<typename Sub_::E1>, x_out1, Done1, msm::front::none, msm::front::none>,
            msm::front::Row<typename Sub::template exit_pt<typename Sub_::E2>, x_out2, Done2, x_act, msm::front::none>,
            msm::front::Row<typename Sub::template exit_pt<typename Sub_::E3>, x_out3, Done3, msm::front::none, x_grd>,
            row4,
            msm::front::Row<Done1, x_back, Idle, msm::front::none, msm::front::none>
        > {};
        template <class FSM, class Event> void no_transition(Event const&, FSM&, int) {}
    };
    typedef Back<Top_> Top;
};
template <class FE> using x_back_be = msm::back::state_machine<FE>;
template <class FE> using x_back_be_pol = msm::back::state_machine<FE, msm::active_state_switch_before_transition>;
template <class FE> using x_back11_be = msm::back11::state_machine<FE>;
template <class FE> using x_back11_be_pol = msm::back11::state_machine<FE, void, msm::active_state_switch_before_transition>;
template <class FE> using x_mp11_be = msm::backmp11::state_machine_adapter<FE>;
template <class FE> using x_mp11_fct_be = msm::backmp11::state_machine_adapter<FE, msm::backmp11::favor_compile_time>;
template <class M> void x_drive()
{
    M m; m.start();
    m.process_event(x_out1());                      // the exit point's event while the submachine is not even active
    m.process_event(x_go()); m.process_event(x_out2()); m.process_event(x_out1()); m.process_event(x_back());
    m.process_event(x_go()); m.process_event(x_out3()); m.process_event(x_out4());
    m.stop();
}
void x_use()
{
    x_drive<x_machines<x_back_be, true>::Top>();
    x_drive<x_machines<x_back_be_pol, true>::Top>();
    x_drive<x_machines<x_back11_be, false>::Top>();
    x_drive<x_machines<x_back11_be_pol, false>::Top>();
    x_drive<x_machines<x_mp11_be, true>::Top>();
    x_drive<x_machines<x_mp11_fct_be, true>::Top>();
}
// an exit point reached by an event DERIVED from the exit point's event, the exit event being a base at a non-zero offset (the
// forwarder of backmp11 is type-erased: it must be handed an object of exactly the exit event's type).  back and backmp11 only:
// back11 does not compile two forwarding rows of one submachine for one event.
template <template <class> class Back>
struct x_derived_exit
{
    struct Sub_ : public msm::front::state_machine_def<Sub_>
    {
        struct A : x_st {};
        struct E1 : public msm::front::exit_pseudo_state<x_out1> {};
        typedef A initial_state;
        struct transition_table : mpl::vector<
            msm::front::Row<A, x_mi, E1, msm::front::none, msm::front::none>
        > {};
        template <class FSM, class Event> void no_transition(Event const&, FSM&, int) {}
    };
    typedef Back<Sub_> Sub;
    struct Top_ : public msm::front::state_machine_def<Top_>
    {
        struct Done1 : x_st {};
        typedef Sub initial_state;
        struct transition_table : mpl::vector<
            msm::front::Row<typename Sub::template exit_pt<typename Sub_::E1>, x_out1, Done1, msm::front::none, msm::front::none>
        > {};
        template <class FSM, class Event> void no_transition(Event const&, FSM&, int) {}
    };
    typedef Back<Top_> Top;
};
template <class M> void x_drive_derived() { M m; m.start(); m.process_event(x_mi()); m.stop(); }
// assignment of a machine with exit points: instantiates exit_pt::operator= (rule C15.keep: the forwarder stays)
// construction from the machine's own type, whatever the value category, selects the copy constructor (rule C15.copy-ctor)
template <class M> void x_copy_variants() { M a; M b(a); M c(static_cast<M&&>(a)); M const& r = b; M d(r); (void)c; (void)d; }
template <class M> void x_assign() { M a; M b; a.start(); b = a; b.process_event(x_mi()); }
void x_use_derived()
{
    x_drive_derived<x_derived_exit<x_back_be>::Top>();
    x_drive_derived<x_derived_exit<x_mp11_be>::Top>();
    x_drive_derived<x_derived_exit<x_mp11_fct_be>::Top>();
    x_assign<x_derived_exit<x_back_be>::Top>();
    x_assign<x_derived_exit<x_back11_be>::Top>();
    x_copy_variants<x_derived_exit<x_back_be>::Top>();
    x_copy_variants<x_derived_exit<x_back11_be>::Top>();
}
}
int main() { return 0; }
