// Witness TU (parsed only): the run-time configuration options in all combinations - no_exception_thrown x no_message_queue as
// front-end typedefs and through the `configuration` sequence (back, back11), no_exception_thrown on a backmp11 front-end, a backmp11
// machine without event container.  Behaviours may throw; an action submits a further event.
#include <boost/msm/back/state_machine.hpp>
#include <boost/msm/back11/state_machine.hpp>
#include <boost/msm/backmp11/state_machine.hpp>
#include "Backmp11Adapter.hpp"
#include <boost/msm/front/state_machine_def.hpp>
#include <boost/msm/front/functor_row.hpp>
#include <boost/mpl/vector.hpp>
#include <stdexcept>
#include <type_traits>
namespace msm = boost::msm;
namespace mpl = boost::mpl;
namespace
{
struct c_go {}; struct c_back {}; struct c_more {};
struct c_tag_noexc { typedef int no_exception_thrown; };
struct c_tag_noq { typedef int no_message_queue; };
struct c_opt_none {};
struct c_opt_noexc { typedef int no_exception_thrown; };
struct c_opt_noq { typedef int no_message_queue; };
struct c_opt_both { typedef int no_exception_thrown; typedef int no_message_queue; };
struct c_cfg_noexc { typedef mpl::vector<c_tag_noexc> cfg; };
struct c_cfg_noq { typedef mpl::vector<c_tag_noq> cfg; };
template <class Opt, class = void> struct c_cfg_of { typedef mpl::vector0<> type; };
template <class Opt> struct c_cfg_of<Opt, typename std::enable_if<sizeof(typename Opt::cfg) != 0>::type> { typedef typename Opt::cfg type; };

struct c_st : public msm::front::state<>
{
    template <class Event, class FSM> void on_entry(Event const&, FSM&) {}
    template <class Event, class FSM> void on_exit(Event const&, FSM&) {}
};
struct c_throw { template <class E, class F, class S, class T> void operator()(E const&, F&, S&, T&) { throw std::runtime_error("c"); } };
struct c_plain { template <class E, class F, class S, class T> void operator()(E const&, F&, S&, T&) {} };
struct c_grd { template <class E, class F, class S, class T> bool operator()(E const&, F&, S&, T&) { return true; } };

template <class Opt>
struct c_fe : public msm::front::state_machine_def<c_fe<Opt>>, public Opt
{
    struct S1 : c_st {}; struct S2 : c_st {};
    typedef S1 initial_state;
    typedef typename c_cfg_of<Opt>::type configuration;
    struct transition_table : mpl::vector<
        msm::front::Row<S1, c_go, S2, c_throw, c_grd>,
        msm::front::Row<S2, c_back, S1, c_plain, msm::front::none>,
        msm::front::Row<S2, c_more, msm::front::none, c_plain, msm::front::none>
    > {};
    template <class FSM, class Event> void no_transition(Event const&, FSM&, int) {}
    template <class FSM, class Event> void exception_caught(Event const&, FSM&, std::exception&) {}
};
template <class M> void c_use()
{
    M m; m.start(); m.process_event(c_go()); m.process_event(c_back()); m.process_event(c_more()); m.stop();
}
#define C_BACKENDS(OPT) \
    template void c_use<msm::back::state_machine<c_fe<OPT>>>(); \
    template void c_use<msm::back11::state_machine<c_fe<OPT>>>();
C_BACKENDS(c_opt_none)
C_BACKENDS(c_opt_noexc)
C_BACKENDS(c_opt_noq)
C_BACKENDS(c_opt_both)
C_BACKENDS(c_cfg_noexc)
C_BACKENDS(c_cfg_noq)
template void c_use<msm::backmp11::state_machine_adapter<c_fe<c_opt_none>>>();
template void c_use<msm::backmp11::state_machine_adapter<c_fe<c_opt_noexc>>>();

// deferred queue / message queue priority option (back, back11)
struct c_opt_prio { typedef int event_queue_before_deferred_queue; };
template <class Opt>
struct c_fe_d : public msm::front::state_machine_def<c_fe_d<Opt>>, public Opt
{
    struct S1 : c_st { typedef mpl::vector<c_more> deferred_events; }; struct S2 : c_st {};
    typedef S1 initial_state;
    struct transition_table : mpl::vector<
        msm::front::Row<S1, c_go, S2, c_plain, c_grd>,
        msm::front::Row<S2, c_more, S1, c_plain, msm::front::none>
    > {};
    template <class FSM, class Event> void no_transition(Event const&, FSM&, int) {}
};
template void c_use<msm::back::state_machine<c_fe_d<c_opt_none>>>();
template void c_use<msm::back::state_machine<c_fe_d<c_opt_prio>>>();
template void c_use<msm::back11::state_machine<c_fe_d<c_opt_none>>>();
template void c_use<msm::back11::state_machine<c_fe_d<c_opt_prio>>>();

// backmp11 without an event container
struct c_no_pool_config : msm::backmp11::state_machine_config
{
    template <typename T> using event_container = msm::backmp11::no_event_container<T>;
};
struct c_fe_np : public msm::front::state_machine_def<c_fe_np>
{
    struct S1 : c_st {}; struct S2 : c_st {};
    typedef S1 initial_state;
    struct transition_table : mpl::vector<
        msm::front::Row<S1, c_go, S2, c_plain, c_grd>,
        msm::front::Row<S2, c_back, S1, c_plain, msm::front::none>
    > {};
    template <class FSM, class Event> void no_transition(Event const&, FSM&, int) {}
};
struct c_np : msm::backmp11::state_machine<c_fe_np, c_no_pool_config, c_np> {};
void c_use_np() { c_np m; m.start(); m.process_event(c_go()); m.process_event(c_back()); m.stop(); }
}
int main() { return 0; }
