// Witness TU (parsed only): the four active-state-switch policies (front-end typedef and, for back, the configuration form),
// rows with / without guard and action, into / out of a submachine, for back, back11 and backmp11.
#include <boost/msm/back/state_machine.hpp>
#include <boost/msm/back11/state_machine.hpp>
#include <boost/msm/backmp11/state_machine.hpp>
#include "Backmp11Adapter.hpp"
#include <boost/msm/front/state_machine_def.hpp>
#include <boost/msm/front/functor_row.hpp>
#include <boost/msm/active_state_switching_policies.hpp>
namespace msm = boost::msm;
namespace mpl = boost::mpl;
namespace
{
struct p_e1 {}; struct p_e2 {}; struct p_e3 {}; struct p_e4 {}; struct p_in {}; struct p_out {};
struct p_st : public msm::front::state<>
{
    template <class Event, class FSM> void on_entry(Event const&, FSM&) {}
    template <class Event, class FSM> void on_exit(Event const&, FSM&) {}
};
struct p_act { template <class E, class F, class S, class T> void operator()(E const&, F&, S&, T&) {} };
struct p_grd { template <class E, class F, class S, class T> bool operator()(E const&, F&, S&, T&) { return true; } };

template <class Policy, template <typename...> class Back>
struct p_machines
{
    struct Sub_ : public msm::front::state_machine_def<Sub_>
    {
        typedef Policy active_state_switch_policy;
        struct I1 : p_st {}; struct I2 : p_st {};
        typedef I1 initial_state;
        template <class Event, class FSM> void on_entry(Event const&, FSM&) {}
        template <class Event, class FSM> void on_exit(Event const&, FSM&) {}
        struct transition_table : mpl::vector<
            msm::front::Row<I1, p_e1, I2, p_act, p_grd>
        > {};
        template <class FSM, class Event> void no_transition(Event const&, FSM&, int) {}
    };
    typedef Back<Sub_> Sub;
    struct Top_ : public msm::front::state_machine_def<Top_>
    {
        typedef Policy active_state_switch_policy;
        struct A : p_st {}; struct B : p_st {};
        typedef A initial_state;
        template <class Event, class FSM> void on_entry(Event const&, FSM&) {}
        template <class Event, class FSM> void on_exit(Event const&, FSM&) {}
        struct transition_table : mpl::vector<
            msm::front::Row<A, p_e1, B, p_act, p_grd>,
            msm::front::Row<A, p_e2, B, p_act, msm::front::none>,
            msm::front::Row<A, p_e3, B, msm::front::none, p_grd>,
            msm::front::Row<A, p_e4, B, msm::front::none, msm::front::none>,
            msm::front::Row<B, p_in, Sub, p_act, msm::front::none>,
            msm::front::Row<Sub, p_out, A, msm::front::none, p_grd>
        > {};
        template <class FSM, class Event> void no_transition(Event const&, FSM&, int) {}
    };
    typedef Back<Top_> Top;
};
template <class W>
void p_use()
{
    typename W::Top m;
    m.start();
    m.process_event(p_e1()); m.process_event(p_in()); m.process_event(p_e1()); m.process_event(p_out());
    m.process_event(p_e2()); m.process_event(p_e3()); m.process_event(p_e4());
    m.stop();
}
#define P_ALL(POL) \
    template void p_use<p_machines<POL, boost::msm::back::state_machine>>(); \
    template void p_use<p_machines<POL, boost::msm::back11::state_machine>>(); \
    template void p_use<p_machines<POL, boost::msm::backmp11::state_machine_adapter>>();
P_ALL(msm::active_state_switch_after_entry)
P_ALL(msm::active_state_switch_after_transition_action)
P_ALL(msm::active_state_switch_after_exit)
P_ALL(msm::active_state_switch_before_transition)
// the policy given through the `configuration` sequence (as eUML's configure_ does) while the front-end's own typedef stays the default
struct p_cfg_after_exit { typedef msm::active_state_switch_after_exit active_state_switch_policy; };
struct p_cfg_unrelated { typedef int no_message_queue_dummy; };
template <template <typename...> class Back>
struct p_cfg_machines
{
    struct Top_ : public msm::front::state_machine_def<Top_>
    {
        typedef mpl::vector<p_cfg_unrelated, p_cfg_after_exit> configuration;
        struct A : p_st {}; struct B : p_st {};
        typedef A initial_state;
        struct transition_table : mpl::vector<
            msm::front::Row<A, p_e1, B, p_act, p_grd>,
            msm::front::Row<B, p_e2, A, msm::front::none, msm::front::none>
        > {};
        template <class FSM, class Event> void no_transition(Event const&, FSM&, int) {}
    };
    typedef Back<Top_> Top;
};
template <class W> void p_cfg_use() { typename W::Top m; m.start(); m.process_event(p_e1()); m.process_event(p_e2()); m.stop(); }
template void p_cfg_use<p_cfg_machines<boost::msm::back::state_machine>>();
template void p_cfg_use<p_cfg_machines<boost::msm::back11::state_machine>>();
}
