// Type-level witness (compiled with -fsyntax-only): which states a flag query selects.  A state carries a flag when the flag is in its
// flag_list OR in its internal_flag_list (terminate / interrupt states and the PlantUML front-end put flags there); the OR and the AND
// query of backmp11 must read the same merged list, and back / back11 must agree.
#include <boost/msm/back/state_machine.hpp>
#include <boost/msm/back11/state_machine.hpp>
#include <boost/msm/backmp11/state_machine.hpp>
#include <boost/msm/front/state_machine_def.hpp>
#include <boost/msm/front/states.hpp>
#include <boost/mpl/contains.hpp>
#include <type_traits>
namespace msm = boost::msm; namespace mpl = boost::mpl; namespace mp11 = boost::mp11;
namespace d = boost::msm::backmp11::detail;
struct FA {}; struct FB {}; struct FC {};
struct SU : msm::front::state<> { typedef mpl::vector<FA> flag_list; };                                                     // user flag only
struct SI : msm::front::state<> { typedef mpl::vector<> flag_list; typedef mpl::vector<FB> internal_flag_list; };           // internal list only
struct SB : msm::front::state<> { typedef mpl::vector<FA> flag_list; typedef mpl::vector<FB> internal_flag_list; };         // both
struct ST : msm::front::terminate_state<> { typedef mpl::vector<FC> flag_list; };                                           // library flag + user flag
template <class S, class F> constexpr bool or_sel = d::is_flag_active_visitor<F, msm::backmp11::flag_or>::template predicate<S>::value;
template <class S, class F> constexpr bool and_sel = d::is_flag_active_visitor<F, msm::backmp11::flag_and>::template predicate<S>::value;
// the OR visitor visits the states that carry the flag, the AND visitor the states that do NOT carry it
#define CHK(S, F, CARRIES, ID) static_assert(or_sel<S, F> == CARRIES && and_sel<S, F> == !CARRIES, ID ": state " #S " carries " #F " = " #CARRIES " for the OR and for the AND query of backmp11");
CHK(SU, FA, true, "FLAG-001") CHK(SU, FB, false, "FLAG-002") CHK(SI, FB, true, "FLAG-003") CHK(SI, FA, false, "FLAG-004")
CHK(SB, FA, true, "FLAG-005") CHK(SB, FB, true, "FLAG-006") CHK(SB, FC, false, "FLAG-007")
CHK(ST, FC, true, "FLAG-008") CHK(ST, msm::TerminateFlag, true, "FLAG-009") CHK(ST, FA, false, "FLAG-010")
int main() { return 0; }
