// Witness TU (parsed only): the back / back11 state visitor (accept_sig) with a visitor passed BY REFERENCE through a two-region
// submachine that contains a further submachine; the argument-less and the two-argument forms as well.
#include <boost/ref.hpp>
#include <boost/msm/back/state_machine.hpp>
#include <boost/msm/back11/state_machine.hpp>
#include <boost/msm/front/state_machine_def.hpp>
#include <boost/msm/front/functor_row.hpp>
#include <set>
#include <string>
namespace msm = boost::msm;
namespace mpl = boost::mpl;
namespace
{
struct v_enter {}; struct v_leave {}; struct v_deeper {}; struct v_next {};
struct v_collector { std::set<std::string> seen; int calls = 0; };
struct v_tag { int n = 0; };

// one visitable base per signature
struct v_base1
{
    typedef msm::back::args<void, v_collector&> accept_sig;
    virtual ~v_base1() {}
    void accept(v_collector& c) const { ++c.calls; }
};
struct v_base2
{
    typedef msm::back::args<void, v_collector&, v_tag const&> accept_sig;
    virtual ~v_base2() {}
    void accept(v_collector& c, v_tag const&) const { ++c.calls; }
};
struct v_base0
{
    typedef msm::back::args<void> accept_sig;
    virtual ~v_base0() {}
    void accept() const {}
};
template <class FE, class Base> struct v_back { typedef msm::back::state_machine<FE> type; };
template <class FE, class Base> struct v_back11 { typedef msm::back11::state_machine<FE> type; };

template <template <class, class> class Back, class Base>
struct v_machines
{
    struct st : public msm::front::state<Base>
    {
        template <class Event, class FSM> void on_entry(Event const&, FSM&) {}
        template <class Event, class FSM> void on_exit(Event const&, FSM&) {}
    };
    struct Deep_ : public msm::front::state_machine_def<Deep_, Base>
    {
        struct D1 : st {}; struct D2 : st {};
        typedef D1 initial_state;
        struct transition_table : mpl::vector<msm::front::Row<D1, v_next, D2, msm::front::none, msm::front::none> > {};
        template <class FSM, class Event> void no_transition(Event const&, FSM&, int) {}
    };
    typedef typename Back<Deep_, Base>::type Deep;
    struct Sub_ : public msm::front::state_machine_def<Sub_, Base>
    {
        struct A1 : st {}; struct A2 : st {}; struct B1 : st {};
        typedef mpl::vector<A1, B1> initial_state;
        struct transition_table : mpl::vector<
            msm::front::Row<A1, v_next, A2, msm::front::none, msm::front::none>,
            msm::front::Row<B1, v_deeper, Deep, msm::front::none, msm::front::none>
        > {};
        template <class FSM, class Event> void no_transition(Event const&, FSM&, int) {}
    };
    typedef typename Back<Sub_, Base>::type Sub;
    struct Top_ : public msm::front::state_machine_def<Top_, Base>
    {
        struct Idle : st {};
        typedef Idle initial_state;
        struct transition_table : mpl::vector<
            msm::front::Row<Idle, v_enter, Sub, msm::front::none, msm::front::none>,
            msm::front::Row<Sub, v_leave, Idle, msm::front::none, msm::front::none>
        > {};
        template <class FSM, class Event> void no_transition(Event const&, FSM&, int) {}
    };
    typedef typename Back<Top_, Base>::type Top;
};
template <class M> void v_drive(M& m)
{
    m.start(); m.process_event(v_enter()); m.process_event(v_deeper()); m.process_event(v_next());
}
template <template <class, class> class Back> void v_use()
{
    { typename v_machines<Back, v_base1>::Top m; v_drive(m); v_collector c; m.visit_current_states(boost::ref(c)); m.process_event(v_leave()); m.stop(); }
    { typename v_machines<Back, v_base2>::Top m; v_drive(m); v_collector c; v_tag t; m.visit_current_states(boost::ref(c), boost::cref(t)); m.stop(); }
    { typename v_machines<Back, v_base0>::Top m; v_drive(m); m.visit_current_states(); m.stop(); }
}
template void v_use<v_back>();
template void v_use<v_back11>();
}
int main() { return 0; }
