// Type-level witness (compiled with -fsyntax-only): state-id numbering in the documented order - source states top-down as they first
// appear in the transition table, then target-only states, then the remaining initial / explicitly created states - region count and
// array extent, for back, back11 and backmp11.
#include <boost/msm/back/state_machine.hpp>
#include <boost/msm/back11/state_machine.hpp>
#include <boost/msm/backmp11/state_machine.hpp>
#include <boost/msm/front/state_machine_def.hpp>
#include <boost/msm/front/functor_row.hpp>
#include <type_traits>
namespace msm = boost::msm;
namespace mpl = boost::mpl;
using msm::front::Row; using msm::front::none;
struct i_e1 {}; struct i_e2 {}; struct i_e3 {};
struct Fe_ : msm::front::state_machine_def<Fe_>
{
    struct Sa : msm::front::state<> {}; struct Sb : msm::front::state<> {}; struct Sc : msm::front::state<> {};
    struct Td : msm::front::state<> {};            // appears only as a target
    struct Ri : msm::front::state<> {};            // second region's initial state, in no row
    typedef mpl::vector<Sb, Ri> initial_state;     // the first region starts in Sb, which is NOT the first source
    struct transition_table : mpl::vector<
        Row<Sa, i_e1, Sb, none, none>,
        Row<Sb, i_e2, Td, none, none>,
        Row<Sc, i_e3, Sa, none, none>
    > {};
};
template <class M, class S> constexpr int id_back() { return msm::back::get_state_id<typename M::stt, S>::value; }
template <class M, class S> constexpr int id_back11() { return msm::back11::get_state_id<typename M::stt, S>::value; }
typedef msm::back::state_machine<Fe_> B;
typedef msm::back11::state_machine<Fe_> B11;
typedef msm::backmp11::state_machine<Fe_> MP;
// back / back11: sources top-down (Sa, Sb, Sc) - a transition-less initial state takes part as the source of an implicitly added
// row, hence directly after the declared sources (Ri) - then target-only states (Td)
static_assert(id_back<B, Fe_::Sa>() == 0 && id_back<B, Fe_::Sb>() == 1 && id_back<B, Fe_::Sc>() == 2, "IDS-001: back numbers source states top-down");
static_assert(id_back<B, Fe_::Ri>() == 3, "IDS-002: back numbers a transition-less initial state with the sources (implicit row)");
static_assert(id_back<B, Fe_::Td>() == 4, "IDS-003: back numbers target-only states after all sources");
static_assert(id_back11<B11, Fe_::Sa>() == 0 && id_back11<B11, Fe_::Sb>() == 1 && id_back11<B11, Fe_::Sc>() == 2 && id_back11<B11, Fe_::Ri>() == 3 && id_back11<B11, Fe_::Td>() == 4, "IDS-004: back11 numbers like back");
static_assert(B::nr_regions::value == 2 && B11::nr_regions::value == 2, "IDS-005: one region per initial state");
static_assert(std::extent<decltype(B::m_states)>::value == 2, "IDS-006: one active-state slot per region (back)");
// backmp11: sources, targets, remaining initial states
static_assert(MP::get_state_id<Fe_::Sa>() == 0 && MP::get_state_id<Fe_::Sb>() == 1 && MP::get_state_id<Fe_::Sc>() == 2, "IDS-007: backmp11 numbers source states top-down");
static_assert(MP::get_state_id<Fe_::Td>() == 3 && MP::get_state_id<Fe_::Ri>() == 4, "IDS-008: backmp11 numbers targets, then remaining initial states");
static_assert(MP::nr_regions == 2, "IDS-009: backmp11 region count");
// region of an explicit-entry state declared WITHOUT a zone index (explicit_entry<>): back deduces it from the region the state is
// reachable in; three regions, entries into the first, the middle and the last one
struct Rg_ : msm::front::state_machine_def<Rg_>
{
    struct A0 : msm::front::state<> {}; struct B0 : msm::front::state<> {}; struct C0 : msm::front::state<> {};
    struct A1 : msm::front::state<>, msm::front::explicit_entry<> {};
    struct B1 : msm::front::state<>, msm::front::explicit_entry<> {};
    struct C1 : msm::front::state<>, msm::front::explicit_entry<> {};
    typedef mpl::vector<A0, B0, C0> initial_state;
    struct transition_table : mpl::vector<
        Row<A0, i_e1, A1, none, none>,
        Row<B0, i_e2, B1, none, none>,
        Row<C0, i_e3, C1, none, none>
    > {};
};
typedef msm::back::state_machine<Rg_> RB;
static_assert(RB::find_region_id<Rg_::A1>::region_index == 0, "IDS-R01: back deduces region 0 for an explicit entry reachable from the first initial state");
static_assert(RB::find_region_id<Rg_::B1>::region_index == 1, "IDS-R02: back deduces region 1 for an explicit entry reachable from the second initial state");
static_assert(RB::find_region_id<Rg_::C1>::region_index == 2, "IDS-R03: back deduces region 2 for an explicit entry reachable from the third initial state");
