// Witness TU (parsed only): one machine per front-end row family - member-function rows (row, a_row, g_row, _row, the irow family,
// internal / a_internal / g_internal / _internal in a state-local and in a machine-level internal_transition_table), row2 family,
// functor Row / Internal with none / ActionSequence_ / And_ Or_ Not_ - for back, back + favor_compile_time, backmp11 (both policies).
#include <boost/msm/back/state_machine.hpp>
#include <boost/msm/back/favor_compile_time.hpp>
#include <boost/msm/back11/state_machine.hpp>
#include <boost/msm/backmp11/state_machine.hpp>
#include <boost/msm/backmp11/favor_compile_time.hpp>
#include "Backmp11Adapter.hpp"
#include <boost/msm/front/state_machine_def.hpp>
#include <boost/msm/front/functor_row.hpp>
#include <boost/msm/front/row2.hpp>
#include <boost/msm/front/internal_row.hpp>
#include <boost/msm/front/operator.hpp>
#include <type_traits>
namespace msm = boost::msm;
namespace mpl = boost::mpl;
namespace
{
struct r_e1 {}; struct r_e2 {}; struct r_e3 {}; struct r_e4 {}; struct r_i1 {}; struct r_i2 {}; struct r_i3 {}; struct r_i4 {};
struct r_m1 {}; struct r_m2 {}; struct r_m3 {}; struct r_m4 {};
struct r_st : public msm::front::state<>
{
    template <class Event, class FSM> void on_entry(Event const&, FSM&) {}
    template <class Event, class FSM> void on_exit(Event const&, FSM&) {}
};
struct r_act { template <class E, class F, class S, class T> void operator()(E const&, F&, S&, T&) {} };
struct r_act2 { template <class E, class F, class S, class T> void operator()(E const&, F&, S&, T&) {} };
struct r_g1 { template <class E, class F, class S, class T> bool operator()(E const&, F&, S&, T&) { return true; } };
struct r_g2 { template <class E, class F, class S, class T> bool operator()(E const&, F&, S&, T&) { return false; } };

// member-function front-end
template <bool StateLocal>
struct RMt_ : public msm::front::state_machine_def<RMt_<StateLocal>>
{
    typedef RMt_ RM_;
    template<typename T1, class Event, typename T2, void (RMt_::*action)(Event const&), bool (RMt_::*guard)(Event const&)> using row = typename msm::front::state_machine_def<RMt_>::template row<T1, Event, T2, action, guard>;
    template<typename T1, class Event, typename T2, void (RMt_::*action)(Event const&)> using a_row = typename msm::front::state_machine_def<RMt_>::template a_row<T1, Event, T2, action>;
    template<typename T1, class Event, typename T2, bool (RMt_::*guard)(Event const&)> using g_row = typename msm::front::state_machine_def<RMt_>::template g_row<T1, Event, T2, guard>;
    template<typename T1, class Event, typename T2> using _row = typename msm::front::state_machine_def<RMt_>::template _row<T1, Event, T2>;
    template<typename T1, class Event, void (RMt_::*action)(Event const&), bool (RMt_::*guard)(Event const&)> using irow = typename msm::front::state_machine_def<RMt_>::template irow<T1, Event, action, guard>;
    template<typename T1, class Event, void (RMt_::*action)(Event const&)> using a_irow = typename msm::front::state_machine_def<RMt_>::template a_irow<T1, Event, action>;
    template<typename T1, class Event, bool (RMt_::*guard)(Event const&)> using g_irow = typename msm::front::state_machine_def<RMt_>::template g_irow<T1, Event, guard>;
    template<typename T1, class Event> using _irow = typename msm::front::state_machine_def<RMt_>::template _irow<T1, Event>;
    struct S2;
    struct S1 : r_st
    {
        void s1_act(r_i1 const&) {}
        bool s1_grd(r_i2 const&) { return true; }
        void s1_act3(r_i3 const&) {}
        bool s1_grd3(r_i3 const&) { return true; }
        // state-local internal table, member-function flavour
        typedef typename std::conditional<StateLocal, mpl::vector<
            msm::front::a_internal<r_i1, S1, &S1::s1_act>,
            msm::front::g_internal<r_i2, S1, &S1::s1_grd>,
            msm::front::internal<r_i3, S1, &S1::s1_act3, S1, &S1::s1_grd3>,
            msm::front::_internal<r_i4> >, mpl::vector<> >::type internal_transition_table;
    };
    struct S2 : r_st {};
    typedef S1 initial_state;
    void act(r_e1 const&) {}
    bool grd(r_e1 const&) { return true; }
    void act2(r_e2 const&) {}
    bool grd3(r_e3 const&) { return true; }
    void iact(r_m1 const&) {}
    bool igrd(r_m2 const&) { return false; }
    void iact3(r_m3 const&) {}
    bool igrd3(r_m3 const&) { return false; }
    typedef RMt_ p;
    struct transition_table : mpl::vector<
        row<S1, r_e1, S2, &p::act, &p::grd>,
        a_row<S1, r_e2, S2, &p::act2>,
        g_row<S1, r_e3, S2, &p::grd3>,
        _row<S1, r_e4, S2>,
        irow<S2, r_e1, &p::act, &p::grd>,
        a_irow<S2, r_e2, &p::act2>,
        g_irow<S2, r_e3, &p::grd3>,
        _irow<S2, r_e4>
    > {};
    // machine-level internal table, member-function flavour
    struct internal_transition_table : mpl::vector<
        msm::front::a_internal<r_m1, RM_, &RM_::iact>,
        msm::front::g_internal<r_m2, RM_, &RM_::igrd>,
        msm::front::internal<r_m3, RM_, &RM_::iact3, RM_, &RM_::igrd3>,
        msm::front::_internal<r_m4>
    > {};
    template <class FSM, class Event> void no_transition(Event const&, FSM&, int) {}
};
// functor front-end of the same shape
struct RF_ : public msm::front::state_machine_def<RF_>
{
    struct S1 : r_st
    {
        struct internal_transition_table : mpl::vector<
            msm::front::Internal<r_i1, r_act, msm::front::none>,
            msm::front::Internal<r_i2, msm::front::none, r_g1>,
            msm::front::Internal<r_i3, r_act, r_g1>,
            msm::front::Internal<r_i4, msm::front::none, msm::front::none>
        > {};
    };
    struct S2 : r_st {};
    typedef S1 initial_state;
    struct transition_table : mpl::vector<
        msm::front::Row<S1, r_e1, S2, r_act, msm::front::And_<r_g1, msm::front::Not_<r_g2>>>,
        msm::front::Row<S1, r_e2, S2, msm::front::ActionSequence_<mpl::vector<r_act, r_act2>>, msm::front::none>,
        msm::front::Row<S1, r_e3, S2, msm::front::none, msm::front::Or_<r_g2, r_g1>>,
        msm::front::Row<S1, r_e4, S2, msm::front::none, msm::front::none>,
        msm::front::Row<S2, r_e1, msm::front::none, r_act, r_g1>,
        msm::front::Row<S2, r_e2, msm::front::none, r_act, msm::front::none>,
        msm::front::Row<S2, r_e3, msm::front::none, msm::front::none, r_g1>,
        msm::front::Row<S2, r_e4, msm::front::none, msm::front::none, msm::front::none>
    > {};
    struct internal_transition_table : mpl::vector<
        msm::front::Internal<r_m1, r_act, msm::front::none>,
        msm::front::Internal<r_m2, msm::front::none, r_g2>,
        msm::front::Internal<r_m3, r_act, r_g2>,
        msm::front::Internal<r_m4, msm::front::none, msm::front::none>
    > {};
    template <class FSM, class Event> void no_transition(Event const&, FSM&, int) {}
};
template <class M>
void r_use()
{
    M m;
    m.start();
    m.process_event(r_i1()); m.process_event(r_i2()); m.process_event(r_i3()); m.process_event(r_i4());
    m.process_event(r_m1()); m.process_event(r_m2()); m.process_event(r_m3()); m.process_event(r_m4());
    m.process_event(r_e1()); m.process_event(r_e2()); m.process_event(r_e3()); m.process_event(r_e4());
    m.stop();
}
typedef RMt_<true> RM_; typedef RMt_<false> RM2_;
template void r_use<msm::back::state_machine<RM_>>();
template void r_use<msm::back::state_machine<RM_, msm::back::favor_compile_time>>();
template void r_use<msm::backmp11::state_machine_adapter<RM2_>>();
template void r_use<msm::backmp11::state_machine_adapter<RM2_, msm::backmp11::favor_compile_time>>();
template void r_use<msm::back::state_machine<RF_>>();
template void r_use<msm::back::state_machine<RF_, msm::back::favor_compile_time>>();
template void r_use<msm::backmp11::state_machine_adapter<RF_>>();
template void r_use<msm::backmp11::state_machine_adapter<RF_, msm::backmp11::favor_compile_time>>();
// row2 family: behaviours are member functions of a state (or of the front-end)
struct R2_ : public msm::front::state_machine_def<R2_>
{
    struct S1 : r_st
    {
        void act(r_e1 const&) {}
        bool grd(r_e1 const&) { return true; }
        void iact(r_i1 const&) {}
        bool igrd(r_i1 const&) { return true; }
        void iact2(r_i2 const&) {}
        bool igrd3(r_i3 const&) { return true; }
    };
    struct S2 : r_st
    {
        void act2(r_e2 const&) {}
        bool grd3(r_e3 const&) { return false; }
    };
    typedef S1 initial_state;
    struct transition_table : mpl::vector<
        msm::front::row2<S1, r_e1, S2, S1, &S1::act, S1, &S1::grd>,
        msm::front::a_row2<S2, r_e2, S1, S2, &S2::act2>,
        msm::front::g_row2<S2, r_e3, S1, S2, &S2::grd3>,
        msm::front::_row2<S2, r_e4, S1>,
        msm::front::irow2<S1, r_i1, S1, &S1::iact, S1, &S1::igrd>,
        msm::front::a_irow2<S1, r_i2, S1, &S1::iact2>,
        msm::front::g_irow2<S1, r_i3, S1, &S1::igrd3>
    > {};
    template <class FSM, class Event> void no_transition(Event const&, FSM&, int) {}
};
template void r_use<msm::back::state_machine<R2_>>();
template void r_use<msm::back11::state_machine<R2_>>();
// state-behaviour (three-argument) forms of the composing functors, as eUML state entry / exit expressions use them
struct r_sg1 { template <class E, class F, class S> bool operator()(E const&, F&, S&) { return true; } };
struct r_sg2 { template <class E, class F, class S> bool operator()(E const&, F&, S&) { return false; } };
struct r_sa1 { template <class E, class F, class S> void operator()(E const&, F&, S&) {} };
struct r_sa2 { template <class E, class F, class S> void operator()(E const&, F&, S&) {} };
template <class M>
bool r_state_forms(M& m, r_st& st)
{
    r_e1 e;
    msm::front::ActionSequence_<mpl::vector<r_sa1, r_sa2>>()(e, m, st);
    return msm::front::And_<r_sg1, msm::front::Not_<r_sg2>>()(e, m, st) || msm::front::Or_<r_sg2, r_sg1>()(e, m, st);
}
template bool r_state_forms<msm::back::state_machine<RF_>>(msm::back::state_machine<RF_>&, r_st&);
}
int main() { return 0; }
