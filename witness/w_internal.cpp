// Witness TU (parsed only): events that are handled ONLY by internal transitions below the machine that receives them - a state-local
// internal_transition_table of a substate of a submachine, the submachine's own machine-level internal_transition_table, and the same
// two levels deeper - so that the enclosing machines must forward them; all back-ends and compile policies.
#include <boost/msm/back/state_machine.hpp>
#include <boost/msm/back/favor_compile_time.hpp>
#include <boost/msm/back11/state_machine.hpp>
#include <boost/msm/backmp11/state_machine.hpp>
#include <boost/msm/backmp11/favor_compile_time.hpp>
#include "Backmp11Adapter.hpp"
#include <boost/msm/front/state_machine_def.hpp>
#include <boost/msm/front/functor_row.hpp>
namespace msm = boost::msm;
namespace mpl = boost::mpl;
namespace
{
struct wi_go {}; struct wi_deeper {}; struct wi_state_local {}; struct wi_machine_level {}; struct wi_deep_local {}; struct wi_unknown {};
struct wi_act2 { template <class E, class F, class S, class T> void operator()(E const&, F&, S&, T&) {} };
struct wi_act3 { template <class E, class F, class S, class T> void operator()(E const&, F&, S&, T&) {} };
struct wi_g1 { template <class E, class F, class S, class T> bool operator()(E const&, F&, S&, T&) { return true; } };
struct wi_g2 { template <class E, class F, class S, class T> bool operator()(E const&, F&, S&, T&) { return false; } };
struct wi_act { template <class E, class F, class S, class T> void operator()(E const&, F&, S&, T&) {} };
struct wi_st : public msm::front::state<>
{
    template <class Event, class FSM> void on_entry(Event const&, FSM&) {}
    template <class Event, class FSM> void on_exit(Event const&, FSM&) {}
};
template <template <typename...> class Back, class Policy = void>
struct wi_machines
{
    template <class FE> struct back_of { typedef Back<FE, Policy> type; };
    struct Low_ : public msm::front::state_machine_def<Low_>
    {
        struct L1 : wi_st { struct internal_transition_table : mpl::vector<msm::front::Internal<wi_deep_local, wi_act, msm::front::none> > {}; };
        typedef L1 initial_state;
        struct transition_table : mpl::vector<> {};
        template <class FSM, class Event> void no_transition(Event const&, FSM&, int) {}
    };
    typedef typename back_of<Low_>::type Low;
    struct Sub_ : public msm::front::state_machine_def<Sub_>
    {
        // three internal rows of ONE state on the same event (a conflict inside the state's own internal table: last declared is tried first)
        struct A : wi_st { struct internal_transition_table : mpl::vector<msm::front::Internal<wi_state_local, wi_act, msm::front::none>,
                                                                          msm::front::Internal<wi_state_local, wi_act2, wi_g1>,
                                                                          msm::front::Internal<wi_state_local, wi_act3, wi_g2> > {}; };
        typedef A initial_state;
        struct transition_table : mpl::vector<msm::front::Row<A, wi_deeper, Low, msm::front::none, msm::front::none> > {};
        struct internal_transition_table : mpl::vector<msm::front::Internal<wi_machine_level, wi_act, msm::front::none> > {};
        template <class FSM, class Event> void no_transition(Event const&, FSM&, int) {}
    };
    typedef typename back_of<Sub_>::type Sub;
    struct Top_ : public msm::front::state_machine_def<Top_>
    {
        struct Idle : wi_st {};
        typedef Idle initial_state;
        struct transition_table : mpl::vector<msm::front::Row<Idle, wi_go, Sub, msm::front::none, msm::front::none> > {};
        template <class FSM, class Event> void no_transition(Event const&, FSM&, int) {}
    };
    typedef typename back_of<Top_>::type Top;
};
template <template <typename...> class Back> struct wi_machines<Back, void>
{
    template <class FE> struct back_of { typedef Back<FE> type; };
    struct Low_ : public msm::front::state_machine_def<Low_>
    {
        struct L1 : wi_st { struct internal_transition_table : mpl::vector<msm::front::Internal<wi_deep_local, wi_act, msm::front::none> > {}; };
        typedef L1 initial_state;
        struct transition_table : mpl::vector<> {};
        template <class FSM, class Event> void no_transition(Event const&, FSM&, int) {}
    };
    typedef typename back_of<Low_>::type Low;
    struct Sub_ : public msm::front::state_machine_def<Sub_>
    {
        // three internal rows of ONE state on the same event (a conflict inside the state's own internal table: last declared is tried first)
        struct A : wi_st { struct internal_transition_table : mpl::vector<msm::front::Internal<wi_state_local, wi_act, msm::front::none>,
                                                                          msm::front::Internal<wi_state_local, wi_act2, wi_g1>,
                                                                          msm::front::Internal<wi_state_local, wi_act3, wi_g2> > {}; };
        typedef A initial_state;
        struct transition_table : mpl::vector<msm::front::Row<A, wi_deeper, Low, msm::front::none, msm::front::none> > {};
        struct internal_transition_table : mpl::vector<msm::front::Internal<wi_machine_level, wi_act, msm::front::none> > {};
        template <class FSM, class Event> void no_transition(Event const&, FSM&, int) {}
    };
    typedef typename back_of<Sub_>::type Sub;
    struct Top_ : public msm::front::state_machine_def<Top_>
    {
        struct Idle : wi_st {};
        typedef Idle initial_state;
        struct transition_table : mpl::vector<msm::front::Row<Idle, wi_go, Sub, msm::front::none, msm::front::none> > {};
        template <class FSM, class Event> void no_transition(Event const&, FSM&, int) {}
    };
    typedef typename back_of<Top_>::type Top;
};
template <class W> void wi_use()
{
    typename W::Top m; m.start();
    m.process_event(wi_go()); m.process_event(wi_state_local()); m.process_event(wi_machine_level());
    m.process_event(wi_deeper()); m.process_event(wi_deep_local()); m.process_event(wi_machine_level()); m.process_event(wi_unknown());
    m.stop();
}
template void wi_use<wi_machines<msm::back::state_machine>>();
template void wi_use<wi_machines<msm::back::state_machine, msm::back::favor_compile_time>>();
template void wi_use<wi_machines<msm::back11::state_machine>>();
template void wi_use<wi_machines<msm::backmp11::state_machine_adapter>>();
template void wi_use<wi_machines<msm::backmp11::state_machine_adapter, msm::backmp11::favor_compile_time>>();
}
int main() { return 0; }
