// Witness TU (parsed only): exact, base-class (first and non-first base, two inheritance levels) and Kleene triggers competing in one
// state and across a submachine level; back, back11 (where it accepts the declarations) and backmp11 flat_fold.
#include <boost/msm/back/state_machine.hpp>
#include <boost/msm/back/favor_compile_time.hpp>
#include <boost/msm/back11/state_machine.hpp>
#include <boost/msm/backmp11/state_machine.hpp>
#include "Backmp11Adapter.hpp"
#include <boost/msm/front/state_machine_def.hpp>
#include <boost/msm/front/functor_row.hpp>
#include <boost/any.hpp>
namespace msm = boost::msm;
namespace mpl = boost::mpl;
namespace
{
struct we_base1 { int a = 1; };
struct we_base2 { int b = 2; };
struct we_mid : we_base1 { int m = 3; };
struct we_leaf : we_mid { int l = 4; };                 // two inheritance levels, first-base chain
struct we_multi : we_base1, we_base2 { int x = 5; };    // we_base2 is a NON-first base
struct we_exact {};
struct we_go {};
struct we_st : public msm::front::state<>
{
    template <class Event, class FSM> void on_entry(Event const&, FSM&) {}
    template <class Event, class FSM> void on_exit(Event const&, FSM&) {}
};
struct we_act { template <class E, class F, class S, class T> void operator()(E const&, F&, S&, T&) {} };
struct we_grd { template <class E, class F, class S, class T> bool operator()(E const&, F&, S&, T&) { return false; } };

template <template <typename...> class Back>
struct we_machines
{
    struct Sub_ : public msm::front::state_machine_def<Sub_>
    {
        struct S1 : we_st {}; struct S2 : we_st {};
        typedef S1 initial_state;
        template <class Event, class FSM> void on_entry(Event const&, FSM&) {}
        template <class Event, class FSM> void on_exit(Event const&, FSM&) {}
        struct transition_table : mpl::vector<
            msm::front::Row<S1, we_base1, S2, we_act, we_grd>,
            msm::front::Row<S2, boost::any, S1, we_act, we_grd>
        > {};
        template <class FSM, class Event> void no_transition(Event const&, FSM&, int) {}
    };
    typedef Back<Sub_> Sub;
    struct Top_ : public msm::front::state_machine_def<Top_>
    {
        struct A : we_st {}; struct B : we_st {}; struct C : we_st {};
        typedef A initial_state;
        template <class Event, class FSM> void on_entry(Event const&, FSM&) {}
        template <class Event, class FSM> void on_exit(Event const&, FSM&) {}
        struct transition_table : mpl::vector<
            msm::front::Row<A, we_base1, B, we_act, we_grd>,       // base-class trigger (first base of we_mid / we_leaf / we_multi)
            msm::front::Row<A, boost::any, C, we_act, we_grd>,     // Kleene trigger
            msm::front::Row<A, we_leaf, B, we_act, we_grd>,        // exact trigger, declared last = highest priority
            msm::front::Row<B, we_base2, C, we_act, msm::front::none>,   // trigger is a NON-first base of we_multi (single row => direct cell)
            msm::front::Row<B, we_go, Sub, msm::front::none, msm::front::none>,
            msm::front::Row<Sub, we_mid, A, we_act, we_grd>,
            msm::front::Row<C, we_exact, A, msm::front::none, msm::front::none>
        > {};
        // the machine's own internal table: base-class and Kleene triggers compete there exactly as in the transition table
        struct internal_transition_table : mpl::vector<
            msm::front::Internal<we_base2, we_act, we_grd>,
            msm::front::Internal<boost::any, we_act, we_grd>
        > {};
        template <class FSM, class Event> void no_transition(Event const&, FSM&, int) {}
    };
    typedef Back<Top_> Top;
};
template <class W>
void we_use()
{
    typename W::Top m;
    m.start();
    m.process_event(we_leaf());
    m.process_event(we_mid());
    m.process_event(we_multi());
    m.process_event(we_base1());
    m.process_event(we_base2());
    m.process_event(we_exact());
    m.process_event(we_go());
    m.stop();
}
template void we_use<we_machines<boost::msm::back::state_machine>>();
template void we_use<we_machines<boost::msm::backmp11::state_machine_adapter>>();

// back11 rejects Kleene rows inside a conflict chain; base-class triggers only
template <template <typename...> class Back>
struct we_nk
{
    struct Top_ : public msm::front::state_machine_def<Top_>
    {
        struct A : we_st {}; struct B : we_st {}; struct C : we_st {};
        typedef A initial_state;
        template <class Event, class FSM> void on_entry(Event const&, FSM&) {}
        template <class Event, class FSM> void on_exit(Event const&, FSM&) {}
        struct transition_table : mpl::vector<
            msm::front::Row<A, we_base1, B, we_act, msm::front::none>,
            msm::front::Row<B, we_base2, C, we_act, msm::front::none>,
            msm::front::Row<C, we_exact, A, msm::front::none, msm::front::none>
        > {};
        struct internal_transition_table : mpl::vector<
            msm::front::Internal<we_base2, we_act, we_grd>
        > {};
        template <class FSM, class Event> void no_transition(Event const&, FSM&, int) {}
    };
    typedef Back<Top_> Top;
};
template <class W>
void we_use_nk()
{
    typename W::Top m;
    m.start();
    m.process_event(we_multi());
    m.process_event(we_leaf());
    m.process_event(we_exact());
    m.stop();
}
template void we_use_nk<we_nk<boost::msm::back11::state_machine>>();
template void we_use_nk<we_nk<boost::msm::back::state_machine>>();
// favor_compile_time: exact and base-class triggers (no Kleene)
template <class FE> using we_fct = boost::msm::back::state_machine<FE, boost::msm::back::favor_compile_time>;
template void we_use_nk<we_nk<we_fct>>();
// a Kleene row in a machine that also has completion (trigger-less) rows: the Kleene row must not be taken for the library's own
// completion event when its source state is entered
template <template <typename...> class Back>
struct we_kc
{
    struct Top_ : public msm::front::state_machine_def<Top_>
    {
        struct A : we_st {}; struct B : we_st {}; struct C : we_st {}; struct D : we_st {};
        typedef A initial_state;
        struct transition_table : mpl::vector<
            msm::front::Row<A, we_go, B, msm::front::none, msm::front::none>,
            msm::front::Row<B, boost::any, C, we_act, msm::front::none>,
            msm::front::Row<D, msm::front::none, A, msm::front::none, msm::front::none>
        > {};
        template <class FSM, class Event> void no_transition(Event const&, FSM&, int) {}
    };
    typedef Back<Top_> Top;
};
template <class W> void we_use_kc() { typename W::Top m; m.start(); m.process_event(we_go()); m.process_event(we_exact()); m.stop(); }
template void we_use_kc<we_kc<boost::msm::back::state_machine>>();
template void we_use_kc<we_kc<boost::msm::back11::state_machine>>();
template void we_use_kc<we_kc<boost::msm::backmp11::state_machine_adapter>>();
}
