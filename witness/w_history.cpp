// Witness TU (parsed only): the three history policies on a two-region submachine, copied, assigned and (back, back11) serialized to
// text and binary archives; explicit entry with shallow history; backmp11 through the front-end `history` typedef.
#include <boost/msm/back/state_machine.hpp>
#include <boost/msm/back11/state_machine.hpp>
#include <boost/msm/backmp11/state_machine.hpp>
#include "Backmp11Adapter.hpp"
#include <boost/msm/front/state_machine_def.hpp>
#include <boost/msm/front/functor_row.hpp>
#include <boost/msm/front/history_policies.hpp>
#include <boost/archive/text_oarchive.hpp>
#include <boost/archive/text_iarchive.hpp>
#include <boost/archive/binary_oarchive.hpp>
#include <boost/archive/binary_iarchive.hpp>
#include <sstream>
namespace msm = boost::msm;
namespace mpl = boost::mpl;
namespace
{
struct h_go {}; struct h_resume {}; struct h_leave {}; struct h_step {}; struct h_jump {}; struct h_jump_g {}; struct h_jump_a {}; struct h_jump_ga {}; struct h_fork {};
struct h_st : public msm::front::state<>
{
    template <class Event, class FSM> void on_entry(Event const&, FSM&) {}
    template <class Event, class FSM> void on_exit(Event const&, FSM&) {}
};
struct h_act { template <class E, class F, class S, class T> void operator()(E const&, F&, S&, T&) {} };
struct h_grd { template <class E, class F, class S, class T> bool operator()(E const&, F&, S&, T&) { return true; } };

// ---- back / back11: history is a back-end policy (back11 takes the upper-fsm type first)
template <class FE, class H = void> struct h_back { typedef boost::msm::back::state_machine<FE, H> type; };
template <class FE> struct h_back<FE, void> { typedef boost::msm::back::state_machine<FE> type; };
template <class FE, class H = void> struct h_back11 { typedef boost::msm::back11::state_machine<FE, void, H> type; };
template <class FE> struct h_back11<FE, void> { typedef boost::msm::back11::state_machine<FE> type; };
template <class FE, class H = void> struct h_mp11 { typedef boost::msm::backmp11::state_machine_adapter<FE> type; };   // history is a front-end typedef there
template <template <class, class> class Back, class History>
struct h_machines
{
    struct Sub_ : public msm::front::state_machine_def<Sub_>
    {
        struct A1 : h_st {}; struct A2 : h_st {}; struct A2x : h_st, msm::front::explicit_entry<0> {};
        struct B1 : h_st {}; struct B2 : h_st, msm::front::explicit_entry<1> {};
        typedef mpl::vector<A2x> explicit_creation;
        typedef mpl::vector<A1, B1> initial_state;
        typedef int do_serialize;
        int data = 0;
        template <class Archive> void serialize(Archive& ar, const unsigned int) { ar & data; }
        template <class Event, class FSM> void on_entry(Event const&, FSM&) {}
        template <class Event, class FSM> void on_exit(Event const&, FSM&) {}
        struct transition_table : mpl::vector<
            msm::front::Row<A1, h_step, A2, h_act, msm::front::none>,
            msm::front::Row<B1, h_step, B2, msm::front::none, msm::front::none>
        > {};
        template <class FSM, class Event> void no_transition(Event const&, FSM&, int) {}
    };
    typedef typename Back<Sub_, History>::type Sub;
    struct Top_ : public msm::front::state_machine_def<Top_>
    {
        struct Idle : h_st {};
        typedef Idle initial_state;
        template <class Event, class FSM> void on_entry(Event const&, FSM&) {}
        template <class Event, class FSM> void on_exit(Event const&, FSM&) {}
        struct transition_table : mpl::vector<
            msm::front::Row<Idle, h_go, Sub, msm::front::none, msm::front::none>,
            msm::front::Row<Idle, h_resume, Sub, msm::front::none, msm::front::none>,
            msm::front::Row<Idle, h_jump, typename Sub::template direct<typename Sub_::B2>, msm::front::none, msm::front::none>,
            // explicit entry through every row kind (guard only, action only, both) and a fork
            msm::front::Row<Idle, h_jump_g, typename Sub::template direct<typename Sub_::B2>, msm::front::none, h_grd>,
            msm::front::Row<Idle, h_jump_a, typename Sub::template direct<typename Sub_::B2>, h_act, msm::front::none>,
            msm::front::Row<Idle, h_jump_ga, typename Sub::template direct<typename Sub_::B2>, h_act, h_grd>,
            msm::front::Row<Idle, h_fork, mpl::vector<typename Sub::template direct<typename Sub_::A2x>, typename Sub::template direct<typename Sub_::B2> >, msm::front::none, h_grd>,
            msm::front::Row<Sub, h_leave, Idle, h_act, msm::front::none>
        > {};
        template <class FSM, class Event> void no_transition(Event const&, FSM&, int) {}
    };
    typedef typename Back<Top_, void>::type Top;
};
template <class W>
void h_use()
{
    typename W::Top m;
    m.start();
    m.process_event(h_go()); m.process_event(h_step()); m.process_event(h_leave());
    m.process_event(h_resume()); m.process_event(h_leave()); m.process_event(h_jump());
    m.process_event(h_leave()); m.process_event(h_jump_g()); m.process_event(h_leave()); m.process_event(h_jump_a());
    m.process_event(h_leave()); m.process_event(h_jump_ga()); m.process_event(h_leave()); m.process_event(h_fork());
    const typename W::Top& cm = m;
    typename W::Top c(cm);
    c = cm;
    std::ostringstream os;
    { boost::archive::text_oarchive oa(os); oa << cm; }
    { std::istringstream is(os.str()); boost::archive::text_iarchive ia(is); typename W::Top l; ia >> l; }
    std::ostringstream ob;
    { boost::archive::binary_oarchive oa(ob); oa << cm; }
    { std::istringstream is(ob.str()); boost::archive::binary_iarchive ia(is); typename W::Top l; ia >> l; }
    m.stop();
}
#define H_ALL(HIST) \
    template void h_use<h_machines<h_back, HIST>>(); \
    template void h_use<h_machines<h_back11, HIST>>();
H_ALL(msm::back::NoHistory)
template void h_use<h_machines<h_mp11, void>>();
H_ALL(msm::back::AlwaysHistory)
H_ALL(msm::back::ShallowHistory<mpl::vector<h_resume>>)
// ---- a three-region submachine entered by a fork that names two of the three regions, by a single direct entry and through an entry
//      point; the un-named regions must follow the history policy (also "no history": restart from the initial state)
struct h_fork2 {}; struct h_one {}; struct h_pseudo {}; struct h_inner {};
template <template <class, class> class Back>
struct h3_machines
{
    struct Sub_ : public msm::front::state_machine_def<Sub_>
    {
        struct A1 : h_st {}; struct A2 : h_st, msm::front::explicit_entry<0> {};
        struct B1 : h_st {}; struct B2 : h_st, msm::front::explicit_entry<1> {};
        struct C1 : h_st {}; struct C2 : h_st {};
        struct PE : msm::front::entry_pseudo_state<2> {};
        typedef mpl::vector<A2, B2> explicit_creation;
        typedef mpl::vector<A1, B1, C1> initial_state;
        template <class Event, class FSM> void on_entry(Event const&, FSM&) {}
        template <class Event, class FSM> void on_exit(Event const&, FSM&) {}
        struct transition_table : mpl::vector<
            msm::front::Row<C1, h_step, C2, msm::front::none, msm::front::none>,
            msm::front::Row<PE, h_pseudo, C2, h_act, msm::front::none>
        > {};
        template <class FSM, class Event> void no_transition(Event const&, FSM&, int) {}
    };
    typedef typename Back<Sub_, void>::type Sub;
    struct Top_ : public msm::front::state_machine_def<Top_>
    {
        struct Idle : h_st {};
        typedef Idle initial_state;
        struct transition_table : mpl::vector<
            msm::front::Row<Idle, h_fork2, mpl::vector<typename Sub::template direct<typename Sub_::A2>, typename Sub::template direct<typename Sub_::B2> >, msm::front::none, msm::front::none>,
            msm::front::Row<Idle, h_one, typename Sub::template direct<typename Sub_::B2>, msm::front::none, msm::front::none>,
            msm::front::Row<Idle, h_pseudo, typename Sub::template entry_pt<typename Sub_::PE>, msm::front::none, msm::front::none>,
            msm::front::Row<Sub, h_leave, Idle, msm::front::none, msm::front::none>
        > {};
        template <class FSM, class Event> void no_transition(Event const&, FSM&, int) {}
    };
    typedef typename Back<Top_, void>::type Top;
};
template <class W> void h3_use()
{
    typename W::Top m; m.start();
    m.process_event(h_fork2()); m.process_event(h_step()); m.process_event(h_leave());
    m.process_event(h_fork2()); m.process_event(h_leave()); m.process_event(h_one()); m.process_event(h_leave()); m.process_event(h_pseudo());
    m.stop();
}
template void h3_use<h3_machines<h_back>>();
template void h3_use<h3_machines<h_back11>>();
template void h3_use<h3_machines<h_mp11>>();
// ---- shallow history and an entering event that is DERIVED from a listed event (restores only for the listed type itself)
struct h_resume_tagged : h_resume { int tag = 0; };
struct h_derived_sub_ : public msm::front::state_machine_def<h_derived_sub_>
{
    using history = msm::front::shallow_history<h_resume>;         // backmp11: front-end typedef
    struct A1 : h_st {}; struct A2 : h_st {};
    typedef A1 initial_state;
    struct transition_table : mpl::vector<msm::front::Row<A1, h_step, A2, msm::front::none, msm::front::none> > {};
    template <class FSM, class Event> void no_transition(Event const&, FSM&, int) {}
};
template <class Sub>
struct h_derived_top_ : public msm::front::state_machine_def<h_derived_top_<Sub> >
{
    struct Idle : h_st {};
    typedef Idle initial_state;
    struct transition_table : mpl::vector<
        msm::front::Row<Idle, h_go, Sub, msm::front::none, msm::front::none>,
        msm::front::Row<Idle, h_resume, Sub, msm::front::none, msm::front::none>,
        msm::front::Row<Idle, h_resume_tagged, Sub, msm::front::none, msm::front::none>,
        msm::front::Row<Sub, h_leave, Idle, msm::front::none, msm::front::none>
    > {};
    template <class FSM, class Event> void no_transition(Event const&, FSM&, int) {}
};
template <class Top> void h_derived_use()
{
    Top m; m.start(); m.process_event(h_go()); m.process_event(h_step()); m.process_event(h_leave());
    m.process_event(h_resume_tagged()); m.process_event(h_leave()); m.process_event(h_resume()); m.stop();
}
typedef msm::back::state_machine<h_derived_sub_, msm::back::ShallowHistory<mpl::vector<h_resume> > > h_dsub_back;
typedef msm::back11::state_machine<h_derived_sub_, void, msm::back::ShallowHistory<mpl::vector<h_resume> > > h_dsub_back11;
typedef msm::backmp11::state_machine_adapter<h_derived_sub_> h_dsub_mp11;
template void h_derived_use<msm::back::state_machine<h_derived_top_<h_dsub_back> > >();
template void h_derived_use<msm::back11::state_machine<h_derived_top_<h_dsub_back11> > >();
template void h_derived_use<msm::backmp11::state_machine_adapter<h_derived_top_<h_dsub_mp11> > >();
}
